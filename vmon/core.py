"""Monitoring context: event counters, three-valued verdicts, known-finding classification.

A *monitor* is a named oracle.  Every time an oracle observes one execution of the real code it
calls ``ctx.check(monitor, ok, ...)`` (or ``ctx.fail``); the context counts the evaluation, records
the input-class signature, and on failure classifies the violation by *mechanism* against
/verif/known_findings.json.  Nothing here knows anything about toqito.
"""
from __future__ import annotations

import collections
import contextlib
import hashlib
import json
import os
import signal
import sys
import time
import traceback

import numpy as np

VERIF = os.path.dirname(os.path.dirname(os.path.abspath(__file__)))
REPO = os.path.realpath(os.environ.get("VERIF_REPO", "/repo"))


class CaseTimeout(Exception):
    """The per-case wall-clock watchdog fired (inconclusive, never a violation)."""


class SolverFailure(Exception):
    """Instance-level solver failure (inconclusive instance)."""


FAILED = object()  # sentinel returned by Ctx.call when the solver failed on this instance


def _solver_exc_types():
    out = [ArithmeticError, ZeroDivisionError]
    try:
        import cvxpy

        out.append(cvxpy.error.SolverError)
    except Exception:  # noqa: BLE001
        pass
    try:
        import picos

        out.append(picos.SolutionFailure)
    except Exception:  # noqa: BLE001
        pass
    return tuple(out)


def enc(obj, depth=0):
    """JSON-encode an argument / observation compactly (arrays as nested lists, truncated)."""
    if depth > 6:
        return "..."
    if isinstance(obj, (str, int, bool)) or obj is None:
        return obj
    if isinstance(obj, float):
        return obj if np.isfinite(obj) else repr(obj)
    if isinstance(obj, complex):
        return {"re": obj.real, "im": obj.imag}
    if isinstance(obj, (np.integer,)):
        return int(obj)
    if isinstance(obj, (np.floating,)):
        return enc(float(obj))
    if isinstance(obj, (np.complexfloating,)):
        return enc(complex(obj))
    if isinstance(obj, np.bool_):
        return bool(obj)
    if isinstance(obj, np.ndarray):
        d = {"dtype": str(obj.dtype), "shape": list(obj.shape)}
        if obj.size <= 100 and obj.dtype != object:
            if np.iscomplexobj(obj):
                d["re"] = np.round(obj.real, 12).tolist()
                d["im"] = np.round(obj.imag, 12).tolist()
            else:
                d["v"] = obj.tolist()
        else:
            d["sha1"] = hashlib.sha1(np.ascontiguousarray(obj).tobytes()).hexdigest() if obj.dtype != object else "object"
        return d
    if isinstance(obj, dict):
        return {str(k): enc(v, depth + 1) for k, v in obj.items()}
    if isinstance(obj, (list, tuple)):
        return [enc(v, depth + 1) for v in obj][:64]
    return repr(obj)[:200]


class Ctx:
    """Per-worker monitoring context."""

    def __init__(self, prop, tier, seed, findings):
        self.prop = prop
        self.tier = tier
        self.seed = seed
        self.findings = findings  # vmon.findings.Findings
        self.evals = collections.Counter()  # monitor -> number of oracle evaluations
        self.sigs = {}  # signature(str) -> nontrivial(bool)
        self.samples = []  # a few written-out cases
        self.violations = []  # list of dict
        self.known = collections.Counter()  # finding key -> times observed
        self.known_what = {}
        self.solver_fail = collections.Counter()
        self.inconclusive = collections.Counter()
        self.inconclusive_cases = []
        self.maxdev = collections.defaultdict(float)  # monitor -> largest deviation seen while holding
        self.sites = collections.Counter()  # tracer: (function, return site) -> count
        self.case = None  # (index, spec) of the running case
        self.cases_run = 0
        self.solver_time_limit = 30  # seconds per solver call (a hang inside cvxopt is an instance-level inconclusive)
        self.harness_errors = []  # exceptions inside monitor code itself (=> run inconclusive, never a violation)
        self._solver_types = None
        self._sample_budget = collections.Counter()
        self.hist = None  # call-history monitor: list of [function, argument digest, result fingerprint, solver?] for the running case

    # ------------------------------------------------------------------ events
    def sig(self, signature, nontrivial=True):
        s = signature if isinstance(signature, str) else json.dumps(enc(signature), separators=(",", ":"))
        self.sigs[s] = self.sigs.get(s, False) or bool(nontrivial)

    def sample(self, monitor, what):
        if self._sample_budget[monitor] < 2 and len(self.samples) < 40:
            self._sample_budget[monitor] += 1
            self.samples.append({"monitor": monitor, "case": self.case[0] if self.case else None, "observed": enc(what)})

    def check(self, monitor, ok, *, sig=None, nt=True, dev=None, tol=None, mech=None, detail=None):
        """One oracle evaluation.  ``ok`` may be a bool, or None to decide ``dev <= tol``."""
        self.evals[monitor] += 1
        if sig is not None:
            self.sig((monitor, sig), nt)
        if ok is None:
            ok = bool(dev is not None and np.isfinite(dev) and dev <= tol)
        if ok:
            if dev is not None and np.isfinite(dev):
                self.maxdev[monitor] = max(self.maxdev[monitor], float(dev))
            if detail is not None:
                self.sample(monitor, detail)
            return True
        d = dict(detail or {})
        if dev is not None:
            d["deviation"] = float(dev) if np.isfinite(dev) else repr(dev)
            d["tolerance"] = tol
        self.fail(monitor, mech or (monitor + ":mismatch"), d, counted=True)
        return False

    def fail(self, monitor, mech, detail=None, counted=False):
        if not counted:
            self.evals[monitor] += 1
        key = mech
        entry = self.findings.lookup(self.prop, key)
        if entry is not None and entry["kind"] == "known":
            self.known[key] += 1
            self.known_what[key] = entry["what"]
            return
        v = {
            "property": self.prop,
            "monitor": monitor,
            "mechanism": key,
            "case": self.case[0] if self.case else None,
            "spec": enc(self.case[1]) if self.case else None,
            "tier": self.tier,
            "seed": self.seed,
            "detail": enc(detail),
        }
        if entry is not None and entry["kind"] == "fixed":
            v["regression_of"] = entry.get("commit")
        self.violations.append(v)

    def harness_error(self, where):
        if len(self.harness_errors) < 20:
            self.harness_errors.append({"case": self.case[0] if self.case else None, "where": where,
                                        "trace": traceback.format_exc()[-2000:]})

    def note_inconclusive(self, why):
        self.inconclusive[why] += 1
        if len(self.inconclusive_cases) < 50:
            self.inconclusive_cases.append([why, self.case[0] if self.case else None])

    # ------------------------------------------------------------------ calling the library
    def solver_types(self):
        if self._solver_types is None:
            self._solver_types = _solver_exc_types()
        return self._solver_types

    def call(self, fn, *args, monitor=None, solver=False, expect=(), mech_prefix=None, mech=None, freeze=None, history=True, **kwargs):
        """Call a library function inside the property's quantifier.

        * an exception listed in ``expect`` is returned (documented rejection);
        * with ``solver=True`` an instance-level solver failure returns FAILED (inconclusive instance);
        * anything else is a violation "no value produced", classified by exception type and the
          innermost toqito function that raised.
        """
        name = getattr(fn, "__qualname__", getattr(fn, "__name__", repr(fn)))
        monitor = monitor or ("call:" + name)
        frozen = freeze is not False and FREEZE != "0" and (FREEZE == "1" or getattr(self, "freeze_case", False))
        if frozen:
            # read-only copies of every array argument: a write into a caller's array raises instead of passing silently
            args = tuple(_freeze(a) for a in args)
            kwargs = {k: _freeze(v) for k, v in kwargs.items()}
            self.evals["hostile:read-only-arguments"] += 1
        elif freeze is not False and LAYOUT != "0" and (LAYOUT == "1" or getattr(self, "layout_case", False)):
            # the same values in another memory layout (Fortran order, or a strided view into a larger buffer): a function of the values must not notice
            self._layout_n = getattr(self, "_layout_n", 0) + 1
            args = tuple(_relayout(a, self._layout_n) for a in args)
            kwargs = {k: _relayout(v, self._layout_n) for k, v in kwargs.items()}
            self.evals["hostile:memory-layout"] += 1
        watch = freeze is not False and not frozen and ARGWATCH
        hist = self.hist if history else None
        if watch or hist is not None:
            from . import snap

            before = (snap.plain_digest(args), snap.plain_digest(kwargs))
        limit = self.solver_time_limit if solver else None
        remaining = 0
        t0 = time.monotonic()
        if limit:
            remaining = signal.alarm(0)  # pause the case watchdog, arm the per-solve one
            signal.alarm(int(limit))
        try:
            out = fn(*args, **kwargs)
            if watch:
                self.evals["hostile:arguments-digest"] += 1
                if (snap.plain_digest(args), snap.plain_digest(kwargs)) != before:
                    self.fail(monitor, f"{name}:modifies-caller-argument", {"args-after": enc(args), "kwargs-after": enc(kwargs)})
            if hist is not None:
                hist.append([name, before[0][:12] + before[1][:4], snap.fingerprint(out), bool(solver)])
            return out
        except CaseTimeout:
            if limit and time.monotonic() - t0 >= limit - 1:
                # the solver did not return within the per-solve budget: instance-level inconclusive
                self.solver_fail[name + ":timeout"] += 1
                if hist is not None:
                    hist.append([name, before[0][:12] + before[1][:4], ["x"], True])
                return FAILED
            raise
        except expect as exc:  # type: ignore[misc]
            if hist is not None:
                hist.append([name, before[0][:12] + before[1][:4], snap.fingerprint(exc), bool(solver)])
            return exc
        except Exception as exc:  # noqa: BLE001
            if hist is not None:
                hist.append([name, before[0][:12] + before[1][:4], ["x"], bool(solver)])  # no value: the rest of the case is not compared
            if solver and (isinstance(exc, self.solver_types()) or _raised_inside_numerical_solver(exc)):
                self.solver_fail[name + ":" + type(exc).__name__] += 1
                return FAILED
            site = raise_site(exc)
            key = mech or f"raise:{mech_prefix or name}:{type(exc).__name__}@{site}"
            if frozen and isinstance(exc, ValueError) and "read-only" in str(exc):
                key = f"{site}:writes-into-caller-array"
            self.fail(monitor, key, {"exception": repr(exc)[:300], "args": enc(args), "kwargs": enc(kwargs), "site": site,
                                      "trace": traceback.format_exc()[-1500:]})
            return FAILED
        finally:
            if limit:
                signal.alarm(0)
                if remaining:
                    signal.alarm(max(1, int(remaining - (time.monotonic() - t0))))


ARGWATCH = os.environ.get("VMON_ARGWATCH", "1") != "0"  # digest plain-data arguments before / after every library call
def fresh_result(ctx, monitor, fn, args, kwargs=None, sig=None):
    """History monitor for constructors: the object a call returns belongs to the caller.  Call, keep a copy, overwrite the returned array(s) in
    place, call again with the same arguments: the second result must equal the kept copy and must not share memory with the first."""
    kwargs = kwargs or {}
    first = ctx.call(fn, *args, **kwargs)
    if first is FAILED:
        return FAILED

    def arrays(obj):
        if isinstance(obj, np.ndarray) and obj.dtype != object:
            return [obj]
        if isinstance(obj, (list, tuple)):
            return [a_ for o_ in obj for a_ in arrays(o_)]
        return []

    firsts = arrays(first)
    if not firsts:
        return first
    kept = [a_.copy() for a_ in firsts]
    for a_ in firsts:
        if a_.flags.writeable:
            a_ *= 0
            a_ += 7
    second = ctx.call(fn, *args, **kwargs)
    for a_, k_ in zip(firsts, kept):  # give the caller's copy of the first result its values back
        if a_.flags.writeable:
            a_[...] = k_
    if second is FAILED:
        return first
    seconds = arrays(second)
    fname = getattr(fn, "__name__", "fn")
    same = len(seconds) == len(kept) and all(s_.shape == k_.shape and np.array_equal(s_, k_) for s_, k_ in zip(seconds, kept))
    shared = any(np.shares_memory(s_, f_) for s_ in seconds for f_ in firsts)
    ctx.check(monitor, same and not shared, sig=(fname, "fresh-result") + tuple(sig or ()), nt=True,
              mech=f"{fname}:returned-array-is-shared-with-later-calls", detail={"function": fname, "second_call_equals_first": bool(same), "shares_memory": bool(shared)})
    return first


FREEZE = os.environ.get("VMON_FREEZE", "")  # "1": every call, "0": never, default: the cases the runner selects (one in four)


LAYOUT = os.environ.get("VMON_LAYOUT", "")  # "1": every call, "0": never, default: the cases the runner selects (one in four)


def _relayout(obj, n=0):
    """The same values in another memory layout: Fortran order for matrices, a stride-2 view for vectors and (every other time) matrices."""
    if isinstance(obj, np.ndarray) and obj.dtype != object and obj.dtype.kind in "biufc" and obj.size > 1:
        if obj.ndim == 2 and min(obj.shape) > 1 and n % 2 == 0:
            return np.asfortranarray(obj)
        if obj.ndim in (1, 2):
            buf = np.zeros(tuple(2 * s_ for s_ in obj.shape), dtype=obj.dtype)
            view = buf[::2] if obj.ndim == 1 else buf[::2, ::2]
            view[...] = obj
            return view
        return obj
    if isinstance(obj, list):
        return [_relayout(v, n) for v in obj]
    if isinstance(obj, tuple):
        return tuple(_relayout(v, n) for v in obj)
    if isinstance(obj, dict):
        return {k: _relayout(v, n) for k, v in obj.items()}
    return obj


def _freeze(obj):
    """Read-only copies of every array argument (lists, tuples and dicts are rebuilt around them)."""
    if isinstance(obj, np.ndarray) and obj.dtype != object:
        out = obj.copy()
        out.setflags(write=False)
        return out
    if isinstance(obj, list):
        return [_freeze(v) for v in obj]
    if isinstance(obj, tuple):
        return tuple(_freeze(v) for v in obj)
    if isinstance(obj, dict):
        return {k: _freeze(v) for k, v in obj.items()}
    return obj


def repeat_call(ctx, monitor, fn, args, names, sig=None, equal=None):
    """History monitor for pure functions: call fn twice with the SAME argument objects.

    The caller's arguments must be bit-identical afterwards and the second result must equal the first (a function that
    edits e.g. an index array in place answers the second, identical-looking call differently)."""
    from . import snap

    before = [snap.digest(a) for a in args]
    first = ctx.call(fn, *args, freeze=False)
    if first is FAILED:
        return FAILED
    changed = [names[i] for i, a in enumerate(args) if snap.digest(a) != before[i]]
    fname = getattr(fn, "__name__", "fn")
    ctx.check(monitor, not changed, sig=(fname, "args-unchanged") + tuple(sig or ()), nt=True, mech=f"{fname}:modifies-caller-argument[{','.join(changed) or '-'}]",
              detail={"function": fname, "modified": changed})
    second = ctx.call(fn, *args, freeze=False)
    if second is FAILED:
        ctx.check(monitor, False, sig=(fname, "second-call") + tuple(sig or ()), nt=True, mech=f"{fname}:second-identical-call-fails", detail={"function": fname, "modified": changed})
        return first
    same = equal(first, second) if equal else (np.shape(first) == np.shape(second) and bool(np.array_equal(np.asarray(first), np.asarray(second))))
    ctx.check(monitor, same, sig=(fname, "second-call") + tuple(sig or ()), nt=True, mech=f"{fname}:second-identical-call-differs", detail={"function": fname, "modified": changed})
    return first


def _raised_inside_numerical_solver(exc):
    """True when the innermost frame of the traceback is inside cvxopt's numerical core (e.g. ValueError 'math domain error'
    from a square root in its step computation): an instance-level solver failure, not a property of the library under test."""
    tb = exc.__traceback__
    last = None
    while tb is not None:
        last = tb.tb_frame.f_code.co_filename
        tb = tb.tb_next
    return bool(last) and (os.sep + "cvxopt" + os.sep) in last


def raise_site(exc):
    """Innermost frame inside the tree under test: '<file stem>.<function>'."""
    tb = exc.__traceback__
    site = "?"
    while tb is not None:
        fn = tb.tb_frame.f_code.co_filename
        if os.path.realpath(fn).startswith(REPO + os.sep):
            site = os.path.splitext(os.path.basename(fn))[0] + "." + tb.tb_frame.f_code.co_name
        tb = tb.tb_next
    return site


def raise_line(exc):
    """Normalised source text of the innermost line inside the tree under test that raised."""
    import linecache

    tb = exc.__traceback__
    text = "?"
    while tb is not None:
        fn = tb.tb_frame.f_code.co_filename
        if os.path.realpath(fn).startswith(REPO + os.sep):
            text = " ".join(linecache.getline(fn, tb.tb_lineno).split())
        tb = tb.tb_next
    return text


@contextlib.contextmanager
def watchdog(seconds):
    """Generous wall-clock watchdog around one case; firing = inconclusive."""

    def handler(signum, frame):  # noqa: ARG001
        raise CaseTimeout()

    old = signal.signal(signal.SIGALRM, handler)
    signal.alarm(int(seconds))
    try:
        yield
    finally:
        signal.alarm(0)
        signal.signal(signal.SIGALRM, old)


def now():
    return time.monotonic()


def eprint(*a):
    print(*a, file=sys.stderr, flush=True)
