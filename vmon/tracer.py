"""sys.monitoring (3.12) return-site attribution on the code objects of anchored functions.

A return site is identified by the normalised source text of the line that executed the ``return``
plus its ordinal among identical lines of that function - not by line number - so a finding keyed on
a site survives unrelated edits and stops matching when the site itself is edited.
"""
from __future__ import annotations

import dis
import inspect
import sys

TOOL = sys.monitoring.PROFILER_ID if hasattr(sys, "monitoring") else None  # CPython >= 3.12 (the repository interpreter)
_state = {"installed": False, "codes": {}, "last": {}, "counts": None}


def _sites_of(fn):
    code = fn.__code__
    src_lines, first = inspect.getsourcelines(fn)
    off2line = {}
    for off, line in dis.findlinestarts(code):
        if line is not None:
            off2line[off] = line
    offs = sorted(off2line)
    text_of = {}
    seen = {}
    for i, raw in enumerate(src_lines):
        txt = " ".join(raw.split())
        if txt.startswith("return") or txt.startswith("raise"):
            n = seen.get(txt, 0)
            seen[txt] = n + 1
            text_of[first + i] = txt if n == 0 else f"{txt} #{n + 1}"
    return code, offs, off2line, text_of


def _line_for(offs, off2line, off):
    best = None
    for o in offs:
        if o <= off:
            best = off2line[o]
        else:
            break
    return best


def watch(functions, counts):
    """Record, for every return of the given functions, (function name, return site) in ``counts`` and in last[name]."""
    mon = sys.monitoring
    if not _state["installed"]:
        mon.use_tool_id(TOOL, "vmon")
        mon.register_callback(TOOL, mon.events.PY_RETURN, _on_return)
        _state["installed"] = True
    _state["counts"] = counts
    for fn in functions:
        fn = getattr(fn, "__vmon_orig__", fn)
        code, offs, off2line, text_of = _sites_of(fn)
        _state["codes"][code] = (fn.__name__, offs, off2line, text_of)
        mon.set_local_events(TOOL, code, mon.events.PY_RETURN)


def _on_return(code, offset, retval):
    info = _state["codes"].get(code)
    if info is None:
        return
    name, offs, off2line, text_of = info
    line = _line_for(offs, off2line, offset)
    site = text_of.get(line, f"line+{line - code.co_firstlineno}" if line else "?")
    _state["last"][name] = site
    if _state["counts"] is not None:
        _state["counts"][(name, site)] += 1


def last_site(name):
    return _state["last"].get(name)


def clear_last(name):
    _state["last"].pop(name, None)
