"""Contract conditions for the linear-algebra helpers and tolerance predicates of C16 that the rest of the library calls internally.

Attached (like the index contracts of C01-C03) to the real functions and re-bound into every loaded toqito module, they turn every
workload - the generated cases of C16 and, in the thorough tier, the repository's own tests - into a workload for these helpers:
each *internal* call (``to_density_matrix`` inside the SDP builders, ``is_positive_semidefinite`` inside ``is_density`` inside the
metrics, ``vec`` inside the channel conversions, ...) is one event, decided against the definition.

Predicates are decided only outside a band around the documented tolerance rule (numpy.allclose: |a - b| <= atol + rtol |b|), a
factor 4 inside / outside it, with the tolerances that were actually passed; calls inside the band are counted and not decided.
Symbolic operands (cvxpy / picos expressions, object arrays, sparse matrices) are counted as ``symbolic`` and not decided.
"""
from __future__ import annotations

import numpy as np

from . import attach, contracts
from .contracts import safe


def _ctx():
    return contracts.CTX


def _num(x):
    """A plain numeric ndarray view of ``x`` or None (symbolic / sparse / object operands are not decided)."""
    if isinstance(x, np.ndarray) and not isinstance(x, np.matrix):
        return x if x.dtype != object and x.dtype.kind in "biufc" else None
    return None


def _skip(name, why="symbolic"):
    _ctx().evals[f"contract:{name}:{why}"] += 1


def _rel(got, want):
    got = np.asarray(got)
    want = np.asarray(want)
    if got.shape != want.shape:
        return float("inf")
    if got.size == 0:
        return 0.0
    with np.errstate(all="ignore"):
        scale = float(np.abs(want).max())
        d = float(np.abs(got.astype(complex) - want.astype(complex)).max())
    if not np.isfinite(scale) or not np.isfinite(d):
        return 0.0 if np.array_equal(got, want, equal_nan=True) else float("inf")
    return d / (scale or 1.0)


# ------------------------------------------------------------------------------------------------ index / product helpers
@safe
def vec_is_column_stacking(mat, result):
    x = _num(mat)
    if x is None or x.ndim != 2:
        return _skip("vec")
    want = x.T.reshape(-1, 1)  # column-major stacking = row-major reading of the transpose
    res = _num(np.asarray(result))
    ok = res is not None and res.shape == want.shape and bool(np.array_equal(res, want, equal_nan=True)) and res.dtype == x.dtype
    _ctx().check("contract:vec", ok, sig=("vec", x.shape[0] == x.shape[1], x.dtype.kind), nt=min(x.shape) > 1, mech="vec:not-column-stacking",
                 detail=None if ok else {"mat": x, "got": result})


@safe
def unvec_is_column_unstacking(vector, shape, result):
    v = _num(np.asarray(vector)) if not isinstance(vector, (list, tuple)) or all(np.isscalar(t) for t in vector) else None
    if v is None:
        return _skip("unvec")
    if shape is None:
        d = int(round(np.sqrt(v.size)))
        if d * d != v.size:
            return _skip("unvec", "outside-model")
        shp = (d, d)
    else:
        shp = tuple(int(t) for t in shape)
        if len(shp) != 2 or shp[0] * shp[1] != v.size:
            return _skip("unvec", "outside-model")
    flat = v.reshape(-1)
    want = np.empty(shp, dtype=v.dtype)
    for j in range(shp[1]):
        want[:, j] = flat[j * shp[0]:(j + 1) * shp[0]]
    res = np.asarray(result)
    ok = res.shape == want.shape and bool(np.array_equal(res, want, equal_nan=True))
    _ctx().check("contract:unvec", ok, sig=("unvec", shp[0] == shp[1], shape is None, v.dtype.kind), nt=min(shp) > 1, mech="unvec:not-column-unstacking",
                 detail=None if ok else {"vector": v, "shape": shp, "got": result})


def _kron2(a, b):
    if a.ndim == 1 and b.ndim == 1:
        return (a[:, None] * b[None, :]).reshape(-1)
    a2 = a if a.ndim == 2 else a.reshape(1, -1)
    b2 = b if b.ndim == 2 else b.reshape(1, -1)
    return (a2[:, None, :, None] * b2[None, :, None, :]).reshape(a2.shape[0] * b2.shape[0], a2.shape[1] * b2.shape[1])


@safe
def tensor_is_kronecker(args, result):
    ops = None
    form = None
    if len(args) == 1 and isinstance(args[0], list):
        ops, form = list(args[0]), "list"
    elif len(args) == 1 and isinstance(args[0], np.ndarray) and args[0].dtype != object:
        ops, form = [args[0]], "single"
    elif len(args) == 2 and isinstance(args[1], int) and not isinstance(args[1], bool):
        if args[1] < 1:
            return _skip("tensor", "outside-model")
        ops, form = [args[0]] * args[1], "power"
    elif len(args) >= 2:
        ops, form = list(args), "args"
    if not ops or any(_num(o) is None or o.ndim not in (1, 2) for o in ops) or len({o.ndim for o in ops}) != 1:
        return _skip("tensor")
    if int(np.prod([float(o.size) for o in ops])) > 1 << 16:
        return _skip("tensor", "too-large")
    want = ops[0]
    for o in ops[1:]:
        want = _kron2(want, o)
    res = _num(np.asarray(result))
    dev = _rel(res, want) if res is not None else float("inf")
    _ctx().check("contract:tensor", None, dev=dev, tol=1e-12, sig=("tensor", form, min(len(ops), 4), ops[0].ndim), nt=len(ops) > 1,
                 mech=f"tensor:not-the-kronecker-product[{form}]", detail=None if dev <= 1e-12 else {"operands": ops, "got": result})


@safe
def to_density_matrix_is_outer_product(input_array, result):
    x = _num(input_array)
    if x is None or x.ndim not in (1, 2):
        return _skip("to_density_matrix")
    if x.ndim == 1 or 1 in x.shape:
        v = x.reshape(-1)
        want = v[:, None] * np.conj(v)[None, :]
        cls = "ket" if x.ndim == 1 else ("row" if x.shape[0] == 1 and x.shape[1] > 1 else "column")
    elif x.shape[0] == x.shape[1]:
        want, cls = x, "square"
    else:
        return _skip("to_density_matrix", "outside-model")
    dev = _rel(result, want)
    _ctx().check("contract:to_density_matrix", None, dev=dev, tol=1e-13, sig=("todm", cls, x.dtype.kind), nt=cls != "square" and x.size > 1,
                 mech=f"to_density_matrix:not-the-outer-product[{cls}]", detail=None if dev <= 1e-13 else {"input": x, "got": result})


@safe
def gram_is_inner_products(vectors, result):
    vs = [_num(np.asarray(v)) for v in vectors] if isinstance(vectors, (list, tuple, np.ndarray)) else None
    if not vs or any(v is None for v in vs) or any(v.ndim > 2 or (v.ndim == 2 and 1 not in v.shape) for v in vs):
        return _skip("vectors_to_gram_matrix")
    if len({v.shape for v in vs}) != 1:
        return _skip("vectors_to_gram_matrix", "outside-model")
    flat = [v.reshape(-1) for v in vs]
    n = len(flat)
    if vs[0].ndim == 2 and vs[0].shape[0] == 1 and vs[0].shape[1] > 1:
        return _skip("vectors_to_gram_matrix", "outside-model")  # row vectors are column_stack-ed into one long row: not the documented form
    want = np.array([[np.sum(np.conj(flat[i]) * flat[j]) for j in range(n)] for i in range(n)])
    dev = _rel(result, want)
    tol = 1e-12 * max(1, flat[0].size)
    _ctx().check("contract:vectors_to_gram_matrix", None, dev=dev, tol=tol, sig=("gram", min(n, 5), vs[0].ndim, any(v.dtype.kind == "c" for v in vs)),
                 nt=n > 1, mech="vectors_to_gram_matrix:not-the-inner-products", detail=None if dev <= tol else {"vectors": flat, "got": result})


@safe
def trace_norm_is_sum_of_singular_values(rho, result):
    x = _num(rho)
    if x is None or x.ndim != 2 or x.size == 0 or not np.all(np.isfinite(x)):
        return _skip("trace_norm")
    want = float(np.linalg.svd(x.astype(complex), compute_uv=False).sum())
    try:
        got = float(result)
    except (TypeError, ValueError):
        got = float("nan")
    dev = abs(got - want) / (want or 1.0) if np.isfinite(got) else float("inf")
    _ctx().check("contract:trace_norm", None, dev=dev, tol=1e-9, sig=("trnorm", x.shape[0] == x.shape[1], x.dtype.kind), nt=min(x.shape) > 1,
                 mech="trace_norm:not-the-sum-of-singular-values", detail=None if dev <= 1e-9 else {"rho": x, "got": got, "want": want})


# ------------------------------------------------------------------------------------------------ tolerance predicates (banded)
def _q(a, b, rtol, atol):
    """Defect of ``a == b`` relative to |a - b| <= atol + rtol |b| (worst entry); <= 1 inside the rule."""
    with np.errstate(all="ignore"):
        num = np.abs(a - b)
        den = atol + rtol * np.abs(b)
        q = np.where(den > 0, num / np.where(den > 0, den, 1), np.where(num > 0, np.inf, 0.0))
    return float(q.max()) if q.size else 0.0


def _tols(rtol, atol):
    try:
        rtol, atol = float(rtol), float(atol)
    except (TypeError, ValueError):
        return None
    if not (np.isfinite(rtol) and np.isfinite(atol)) or rtol < 0 or atol < 0 or rtol > 1e-2:
        return None
    return rtol, atol


def _banded(name, x, q, result, cls_extra=()):
    """Decide a predicate from its defect ``q`` (one number, or a list where every number must be inside): outside the band only."""
    qs = q if isinstance(q, (list, tuple)) else [q]
    if all(t <= 0.25 for t in qs):
        want = True
    elif any(t >= 4 for t in qs):
        want = False
    else:
        return _skip(name, "inside-tolerance-band")
    got = bool(result)
    _ctx().check("contract:" + name, got == want, sig=(name, want, min(x.shape[0], 6), x.dtype.kind, *cls_extra), nt=True,
                 mech=f"{name}:wrong-verdict-on-internal-call[{'positive' if want else 'negative'}]",
                 detail=None if got == want else {"mat": x, "want": want, "got": got, "defect_relative_to_tolerance": qs})


def _square_numeric(name, mat):
    x = _num(mat)
    if x is None or x.ndim != 2 or x.size == 0 or not np.all(np.isfinite(x)):
        _skip(name)
        return None
    return x


@safe
def is_hermitian_by_rule(mat, rtol, atol, result):
    x = _square_numeric("is_hermitian", mat)
    t = _tols(rtol, atol)
    if x is None or t is None:
        return None
    if x.shape[0] != x.shape[1]:
        return _ctx().check("contract:is_hermitian", bool(result) is False, sig=("is_hermitian", "non-square"), nt=True, mech="is_hermitian:accepts-non-square")
    return _banded("is_hermitian", x, _q(x, x.conj().T, *t), result)


@safe
def is_identity_by_rule(mat, rtol, atol, result):
    x = _square_numeric("is_identity", mat)
    t = _tols(rtol, atol)
    if x is None or t is None:
        return None
    if x.shape[0] != x.shape[1]:
        return _ctx().check("contract:is_identity", bool(result) is False, sig=("is_identity", "non-square"), nt=True, mech="is_identity:accepts-non-square")
    return _banded("is_identity", x, _q(x, np.eye(x.shape[0]), *t), result)


@safe
def is_unitary_by_rule(mat, rtol, atol, result):
    x = _square_numeric("is_unitary", mat)
    t = _tols(rtol, atol)
    if x is None or t is None:
        return None
    if x.shape[0] != x.shape[1]:
        return _ctx().check("contract:is_unitary", bool(result) is False, sig=("is_unitary", "non-square"), nt=True, mech="is_unitary:accepts-non-square")
    eye = np.eye(x.shape[0])
    xc = x.astype(complex)
    return _banded("is_unitary", x, [_q(xc.conj().T @ xc, eye, *t), _q(xc @ xc.conj().T, eye, *t)], result)


def _psd_verdict(x, rtol, atol):
    """True / False / None (inside a band) for the documented rule: Hermitian within (rtol, atol) and every eigenvalue >= -|atol|."""
    qh = _q(x, x.conj().T, rtol, atol)
    if qh >= 4:
        return False
    if qh > 0.25:
        return None
    herm = (x + x.conj().T) / 2
    lam = float(np.linalg.eigvalsh(herm).min())
    pert = float(np.abs(x - x.conj().T).max()) * x.shape[0]  # eigh reads one triangle: the asymmetry moves eigenvalues by at most this
    eps = 1e-9 * max(1.0, float(np.abs(x).max())) + 0.5 * abs(atol)
    if lam - pert >= -abs(atol) + eps:
        return True
    if lam + pert <= -abs(atol) - eps:
        return False
    return None


@safe
def is_psd_by_rule(mat, rtol, atol, result):
    x = _square_numeric("is_positive_semidefinite", mat)
    t = _tols(rtol, atol)
    if x is None or t is None:
        return None
    name = "is_positive_semidefinite"
    if x.shape[0] != x.shape[1]:
        return _ctx().check("contract:" + name, bool(result) is False, sig=(name, "non-square"), nt=True, mech=name + ":accepts-non-square")
    want = _psd_verdict(x.astype(complex) if x.dtype.kind != "c" else x, *t)
    if want is None:
        return _skip(name, "inside-tolerance-band")
    got = bool(result)
    _ctx().check("contract:" + name, got == want, sig=(name, want, min(x.shape[0], 6), x.dtype.kind), nt=True,
                 mech=f"{name}:wrong-verdict-on-internal-call[{'positive' if want else 'negative'}]",
                 detail=None if got == want else {"mat": x, "want": want, "got": got, "rtol": t[0], "atol": t[1]})


@safe
def is_density_by_rule(mat, result):
    x = _square_numeric("is_density", mat)
    if x is None:
        return None
    name = "is_density"
    if x.shape[0] != x.shape[1]:
        return _ctx().check("contract:" + name, bool(result) is False, sig=(name, "non-square"), nt=True, mech=name + ":accepts-non-square")
    psd = _psd_verdict(x.astype(complex), 1e-5, 1e-8)
    tr = complex(np.trace(x))
    qt = abs(tr - 1) / (1e-8 + 1e-5)
    if psd is False or qt >= 4:
        want = False
    elif psd is True and qt <= 0.25:
        want = True
    else:
        return _skip(name, "inside-tolerance-band")
    got = bool(result)
    _ctx().check("contract:" + name, got == want, sig=(name, want, min(x.shape[0], 6), x.dtype.kind), nt=True,
                 mech=f"{name}:wrong-verdict-on-internal-call[{'positive' if want else 'negative'}]",
                 detail=None if got == want else {"mat": x, "want": want, "got": got, "trace": tr})


TARGETS = {
    "vec": ("toqito.matrix_ops.vec", "vec", vec_is_column_stacking),
    "unvec": ("toqito.matrix_ops.unvec", "unvec", unvec_is_column_unstacking),
    "tensor": ("toqito.matrix_ops.tensor", "tensor", tensor_is_kronecker),
    "to_density_matrix": ("toqito.matrix_ops.to_density_matrix", "to_density_matrix", to_density_matrix_is_outer_product),
    "vectors_to_gram_matrix": ("toqito.matrix_ops.vectors_to_gram_matrix", "vectors_to_gram_matrix", gram_is_inner_products),
    "trace_norm": ("toqito.matrix_props.trace_norm", "trace_norm", trace_norm_is_sum_of_singular_values),
    "is_hermitian": ("toqito.matrix_props.is_hermitian", "is_hermitian", is_hermitian_by_rule),
    "is_identity": ("toqito.matrix_props.is_identity", "is_identity", is_identity_by_rule),
    "is_unitary": ("toqito.matrix_props.is_unitary", "is_unitary", is_unitary_by_rule),
    "is_positive_semidefinite": ("toqito.matrix_props.is_positive_semidefinite", "is_positive_semidefinite", is_psd_by_rule),
    "is_density": ("toqito.matrix_props.is_density", "is_density", is_density_by_rule),
}
HELPER_CONTRACTS = list(TARGETS)


def install(ctx, names=None):
    """Attach the helper contracts (own wrapper: every call, nested or not, is an event) and route observations to ``ctx``."""
    contracts.CTX = ctx
    bound = {}
    for name in names or HELPER_CONTRACTS:
        mod, fn, cond = TARGETS[name]
        bound[name] = attach.attach(mod, fn, cond, reentrant=True)
    rb = getattr(ctx, "contract_rebinds", None) or {}
    rb.update(bound)
    ctx.contract_rebinds = rb
    return bound
