"""Certificate checkers: explicit primal objects that attain a value and dual-feasible objects that bound it.

A solver (cvxpy, in the monitor's own process) is only used to *propose* certificates; every bound
reported here is re-evaluated with plain NumPy eigenvalue computations and is rigorous up to
floating point: an infeasible proposal is repaired by its measured infeasibility before use.
"""
from __future__ import annotations

import numpy as np

from . import ref


def xor_bias_certificate(d_mat):
    """Rigorous (lower, upper) bounds on max sum_xy D[x,y] <u_x, v_y> over unit vectors (Tsirelson optimum)."""
    import cvxpy

    d_mat = np.asarray(d_mat, dtype=float)
    nx, ny = d_mat.shape
    n = nx + ny
    # primal proposal
    g = cvxpy.Variable((n, n), PSD=True)
    prob = cvxpy.Problem(cvxpy.Maximize(cvxpy.sum(cvxpy.multiply(d_mat, g[:nx, nx:]))), [cvxpy.diag(g) == 1])
    prob.solve()
    gv = ref.herm(np.asarray(g.value, dtype=float)).real
    w, vecs = np.linalg.eigh(gv)
    w = np.clip(w, 0, None)
    rows = vecs * np.sqrt(w)  # row i = vector i
    norms = np.linalg.norm(rows, axis=1)
    norms[norms == 0] = 1
    rows = rows / norms[:, None]
    lower = float(sum(d_mat[x, y] * (rows[x] @ rows[nx + y]) for x in range(nx) for y in range(ny)))
    # dual proposal: bias <= (sum u + sum v)/2 whenever [[Diag u, -D], [-D^T, Diag v]] >= 0
    u = cvxpy.Variable(nx)
    v = cvxpy.Variable(ny)
    dual = cvxpy.Problem(cvxpy.Minimize(cvxpy.sum(u) + cvxpy.sum(v)),
                         [cvxpy.bmat([[cvxpy.diag(u), -d_mat], [-d_mat.T, cvxpy.diag(v)]]) >> 0])
    dual.solve()
    uv, vv = np.asarray(u.value, dtype=float).reshape(-1), np.asarray(v.value, dtype=float).reshape(-1)
    block = np.block([[np.diag(uv), -d_mat], [-d_mat.T, np.diag(vv)]])
    shift = max(0.0, -float(np.linalg.eigvalsh(block).min()))
    upper = float((uv.sum() + vv.sum() + n * shift) / 2)
    return lower, upper


def tsirelson_2x2(j):
    """max over unit vectors of sum_xy J[x,y] <u_x, v_y> for a 2x2 coefficient matrix, by 1-D concave maximisation."""
    j = np.asarray(j, dtype=float)

    def f(c):
        return sum(np.sqrt(max(0.0, j[0, y] ** 2 + j[1, y] ** 2 + 2 * j[0, y] * j[1, y] * c)) for y in range(2))

    lo, hi = -1.0, 1.0
    for _ in range(200):
        m1, m2 = lo + (hi - lo) / 3, hi - (hi - lo) / 3
        if f(m1) < f(m2):
            lo = m1
        else:
            hi = m2
    return float(max(f(lo), f(hi), f(-1.0), f(1.0)))


def min_error_certificate(states, probs, povm):
    """Given density operators, priors and a proposed POVM: (attained value, rigorous upper bound on every measurement).

    attained = sum p_i Tr(rho_i M_i).  Y = sum p_i rho_i M_i (Hermitised) is shifted by its measured
    infeasibility so that Y >= p_i rho_i for all i; then Tr Y bounds the success probability of every POVM.
    """
    d = states[0].shape[0]
    attained = float(sum(p * np.trace(r @ m).real for p, r, m in zip(probs, states, povm)))
    y = sum(p * r @ m for p, r, m in zip(probs, states, povm))
    y = ref.herm(y)
    shift = 0.0
    for p, r in zip(probs, states):
        shift = max(shift, -ref.eigmin(y - p * r))
    upper = float(np.trace(y).real + d * shift)
    return attained, upper


def exclusion_certificate(states, probs, povm):
    """(attained value, rigorous lower bound) for minimum-error state exclusion."""
    d = states[0].shape[0]
    attained = float(sum(p * np.trace(r @ m).real for p, r, m in zip(probs, states, povm)))
    y = ref.herm(sum(p * r @ m for p, r, m in zip(probs, states, povm)))
    shift = 0.0
    for p, r in zip(probs, states):
        shift = max(shift, -ref.eigmin(p * r - y))  # need p_i rho_i - Y >= 0
    lower = float(np.trace(y).real - d * shift)
    return attained, lower


def povm_defect(povm, d=None):
    """(largest negative eigenvalue magnitude, ||sum M - I||_max) of a proposed POVM."""
    ms = [np.asarray(m, dtype=complex) for m in povm]
    d = d or ms[0].shape[0]
    neg = max(0.0, max(-ref.eigmin(m) for m in ms))
    herm_dev = max(float(np.abs(m - m.conj().T).max()) for m in ms)
    comp = float(np.abs(sum(ms) - np.eye(d)).max())
    return neg, comp, herm_dev


def bell_222_max(j, a, b, av, bv, grid=90):
    """Quantum maximum of a Bell functional with two dichotomic settings per party, by Jordan's lemma.

    Two projective two-outcome measurements block-diagonalise into 1- and 2-dimensional blocks, so the maximum of
    sum J_xy <A_x B_y> + sum a_x <A_x> + sum b_y <B_y> (outcome values av, bv) is attained on a pair of blocks:
    deterministic x deterministic, deterministic x qubit, qubit x deterministic or qubit x qubit with real rank-one
    projective measurements A_0 = Z-direction, A_1 at angle theta (same for Bob).  The 2-D angle search is a dense grid
    followed by local refinement; the result is a rigorous lower bound and, up to the refinement accuracy, the optimum.
    """
    import itertools

    from scipy.optimize import minimize

    j = np.asarray(j, dtype=float)
    a = np.asarray(a, dtype=float).reshape(-1)
    b = np.asarray(b, dtype=float).reshape(-1)
    z = np.array([[1.0, 0], [0, -1.0]])
    x = np.array([[0, 1.0], [1.0, 0]])
    eye = np.eye(2)

    def obs(vals, th):
        return (vals[0] + vals[1]) / 2 * eye + (vals[0] - vals[1]) / 2 * (np.cos(th) * z + np.sin(th) * x)

    best = -np.inf
    # deterministic x deterministic
    for xs in itertools.product(av, repeat=2):
        for ys in itertools.product(bv, repeat=2):
            best = max(best, sum(j[p, q] * xs[p] * ys[q] for p in range(2) for q in range(2)) + a @ np.array(xs) + b @ np.array(ys))
    # deterministic x qubit and qubit x deterministic
    ths = np.linspace(0, 2 * np.pi, 4 * grid, endpoint=False)
    for xs in itertools.product(av, repeat=2):
        coef = [sum(j[p, q] * xs[p] for p in range(2)) + b[q] for q in range(2)]
        for th in ths:
            best = max(best, float(np.linalg.eigvalsh(coef[0] * obs(bv, 0) + coef[1] * obs(bv, th)).max()) + a @ np.array(xs))
    for ys in itertools.product(bv, repeat=2):
        coef = [sum(j[p, q] * ys[q] for q in range(2)) + a[p] for p in range(2)]
        for th in ths:
            best = max(best, float(np.linalg.eigvalsh(coef[0] * obs(av, 0) + coef[1] * obs(av, th)).max()) + b @ np.array(ys))

    # qubit x qubit
    def bell_op(th, ph):
        aa = [obs(av, 0), obs(av, th)]
        bb = [obs(bv, 0), obs(bv, ph)]
        op = sum(j[p, q] * np.kron(aa[p], bb[q]) for p in range(2) for q in range(2))
        return op + sum(a[p] * np.kron(aa[p], eye) for p in range(2)) + sum(b[q] * np.kron(eye, bb[q]) for q in range(2))

    g = np.linspace(0, 2 * np.pi, grid, endpoint=False)
    ops = np.array([[bell_op(t, p) for p in g] for t in g])
    vals = np.linalg.eigvalsh(ops)[..., -1]
    order = np.dstack(np.unravel_index(np.argsort(vals, axis=None)[::-1][:6], vals.shape))[0]
    for it, ip in order:
        res = minimize(lambda v: -np.linalg.eigvalsh(bell_op(v[0], v[1]))[-1], [g[it], g[ip]], method="Nelder-Mead", options={"xatol": 1e-9, "fatol": 1e-12})
        best = max(best, -float(res.fun))
    return float(max(best, vals.max()))


def schmidt_number_upper_bound(x, da, db, k):
    """Rigorous upper bound on max Tr(X rho) over states rho of Schmidt number <= k (X Hermitian on C^da (x) C^db), hence on <v|X|v> for every unit
    vector v of Schmidt rank <= k.

    A state of Schmidt number <= k satisfies k (rho_A (x) 1) - rho >= 0 and k (1 (x) rho_B) - rho >= 0 (the map Y -> k Tr(Y) 1 - Y is k-positive), and for
    k = 1 its partial transpose is positive.  A solver proposes multipliers for these conditions; the bound returned is the largest eigenvalue of
    X + sum_i C_i^*(Z_i) for the positive parts Z_i of the proposed multipliers, computed with numpy - valid for ANY positive Z_i, so the solver's accuracy
    and its scaling conventions for complex cone constraints (the multipliers are tried at scales 1/2, 1, 2) affect only how tight the bound is.
    Returns (solver value, certified bound)."""
    import itertools

    import cvxpy as cp

    n = da * db
    x = ref.herm(np.asarray(x, dtype=complex))
    eye_a, eye_b = np.eye(da), np.eye(db)
    e_b = [np.kron(eye_a, eye_b[j:j + 1, :]) for j in range(db)]  # (da x n): <j| on the second factor
    e_a = [np.kron(eye_a[i:i + 1, :], eye_b) for i in range(da)]  # (db x n): <i| on the first factor
    rho = cp.Variable((n, n), hermitian=True)
    ra = sum(m @ rho @ m.T for m in e_b)
    rb = sum(m @ rho @ m.T for m in e_a)
    c_a = k * cp.kron(ra, eye_b) - rho >> 0
    c_b = k * cp.kron(eye_a, rb) - rho >> 0
    cons = [rho >> 0, cp.real(cp.trace(rho)) == 1, c_a, c_b]
    c_p = None
    if k == 1:
        units = [np.kron(eye_a, np.outer(eye_b[i], eye_b[j])) for i in range(db) for j in range(db)]
        c_p = sum(u @ rho @ u for u in units) >> 0  # partial transpose on the second factor
        cons.append(c_p)
    prob = cp.Problem(cp.Maximize(cp.real(cp.trace(x @ rho))), cons)
    val = prob.solve()
    if prob.status not in ("optimal", "optimal_inaccurate") or val is None or not np.isfinite(val):
        return None, None

    def psd(z):
        z = ref.herm(np.asarray(z, dtype=complex))
        w, v = np.linalg.eigh(z)
        return (v * np.clip(w, 0, None)) @ v.conj().T

    def tr_b(z):
        return np.einsum("ijkj->ik", z.reshape(da, db, da, db))

    def tr_a(z):
        return np.einsum("ijil->jl", z.reshape(da, db, da, db))

    def pt_b(z):
        return z.reshape(da, db, da, db).transpose(0, 3, 2, 1).reshape(n, n)

    duals = [psd(c.dual_value) for c in ([c_a, c_b] + ([c_p] if c_p is not None else []))]
    best = float(np.linalg.eigvalsh(x).max())  # Z_i = 0: the operator norm bound
    for scales in itertools.product((0.5, 1.0, 2.0), repeat=len(duals)):
        wa, wb = scales[0] * duals[0], scales[1] * duals[1]
        m = x + k * np.kron(tr_b(wa), eye_b) - wa + k * np.kron(eye_a, tr_a(wb)) - wb
        if c_p is not None:
            m = m + pt_b(scales[2] * duals[2])
        best = min(best, float(np.linalg.eigvalsh(ref.herm(m)).max()))
    return float(val), best
