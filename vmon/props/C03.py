"""C03 - partial transpose and realignment exchange exactly the stated indices."""
from __future__ import annotations

import itertools

import numpy as np

from .. import contracts, gen, ref
from ..core import FAILED

DECIDING = ["O1:tiny-entries", "contract:partial_transpose", "O2:involution", "O2:all=transpose", "O2:complement", "contract:realignment",
            "O3:realign-product", "O3:frobenius", "O4:cvxpy-value", "H1:repeat-call", "O1:many-subsystems", "O1:single-number-dim"]
RULE = ("cases = square (dims 1..4, n<=5) and rectangular (dims 2..4, n<=3) operators x every subset S as list/array/int x dtype, "
        "unique-id entries; realignment on square and rectangular bipartite blocks with every dim calling form; a signature is "
        "(monitor, n, |S|, rectangular?) and is non-trivial when the result differs from the input; plus 9..13 subsystems, repeat calls with the same "
        "ndarray sys / dim objects, one cvxpy Variable transposed under several factorisations and after a new value")
CASE_TIMEOUT = {"quick": 240, "thorough": 3000}
THOROUGH_REPEAT = 4  # the thorough tier runs its randomised case kinds this many times (new inputs each time)
ASSUMPTIONS = [
    "reference model = swap of tensor axes s <-> n+s on the (row dims + col dims) tensor, exact comparison",
    "rectangular inputs only with every local dimension >= 2 (the property's quantifier)",
    "cvxpy: Variable operands only",
]


def cases(tier):
    out = []
    reps = 1 if tier == "quick" else 120
    for n in (1, 2, 3, 4):
        for k in range(1, n + 1):
            for comb in itertools.combinations(range(n), k):
                for r in range(reps):
                    out.append(("sq", n, comb, r))
                    if 2 <= n <= 4:
                        out.append(("rect", n, comb, r))
    for r in range(40 if tier == "quick" else 16000):
        out.append(("sq", 5, None, r))
    for r in range(24 if tier == "quick" else 6000):
        out.append(("rect", 5 if r % 3 else 6, None, r))  # rectangular operators on five and six subsystems, random subsets
    for r in range(60 if tier == "quick" else 16000):
        out.append(("realign", r))
    for r in range(40 if tier == "quick" else 4000):
        out.append(("cvx", r))
    for r in range(40 if tier == "quick" else 3000):
        out.append(("repeat", r))
    for r in range(48 if tier == "quick" else 4000):
        out.append(("many", r))
    for r in range(48 if tier == "quick" else 6000):
        out.append(("tiny", r))
    if tier == "thorough":
        out.append(("suite", 0))
    return out


def setup(ctx):
    contracts.install(ctx)


def run(ctx, spec, rng):
    globals()["_run_" + spec[0]](ctx, spec, rng)


def _sysarg(rng, s):
    r = rng.random()
    if len(s) == 1 and r < 0.4:
        return s[0]
    if r < 0.7:
        return list(s)
    return np.array(s)


def _common(ctx, rng, x, s, dr, dc, dimarg, n):
    from toqito.channels import partial_transpose

    rect = dr != dc
    # Every call gets its own copy of dim (the in-place flip of a caller's 2-row ndarray, repaired in the repository, is
    # what the repeat-call monitor watches; here it must not couple the oracles to each other).
    fresh = (lambda: dimarg.copy()) if isinstance(dimarg, np.ndarray) else (lambda: [list(r) if isinstance(r, list) else r for r in dimarg])
    res = ctx.call(partial_transpose, x, _sysarg(rng, s), fresh())  # O1 by the contract
    if res is FAILED:
        return
    ctx.sample("contract:partial_transpose", {"dr": dr, "dc": dc, "sys": s, "dtype": str(x.dtype), "out_shape": np.shape(res)})
    ndr = [dc[i] if i in s else dr[i] for i in range(n)]
    ndc = [dr[i] if i in s else dc[i] for i in range(n)]
    back = ctx.call(partial_transpose, np.asarray(res), list(s), [ndr, ndc] if rect else list(dr))
    if back is not FAILED:
        ctx.check("O2:involution", np.shape(back) == x.shape and np.array_equal(back, x), sig=(n, len(s), rect), mech="partial_transpose:involution",
                  detail={"dr": dr, "dc": dc, "s": s})
    full = ctx.call(partial_transpose, x, list(range(n)), fresh())
    if full is not FAILED:
        ctx.check("O2:all=transpose", np.array_equal(full, x.T), sig=(n, rect), mech="partial_transpose:all-systems", detail={"dr": dr, "dc": dc})
    comp = [i for i in range(n) if i not in s]
    if comp and not rect:
        other = ctx.call(partial_transpose, x, comp, fresh())
        if other is not FAILED:
            ctx.check("O2:complement", np.array_equal(np.asarray(res), np.asarray(other).T), sig=(n, len(s)), mech="partial_transpose:complement",
                      detail={"d": dr, "s": s})


def _run_many(ctx, spec, rng):
    """Nine to thirteen subsystems, small total size."""
    from toqito.channels import partial_transpose

    d = gen.many_dims(rng, cap=256 if ctx.tier == "quick" else 1024)
    n = len(d)
    big = int(np.prod(d))
    k = int(rng.integers(1, n))
    s = list(range(k)) if rng.random() < 0.4 else [int(v) for v in rng.permutation(n)[:k]]
    x = gen.unique_ids((big, big), "ifc"[int(rng.integers(0, 3))])
    res = ctx.call(partial_transpose, x, list(s) if rng.random() < 0.5 else np.array(s), list(d) if rng.random() < 0.5 else np.array(d))
    if res is FAILED:
        return
    want = ref.partial_transpose(x, s, d, d)
    moved = sum(1 for i in s if d[i] > 1)
    ctx.check("O1:many-subsystems", np.shape(res) == want.shape and np.array_equal(res, want), sig=(n, len(s), moved > 0), nt=moved > 0,
              mech="partial_transpose:many-subsystems", detail={"d": d, "s": s})
    ctx.sample("O1:many-subsystems", {"dims": d, "sys": s})


def _single_number_dim(ctx, rng):
    """dim given as one number d (one-element list / array, float): it means [d, N/d]."""
    from toqito.channels import partial_transpose

    d1, d2 = int(rng.integers(1, 5)), int(rng.integers(1, 5))
    if d1 * d2 < 2:
        d2 = 2
    x = gen.unique_ids((d1 * d2, d1 * d2), "ifc"[int(rng.integers(0, 3))])
    dim = [[d1], np.array([d1]), float(d1)][int(rng.integers(0, 3))]
    s = [[0], [1], 0, 1, [0, 1]][int(rng.integers(0, 5))]
    res = ctx.call(partial_transpose, x, s, dim)
    if res is FAILED:
        return
    want = ref.partial_transpose(x, [s] if isinstance(s, int) else s, [d1, d2], [d1, d2])
    ctx.check("O1:single-number-dim", np.shape(res) == want.shape and np.array_equal(res, want), sig=(d1 == d2, type(dim).__name__, str(s)), nt=d1 != d2,
              mech="partial_transpose:single-number-dim", detail={"d1": d1, "d2": d2, "dim": dim, "sys": s})


def _run_sq(ctx, spec, rng):
    n = spec[1]
    if n == 2:
        _single_number_dim(ctx, rng)
    for _ in range(3):
        d = gen.dims(rng, n, 1, 4 if n <= 4 else 3, max_total=144 if ctx.tier == "quick" else 256)
        big = int(np.prod(d))
        s = list(spec[2]) if spec[2] is not None else sorted(int(v) for v in rng.permutation(n)[:int(rng.integers(1, n + 1))])
        if rng.random() < 0.3:
            s = [int(v) for v in rng.permutation(s)]
        x = gen.layout(gen.unique_ids((big, big), "ifcb"[int(rng.integers(0, 4))]), ["C", "F", "ro", "strided"][int(rng.integers(0, 4))])
        dimarg = list(d) if rng.random() < 0.6 else np.array(d)
        _common(ctx, rng, x, s, d, d, dimarg, n)


def _run_rect(ctx, spec, rng):
    n = spec[1]
    for _ in range(3):
        cap = 64 if n <= 3 else (144 if n == 4 else 288)
        dr = gen.dims(rng, n, 2, 4 if n <= 4 else 3, max_total=cap)
        dc = gen.dims(rng, n, 2, 4 if n <= 4 else 3, max_total=cap)
        s = list(spec[2]) if spec[2] is not None else sorted(int(v) for v in rng.permutation(n)[:int(rng.integers(1, n + 1))])
        if spec[2] is None and rng.random() < 0.3:
            s = [int(v) for v in rng.permutation(s)]
        x = gen.unique_ids((int(np.prod(dr)), int(np.prod(dc))), "ifc"[int(rng.integers(0, 3))])
        dimarg = [list(dr), list(dc)] if rng.random() < 0.6 else np.array([dr, dc])
        _common(ctx, rng, x, s, dr, dc, dimarg, n)


def _run_tiny(ctx, spec, rng):
    """Entries of absolute size 1e-9 .. 1e-13 (overall, or everywhere off the diagonal): exchanging indices moves them like any other entry."""
    from toqito.channels import partial_transpose, realignment

    from .C01 import tiny_operand

    r = spec[1]
    n = 2 + r % 2
    d = gen.dims(rng, n, 1 if r % 5 else 2, 3, max_total=36)
    big = int(np.prod(d))
    cls, x = tiny_operand(rng, big, big, r)
    subs = [list(c) for k in range(1, n + 1) for c in itertools.combinations(range(n), k)]
    s = subs[int(rng.integers(0, len(subs)))]
    res = ctx.call(partial_transpose, x.copy(), list(s), list(d))
    if res is not FAILED:
        want = ref.partial_transpose(x, s, d, d)
        ctx.check("O1:tiny-entries", np.shape(res) == want.shape and np.array_equal(res, want), sig=("pt", cls, n, len(s), x.dtype.kind), nt=True,
                  mech=f"partial_transpose:tiny-entries-not-moved[{cls}]", detail={"d": d, "sys": s, "x": x, "got": res})
    if n == 2 and min(d) >= 2:
        a, b = d
        res = ctx.call(realignment, x.copy(), [a, b])
        if res is not FAILED:
            want = x.reshape(a, b, a, b).transpose(0, 2, 1, 3).reshape(a * a, b * b)
            ctx.check("O1:tiny-entries", np.shape(res) == want.shape and np.array_equal(res, want), sig=("realign", cls, x.dtype.kind), nt=True,
                      mech=f"realignment:tiny-entries-not-moved[{cls}]", detail={"d": d, "x": x, "got": res})
    ctx.sample("O1:tiny-entries", {"class": cls, "dims": d, "sys": s})


def _run_realign(ctx, spec, rng):
    from toqito.channels import realignment

    a, b, c, d = (int(v) for v in rng.integers(2, 5, size=4))
    square = rng.random() < 0.4
    if square:
        c, d = a, b
    x = gen.unique_ids((a * b, c * d), "ifc"[int(rng.integers(0, 3))])
    forms = [[[a, b], [c, d]], np.array([[a, b], [c, d]])]
    if square:
        forms += [[a, b], np.array([a, b]), a]
        if a == b:
            forms.append(None)
    for dim in forms:
        res = ctx.call(realignment, x, dim)  # contract decides the index map
        if res is FAILED:
            continue
        ctx.check("O3:realign-shape", np.shape(res) == (a * c, b * d), mech="realignment:shape", detail={"dims": [a, b, c, d], "shape": np.shape(res)})
        dev = abs(np.linalg.norm(np.asarray(res, dtype=complex)) - np.linalg.norm(x.astype(complex)))
        ctx.check("O3:frobenius", None, dev=dev / (1 + np.linalg.norm(x.astype(complex))), tol=1e-12, sig=(square,), mech="realignment:frobenius",
                  detail={"dims": [a, b, c, d]})
    fa = rng.integers(-4, 5, size=(a, c)) + 1j * rng.integers(-4, 5, size=(a, c))
    fb = rng.integers(-4, 5, size=(b, d)) + 1j * rng.integers(-4, 5, size=(b, d))
    res = ctx.call(realignment, np.kron(fa, fb), [[a, b], [c, d]])
    if res is not FAILED:
        want = np.outer(fa.reshape(-1), fb.reshape(-1))
        ctx.check("O3:realign-product", np.shape(res) == want.shape and np.array_equal(res, want), sig=(square, (a, b, c, d)), mech="realignment:product-form",
                  detail={"dims": [a, b, c, d]})
        ctx.sample("O3:realign-product", {"dims": [a, b, c, d]})


def _run_cvx_rect(ctx, spec, rng):
    """Rectangular cvxpy Variable (local dimensions >= 2, as for numeric rectangular inputs)."""
    import cvxpy

    from toqito.channels import partial_transpose

    n = 2 if (spec[1] // 8) % 3 else 3
    dr = gen.dims(rng, n, 2, 3, max_total=18)
    dc = gen.dims(rng, n, 2, 3, max_total=18)
    if dr == dc:
        dc = list(dc)
        dc[0] = 5 - dc[0]
    rows, cols = int(np.prod(dr)), int(np.prod(dc))
    s = sorted(int(v) for v in rng.permutation(n)[:int(rng.integers(1, n + 1))])
    cplx = bool((spec[1] // 4) % 2)
    var = cvxpy.Variable((rows, cols), complex=cplx)
    val = gen.rc(rng, rows, cols) if cplx else rng.normal(size=(rows, cols))
    var.value = val
    dimarg = [list(dr), list(dc)] if rng.random() < 0.6 else np.array([dr, dc])
    expr = ctx.call(partial_transpose, var, _sysarg(rng, s), dimarg)
    if expr is FAILED:
        return
    want = ref.partial_transpose(val, s, dr, dc)
    got = expr.value
    ok_shape = tuple(expr.shape) == want.shape
    dev = float(np.abs(np.asarray(got) - want).max()) if ok_shape and got is not None else float("inf")
    ctx.check("O4:cvxpy-value", None, dev=dev, tol=1e-12, sig=("rectangular", cplx, n, len(s), rows > cols), mech="partial_transpose:cvxpy-value[rectangular]",
              detail={"dr": dr, "dc": dc, "s": s, "shape": list(expr.shape), "want_shape": list(want.shape)})


def _run_cvx(ctx, spec, rng):
    import cvxpy

    from toqito.channels import partial_transpose

    if spec[1] % 4 == 3:
        return _run_cvx_rect(ctx, spec, rng)
    n = int(rng.integers(2, 4))
    d = gen.dims(rng, n, 1, 3, max_total=27)
    big = int(np.prod(d))
    s = sorted(int(v) for v in rng.permutation(n)[:int(rng.integers(1, n + 1))])
    kind = ["plain", "complex", "symmetric", "hermitian", "PSD"][spec[1] % 5]
    if kind == "plain":
        var, val = cvxpy.Variable((big, big)), rng.normal(size=(big, big))
    elif kind == "complex":
        var, val = cvxpy.Variable((big, big), complex=True), gen.rc(rng, big, big)
    elif kind == "symmetric":
        g = rng.normal(size=(big, big))
        var, val = cvxpy.Variable((big, big), symmetric=True), g + g.T
    elif kind == "hermitian":
        var, val = cvxpy.Variable((big, big), hermitian=True), gen.hermitian(rng, big)
    else:
        var, val = cvxpy.Variable((big, big), PSD=True), gen.psd(rng, big, cplx=False)
    var.value = val
    expr = ctx.call(partial_transpose, var, _sysarg(rng, s), list(d))
    if expr is FAILED:
        return
    want = ref.partial_transpose(val, s, d, d)
    got = expr.value
    ok_shape = tuple(expr.shape) == want.shape
    dev = float(np.abs(np.asarray(got) - want).max()) if ok_shape and got is not None else float("inf")
    ctx.check("O4:cvxpy-value", None, dev=dev, tol=1e-12, sig=(kind, n, len(s)), mech="partial_transpose:cvxpy-value", detail={"kind": kind, "d": d, "s": s})
    ctx.check("O4:cvxpy-affine", bool(expr.is_affine()), sig=(kind,), mech="partial_transpose:cvxpy-not-affine", detail={"kind": kind})
    # history: the SAME Variable object transposed again on the same subsystems under other factorisations of its size, and with a new value
    alts = [f for f in gen.factorisations(big, n) if list(f) != list(d)]
    for d2 in alts[:3]:
        if any(i >= len(d2) for i in s):
            continue
        e2 = ctx.call(partial_transpose, var, list(s), list(d2))
        if e2 is FAILED:
            continue
        w2 = ref.partial_transpose(val, s, d2, d2)
        g2 = e2.value
        dev2 = float(np.abs(np.asarray(g2) - w2).max()) if tuple(e2.shape) == w2.shape and g2 is not None else float("inf")
        ctx.check("O4:cvxpy-value", None, dev=dev2, tol=1e-12, sig=(kind, "same-variable-other-dims", len(d2)), mech="partial_transpose:cvxpy-value[same-variable-other-dims]",
                  detail={"kind": kind, "first_dims": d, "dims": list(d2), "s": s})
    if kind in ("plain", "complex"):
        val2 = val[::-1, ::-1].copy() * 2
        var.value = val2
        e3 = ctx.call(partial_transpose, var, list(s), list(d))
        if e3 is not FAILED:
            w3 = ref.partial_transpose(val2, s, d, d)
            dev3 = float(np.abs(np.asarray(e3.value) - w3).max()) if tuple(e3.shape) == w3.shape and e3.value is not None else float("inf")
            ctx.check("O4:cvxpy-value", None, dev=dev3, tol=1e-12, sig=(kind, "same-variable-new-value"), mech="partial_transpose:cvxpy-value[same-variable-new-value]",
                      detail={"kind": kind, "d": d, "s": s})


def _run_suite(ctx, spec, rng):
    """Thorough tier: the repository's own tests executed with this property's contracts attached (internal calls observed)."""
    from ..suiterun import run_suite_under_contract

    run_suite_under_contract(ctx, ['partial_transpose', 'realignment', 'permute_systems', 'swap'], "suite-under-contract")


def _run_repeat(ctx, spec, rng):
    """History monitor: the same argument objects (sys / dim given as ndarrays) used for two consecutive calls."""
    from toqito.channels import partial_transpose, realignment

    from ..core import repeat_call

    n = int(rng.integers(2, 4))
    rect = bool(spec[1] % 2)
    dr = gen.dims(rng, n, 2, 3, max_total=36)
    dc = gen.dims(rng, n, 2, 3, max_total=36) if rect else list(dr)
    x = gen.unique_ids((int(np.prod(dr)), int(np.prod(dc))), "i")
    s = sorted(int(v) for v in rng.permutation(n)[:int(rng.integers(1, n + 1))])
    dim_arr = np.array([dr, dc]) if rect or spec[1] % 3 == 0 else np.array(dr)
    sys_arr = np.array(s)
    mech_note = "2-row-ndarray-dim" if dim_arr.ndim == 2 else "1-D-ndarray-dim"
    res = repeat_call(ctx, "H1:repeat-call", partial_transpose, [x, sys_arr, dim_arr], ["rho", "sys", "dim"], sig=(n, rect, mech_note))
    if res is not FAILED:
        ctx.check("O2:involution", np.array_equal(res, ref.partial_transpose(x, s, dr, dc)), sig=("repeat", n, rect), mech="partial_transpose:index-exchange[ndarray-args]", detail={"dr": dr, "dc": dc, "s": s})
    a, b, c, e = (int(v) for v in rng.integers(2, 4, size=4))
    y = gen.unique_ids((a * b, c * e), "f")
    repeat_call(ctx, "H1:repeat-call", realignment, [y, np.array([[a, b], [c, e]])], ["input_mat", "dim"], sig=("realignment",))
    ctx.sample("H1:repeat-call", {"dr": dr, "dc": dc, "sys": s})
