"""C07 - nonlocal game: classical value is exact, all values are ordered, the game object is immutable."""
from __future__ import annotations

import itertools

import numpy as np

from .. import gen, ref, snap
from ..core import FAILED

DECIDING = ["O1:classical=bruteforce", "O2:cl<=NPA", "O2:qlb<=NPA", "O2:NPA-monotone", "O2:NPA<=NS", "O2:NS<=1", "O2:explicit-strategy<=NPA",
            "O2:values-scale-with-predicate", "O3:product-game", "O4:bcs-game", "O5:order-independent", "O5:game-unchanged", "O1:classical-pooled", "O3:odometer"]
RULE = ("games with answer/question alphabet sizes drawn independently from 1..3 (thorough 1..4), 0/1 and fractional predicates, uniform/biased/"
        "sparse question distributions; structured games with a classical/quantum gap (XOR- and mod-3-type predicates, CHSH, odd cycle, FFL) for the "
        "orderings; a signature is (monitor, A, B, X, Y, predicate kind, support pattern) and is non-trivial when A != B or X != Y or the game has a "
        "gap NS - classical > 1e-3")
ASSUMPTIONS = [
    "classical value compared with an independent brute force over all pairs of deterministic answer functions (1e-9)",
    "SDP values (cvxpy default solver) compared one-sidedly with tolerance 2e-4; solver failures are instance-level inconclusive",
    "quantum lower bounds: the library's see-saw is seeded through an external shim (random_povm bound in the game module gets a seed) so that "
    "order-independence can be compared; the see-saw value is only ever used as a lower bound",
    "tightness of the NPA / non-signalling bounds is not decidable from orderings (C08 pins NPA level 1 for XOR games)",
    "NPA level 2 only for games with at most 36 answer-question pairs per player product (cost)",
]
TOL = 2e-4
SOLVER_TIME_LIMIT = 300
CASE_TIMEOUT = {"quick": 600, "thorough": 1800}


def cases(tier):
    out = []
    for r in range(400 if tier == "quick" else 20000):
        out.append(("cl", r))
    for r in range(6 if tier == "quick" else 40):
        out.append(("pool", r))
    for r in range(60 if tier == "quick" else 3000):
        out.append(("rep", r))
    for r in range(60 if tier == "quick" else 3000):
        out.append(("bcs", r))
    for r in range(18 if tier == "quick" else 160):
        out.append(("sdp", r))
    for r in range(6 if tier == "quick" else 48):
        out.append(("hist", r))
    for r in range(20 if tier == "quick" else 400):
        out.append(("odometer", r))
    return out


_SEED_BOX = {"seed": 0, "n": 0}


def setup(ctx):
    """Seed shim: the see-saw draws Bob's starting POVMs without a seed; give it one (inside the game module only)."""
    import toqito.nonlocal_games.nonlocal_game as mod

    orig = mod.random_povm
    if getattr(orig, "__vmon_shim__", False):
        return

    def seeded_random_povm(dim, num_inputs, num_outputs, seed=None):
        _SEED_BOX["n"] += 1
        return orig(dim, num_inputs, num_outputs, seed=_SEED_BOX["seed"] * 1000 + _SEED_BOX["n"] if seed is None else seed)

    seeded_random_povm.__vmon_shim__ = True
    mod.random_povm = seeded_random_povm


def _reseed(s):
    _SEED_BOX["seed"], _SEED_BOX["n"] = int(s), 0


def run(ctx, spec, rng):
    globals()["_run_" + spec[0]](ctx, spec, rng)


# --------------------------------------------------------------------------------------- generators
def rand_prob(rng, x, y):
    kind = int(rng.integers(0, 3))
    if kind == 0:
        p = np.full((x, y), 1.0 / (x * y))
    else:
        p = rng.random((x, y)) + 0.02
        if kind == 2 and x * y > 1:
            mask = rng.random((x, y)) < 0.3
            if mask.all():
                mask[0, 0] = False
            p[mask] = 0.0
        p /= p.sum()
    return p, kind


def rand_game(rng, hi=3, kind=None):
    a, b, x, y = (int(v) for v in rng.integers(1, hi + 1, size=4))
    prob, pk = rand_prob(rng, x, y)
    frac = bool(rng.integers(0, 2))
    if kind is not None:
        frac = kind != "01"
    pred = rng.random((a, b, x, y)) if frac else (rng.random((a, b, x, y)) < rng.choice([0.3, 0.5, 0.7])).astype(float)
    if kind == "mixed":  # some entries exactly 0 or 1, the others strictly between
        pin = rng.random((a, b, x, y))
        pred = np.where(pin < 0.3, 0.0, np.where(pin < 0.6, 1.0, pred))
    return prob, pred, (a, b, x, y, (kind or "frac") if frac else "01", pk)


def tilted_chsh(rng):
    """CHSH plus a question pair on which only Alice's answer to her first question is rewarded (weight w): the marginal term makes the NPA
    levels differ (level 1 is not tight).  Bob may have a third, never winning answer."""
    w = float(rng.uniform(0.12, 0.35))
    b_out = int(rng.integers(2, 4))
    pred = np.zeros((2, b_out, 2, 3))
    prob = np.zeros((2, 3))
    for x, y in itertools.product(range(2), repeat=2):
        prob[x, y] = (1 - w) / 4
        for a, b in itertools.product(range(2), repeat=2):
            pred[a, b, x, y] = float((a ^ b) == (x & y))
    prob[0, 2] = w
    pred[0, :, 0, 2] = 1.0
    return prob, pred, f"tilted-chsh[b_out={b_out}]"


def gap_game(rng, r):
    """Games that usually have classical < quantum/non-signalling."""
    k = r % 7
    if k == 0:  # CHSH
        prob = np.full((2, 2), 0.25)
        pred = np.zeros((2, 2, 2, 2))
        for a, b, x, y in itertools.product(range(2), repeat=4):
            pred[a, b, x, y] = float((a ^ b) == (x & y))
        return prob, pred, "chsh"
    if k == 1:  # odd cycle n=3 / 5
        n = 3 if r % 2 else 5
        prob = np.zeros((n, n))
        pred = np.zeros((2, 2, n, n))
        for x in range(n):
            prob[x, x] = 1 / (2 * n)
            prob[x, (x + 1) % n] = 1 / (2 * n)
            for a, b in itertools.product(range(2), repeat=2):
                pred[a, b, x, x] = float(a == b)
                pred[a, b, x, (x + 1) % n] = float(a != b)
        return prob, pred, f"oddcycle{n}"
    if k == 2:  # FFL
        prob = np.array([[1 / 3, 1 / 3], [0, 1 / 3]])
        pred = np.zeros((2, 2, 2, 2))
        for a, b, x, y in itertools.product(range(2), repeat=4):
            pred[a, b, x, y] = float((a | x) != (b | y))
        return prob, pred, "ffl"
    if k in (3, 4):  # random XOR-type game, rectangular question sets
        x, y = int(rng.integers(2, 4)), int(rng.integers(2, 4))
        prob, _ = rand_prob(rng, x, y)
        f = rng.integers(0, 2, size=(x, y))
        pred = np.zeros((2, 2, x, y))
        for a, b in itertools.product(range(2), repeat=2):
            pred[a, b] = (f == (a ^ b)).astype(float)
        return prob, pred, f"xor{x}x{y}"
    if k == 5:  # mod-3 difference game with unequal alphabets (Bob has a useless 3rd/4th answer)
        x, y = 2, int(rng.integers(2, 4))
        prob, _ = rand_prob(rng, x, y)
        f = rng.integers(0, 3, size=(x, y))
        pred = np.zeros((3, 3, x, y))
        for a, b in itertools.product(range(3), repeat=2):
            pred[a, b] = (f == ((a - b) % 3)).astype(float)
        return prob, pred, f"mod3-{x}x{y}"
    # XOR-type with unequal answer alphabets: Bob has an extra (losing) answer
    x, y = 2, 2
    prob, _ = rand_prob(rng, x, y)
    f = rng.integers(0, 2, size=(x, y))
    f[0, 0], f[1, 1] = 0, 1
    pred = np.zeros((2, 3, x, y))
    for a, b in itertools.product(range(2), repeat=2):
        pred[a, b] = (f == (a ^ b)).astype(float)
    pred[:, 2] = 0.5 * rng.random((2, x, y))
    return prob, pred, "xor-unequal-answers"


def relabel_and_pad(rng, prob, pred, pad_a, pad_b):
    """Same game in disguise: add pad_a / pad_b never-winning answers at random positions and permute every answer alphabet per question.

    All values of a game are invariant under this (answers are only relabelled; the added answers never win), so it both
    creates games with unequal alphabets whose useful answers sit at high indices and gives a metamorphic invariance."""
    a, b, x, y = pred.shape
    out = np.zeros((a + pad_a, b + pad_b, x, y))
    for ix in range(x):
        pa = rng.permutation(a + pad_a)
        for iy in range(y):
            pb = np.random.default_rng([int(rng.integers(0, 2 ** 31)), iy]).permutation(b + pad_b) if ix == 0 else None
            if ix == 0:
                relabel_and_pad._pb[iy] = pb
            pb = relabel_and_pad._pb[iy]
            for ia in range(a):
                for ib in range(b):
                    out[pa[ia], pb[ib], ix, iy] = pred[ia, ib, ix, iy]
    return prob.copy(), out


relabel_and_pad._pb = {}


def explicit_quantum_value(rng, prob, pred, tries=150):
    """Rigorous lower bound on the quantum value: best of explicit projective strategies on a maximally entangled state."""
    a, b, x, y = pred.shape
    best = 0.0
    for d in (2, 3):
        if a > d or b > d:
            continue
        psi = np.eye(d).reshape(-1) / np.sqrt(d)
        for _ in range(tries):
            am = []
            for _x in range(x):
                u = gen.haar(rng, d)
                projs = [np.outer(u[:, i], u[:, i].conj()) for i in range(d)]
                am.append(projs[:a - 1] + [sum(projs[a - 1:])])
            bm = []
            for _y in range(y):
                u = gen.haar(rng, d)
                projs = [np.outer(u[:, i], u[:, i].conj()) for i in range(d)]
                bm.append(projs[:b - 1] + [sum(projs[b - 1:])])
            val = 0.0
            for ix, iy in itertools.product(range(x), range(y)):
                if prob[ix, iy] == 0:
                    continue
                for ia, ib in itertools.product(range(a), range(b)):
                    if pred[ia, ib, ix, iy]:
                        val += prob[ix, iy] * pred[ia, ib, ix, iy] * float(np.real(psi.conj() @ np.kron(am[ix][ia], bm[iy][ib]) @ psi))
            best = max(best, val)
    return best


def _frozen(arr, ro):
    out = np.array(arr, copy=True)
    if ro:
        out.setflags(write=False)
    return out


# --------------------------------------------------------------------------------------- workloads
def _run_cl(ctx, spec, rng):
    from toqito.nonlocal_games.nonlocal_game import NonlocalGame

    prob, pred, sig = rand_game(rng, 3 if ctx.tier == "quick" or spec[1] % 4 else 4)
    ro = bool(spec[1] % 2)
    p_in, v_in = _frozen(prob, ro), _frozen(pred, ro)
    game = ctx.call(NonlocalGame, p_in, v_in)
    if game is FAILED:
        return
    before = (snap.digest(game.prob_mat), snap.digest(game.pred_mat))
    val = ctx.call(game.classical_value)
    if val is FAILED:
        return
    want = ref.classical_value(prob, pred)
    a, b, x, y = pred.shape
    nt = a != b or x != y
    if a ** x * b ** y <= 4000:
        naive = ref.classical_value_naive(prob, pred)
        if abs(naive - want) > 1e-12:
            ctx.harness_error("reference models disagree")
            return
    mech = "classical_value:bruteforce-mismatch"
    if val < want - 1e-9:
        mech = "classical_value:too-small" + ("[alice-answers<bob-answers-after-swap]" if _underenumerates(pred) else "")
    ctx.check("O1:classical=bruteforce", None, dev=abs(val - want), tol=1e-9, sig=sig, nt=nt, mech=mech,
              detail={"shape": [a, b, x, y], "library": val, "bruteforce": want, "prob": prob, "pred": pred if pred.size <= 48 else "large"})
    ctx.sample("O1:classical=bruteforce", {"shape": [a, b, x, y], "library": val, "bruteforce": want})
    after = (snap.digest(game.prob_mat), snap.digest(game.pred_mat))
    ctx.check("O5:game-unchanged", before == after and snap.digest(p_in) == snap.digest(prob) and snap.digest(v_in) == snap.digest(pred),
              sig=("classical", ro), mech="classical_value:mutates-game", detail={"shape": [a, b, x, y]})
    again = ctx.call(game.classical_value)
    if again is not FAILED:
        ctx.check("O5:order-independent", again == val, sig=("classical-twice",), mech="classical_value:not-repeatable", detail={"first": val, "second": again})


def _underenumerates(pred):
    """True when the library's strategy count A'**Y' is smaller than B'**Y' after its internal swap (mechanism of a known defect)."""
    a, b, x, y = pred.shape
    if a ** x < b ** y:
        a, b, x, y = b, a, y, x
    return a < b


def _run_pool(ctx, spec, rng):
    from toqito.nonlocal_games.nonlocal_game import NonlocalGame

    # > 1000 strategies on the enumerated side => multiprocessing.Pool branch.  Strategy counts that are not powers of two (3^7, 5^5, 6^4, 3^8) and a
    # planted optimal answer function at the end, the start or the middle of the enumeration: work split into chunks must still cover every strategy
    shapes = [(3, 3, 7, 7), (2, 2, 10, 10), (4, 3, 6, 7), (5, 5, 5, 5), (2, 2, 11, 10), (6, 6, 4, 4), (3, 4, 7, 6), (2, 2, 10, 11), (3, 3, 8, 7), (4, 4, 6, 5)]
    a, b, x, y = shapes[spec[1] % len(shapes)]
    if spec[1] % 5 == 4:
        prob, _ = rand_prob(rng, x, y)
    else:
        prob = rng.random((x, y)) + 0.3  # full support: a planted optimum is then the unique optimum, no other answer function ties with it
        prob = prob / prob.sum()
    plant = ["last", "first", "random", "none"][(spec[1] + spec[1] // len(shapes)) % 4]
    frac = bool((spec[1] // 3) % 2)
    pred = (rng.random((a, b, x, y)) < (0.5 if plant == "none" else 0.3)).astype(float)
    if frac:
        pred = pred * rng.uniform(0.3, 0.9, size=pred.shape)
    if plant != "none":
        # plant one pair of answer functions (f*, g*) that wins every question pair; every other entry wins with probability 0.3, so (f*, g*) is the
        # unique optimum (value 1) whichever player the library enumerates, and it sits at the end / start / middle of that enumeration
        f = {"last": [a - 1] * x, "first": [0] * x}.get(plant) or [int(t) for t in rng.integers(0, a, size=x)]
        g = {"last": [b - 1] * y, "first": [0] * y}.get(plant) or [int(t) for t in rng.integers(0, b, size=y)]
        for i in range(x):
            for j in range(y):
                pred[f[i], g[j], i, j] = 1.0
    game = ctx.call(NonlocalGame, prob.copy(), pred.copy())
    if game is FAILED:
        return
    val = ctx.call(game.classical_value)
    if val is FAILED:
        return
    want = ref.classical_value(prob, pred)
    ctx.check("O1:classical-pooled", None, dev=abs(val - want), tol=1e-9, sig=(a, b, x, y, plant, frac), nt=True, mech="classical_value:pooled-mismatch",
              detail={"shape": [a, b, x, y], "planted": plant, "library": val, "bruteforce": want})
    ctx.check("O5:game-unchanged", np.array_equal(game.pred_mat, pred) and np.array_equal(game.prob_mat, prob), sig=("pooled",), mech="classical_value:mutates-game-pooled",
              detail={"shape": [a, b, x, y]})


def _run_rep(ctx, spec, rng):
    from toqito.nonlocal_games.nonlocal_game import NonlocalGame

    a, b, x, y = (int(v) for v in rng.integers(1, 3 if spec[1] % 3 else 4, size=4))
    if max(a, b, x, y) == 1:
        x = 2
    prob, pk = rand_prob(rng, x, y)
    frac = bool(rng.integers(0, 2))
    pred = rng.random((a, b, x, y)) if frac else (rng.random((a, b, x, y)) < 0.5).astype(float)
    g1 = ctx.call(NonlocalGame, prob.copy(), pred.copy())
    g2 = ctx.call(NonlocalGame, prob.copy(), pred.copy(), 2)
    if g1 is FAILED or g2 is FAILED:
        return
    p2, v2 = ref.product_game(prob, pred)
    ok_shape = np.shape(g2.prob_mat) == p2.shape and np.shape(g2.pred_mat) == v2.shape
    devp = float(np.abs(np.asarray(g2.prob_mat) - p2).max()) if ok_shape else float("inf")
    devv = float(np.abs(np.asarray(g2.pred_mat) - v2).max()) if ok_shape else float("inf")
    nt = a != b or x != y
    ctx.check("O3:product-game", None, dev=max(devp, devv), tol=1e-12, sig=(a, b, x, y, frac), nt=nt, mech="NonlocalGame:reps-not-product-game",
              detail={"shape": [a, b, x, y], "dev_prob": devp, "dev_pred": devv})
    ctx.sample("O3:product-game", {"shape": [a, b, x, y], "fractional": frac})
    c1 = ctx.call(g1.classical_value)
    if (a * a) ** (x * x) * (b * b) ** (y * y) <= 3e5 and c1 is not FAILED:
        c2 = ctx.call(g2.classical_value)
        if c2 is not FAILED:
            want2 = ref.classical_value(p2, v2)
            mech = "classical_value:bruteforce-mismatch"
            if c2 < want2 - 1e-9:
                mech = "classical_value:too-small" + ("[alice-answers<bob-answers-after-swap]" if _underenumerates(v2) else "")
            ctx.check("O1:classical=bruteforce", None, dev=abs(c2 - want2), tol=1e-9, sig=("reps2", a, b, x, y), nt=nt, mech=mech,
                      detail={"shape": [a, b, x, y], "reps": 2, "library": c2, "bruteforce": want2})
            want1 = ref.classical_value(prob, pred)
            ctx.check("O3:cl(G^2)>=cl(G)^2", want2 >= want1 ** 2 - 1e-12 and (abs(c1 - want1) > 1e-9 or c2 >= c1 ** 2 - 1e-9), sig=(a, b, x, y),
                      mech="classical_value:repetition-below-square", detail={"cl1": c1, "cl2": c2})


def _bcs_model(constraints):
    m = len(constraints)
    n = constraints[0].ndim
    prob = np.zeros((m, n))
    pred = np.zeros((2 ** n, 2, m, n))
    for j, c in enumerate(constraints):
        dep = []
        for i in range(n):
            relevant = False
            for assign in itertools.product(range(2), repeat=n):
                flipped = list(assign)
                flipped[i] ^= 1
                if c[assign] != c[tuple(flipped)]:
                    relevant = True
            dep.append(relevant)
        for i in range(n):
            prob[j, i] = (1.0 / m) * (1.0 / sum(dep)) if dep[i] else 0.0
        for a_idx, assign in enumerate(itertools.product(range(2), repeat=n)):  # first variable most significant
            if c[assign] == 1:
                for i in range(n):
                    pred[a_idx, assign[i], j, i] = 1
    return prob, pred


def _run_bcs(ctx, spec, rng):
    from toqito.nonlocal_games.nonlocal_game import NonlocalGame

    n = int(rng.integers(1, 4))
    m = int(rng.integers(1, 4))
    cons = []
    for _ in range(m):
        while True:
            c = rng.integers(0, 2, size=(2,) * n).astype(float)
            if c.min() != c.max():
                break
        cons.append(c)
    game = ctx.call(NonlocalGame.from_bcs_game, [c.copy() for c in cons])
    if game is FAILED:
        return
    prob, pred = _bcs_model(cons)
    ok = np.shape(game.prob_mat) == prob.shape and np.shape(game.pred_mat) == pred.shape
    dev = max(float(np.abs(game.prob_mat - prob).max()), float(np.abs(game.pred_mat - pred).max())) if ok else float("inf")
    ctx.check("O4:bcs-game", None, dev=dev, tol=1e-12, sig=(n, m), nt=m > 1 or n > 1, mech="from_bcs_game:definition", detail={"n_vars": n, "n_constraints": m, "constraints": cons})
    ctx.sample("O4:bcs-game", {"n_vars": n, "constraints": cons})
    val = ctx.call(game.classical_value)
    if val is not FAILED:
        want = ref.classical_value(prob, pred)
        mech = "classical_value:bruteforce-mismatch"
        if val < want - 1e-9 and _underenumerates(pred):
            mech = "classical_value:too-small[alice-answers<bob-answers-after-swap]"
        ctx.check("O1:classical=bruteforce", None, dev=abs(val - want), tol=1e-9, sig=("bcs", n, m), nt=True, mech=mech, detail={"library": val, "bruteforce": want, "constraints": cons})


def _npa_levels(pred):
    a, b, x, y = pred.shape
    small = (a * x) * (b * y) <= 36
    return [1, "1+ab", 2] if small else [1, "1+ab"]


def _solve(ctx, fn, *args, **kw):
    ctx.evals["solver-call"] += 1
    v = ctx.call(fn, *args, solver=True, **kw)
    if v is FAILED:
        return None
    if v is None or not np.isfinite(v):
        # an infeasible / unbounded program (value None or +-inf) on a valid instance is a wrong answer, not a solver failure
        ctx.fail("solver-call", "non-finite-value:" + getattr(fn, "__name__", "?"), {"value": repr(v), "args": a})
        return None
    return float(v)


def _run_sdp(ctx, spec, rng):
    from toqito.nonlocal_games.nonlocal_game import NonlocalGame

    if spec[1] % 6 == 5:
        # answer alphabets that differ by two or more (2 against 4 or 5, 4 against 2 ...) and three questions on the wide side: every operator of
        # one player must keep its own moments.  A planted pair of answer functions wins with certainty (classical value exactly 1), near misses score 1/4
        a, b, x, y = [(2, 4, 2, 3), (4, 2, 3, 2), (2, 5, 2, 2), (3, 5, 2, 3), (5, 2, 3, 2), (2, 4, 3, 3)][(spec[1] // 6) % 6]
        prob, _ = rand_prob(rng, x, y)
        prob = (prob + 0.02) / (prob + 0.02).sum()
        f_, g_ = rng.integers(0, a, size=x), rng.integers(0, b, size=y)
        pred = np.zeros((a, b, x, y))
        for ia, ib, ix, iy in itertools.product(range(a), range(b), range(x), range(y)):
            pred[ia, ib, ix, iy] = 1.0 if (ia == f_[ix] and ib == g_[iy]) else (0.25 if (ia == f_[ix] or ib == g_[iy]) else 0.0)
        name = f"planted-wide[{a},{b},{x},{y}]"
        planted_shape = (a, b, x, y)
    elif spec[1] % 3 == 2:
        pk = ["frac", "01", "mixed"][(spec[1] // 3) % 3]
        prob, pred, shp = rand_game(rng, 3, kind=pk)
        name = "random-" + pk
    else:
        prob, pred, name = gap_game(rng, spec[1])
    base_npa1 = None
    if not name.startswith(("random", "planted")) and spec[1] % 2 == 1:
        # the same game in disguise (relabelled answers, padded with never-winning answers): unequal alphabets whose useful
        # answers sit at arbitrary indices; NPA level 1 must not change
        ctx.evals["solver-call"] += 1
        v0 = ctx.call(NonlocalGame(prob.copy(), pred.copy()).commuting_measurement_value_upper_bound, 1, solver=True)
        base_npa1 = None if v0 is FAILED or v0 is None else float(v0)
        pad_a, pad_b = [(0, 1), (1, 0), (0, 2), (1, 1)][(spec[1] // 2) % 4]
        if max(pred.shape[0] + pad_a, pred.shape[1] + pad_b) <= 4:
            prob, pred = relabel_and_pad(rng, prob, pred, pad_a, pad_b)
            name = name + f"+relabelled-pad{pad_a}{pad_b}"
    a, b, x, y = pred.shape
    game = NonlocalGame(prob.copy(), pred.copy())
    before = (snap.digest(game.prob_mat), snap.digest(game.pred_mat))
    cl = ctx.call(game.classical_value)
    cl_ref = ref.classical_value(prob, pred)
    _reseed(spec[1])
    qlb = _solve(ctx, game.quantum_value_lower_bound, dim=2 if max(a, b) <= 2 else 3, iters=2 if ctx.tier == "quick" else 3)
    ns = _solve(ctx, game.nonsignaling_value)
    npa = {}
    for k in _npa_levels(pred):
        npa[k] = _solve(ctx, game.commuting_measurement_value_upper_bound, k)
    explicit = explicit_quantum_value(rng, prob, pred, 60 if ctx.tier == "quick" else 200)
    gap = (ns - cl_ref) if ns is not None else 0.0
    nt = a != b or x != y or gap > 1e-3
    sig = (name, a, b, x, y)
    det = {"game": name, "shape": [a, b, x, y], "classical": cl, "bruteforce": cl_ref, "qlb": qlb, "npa": {str(k): v for k, v in npa.items()}, "ns": ns,
           "explicit_strategy": explicit}
    ctx.sample("O2:cl<=NPA", det)
    for k, v in npa.items():
        if v is None:
            continue
        # the true classical value (brute force) must not exceed any NPA level
        ctx.check("O2:cl<=NPA", cl_ref <= v + TOL, dev=max(0.0, cl_ref - v), tol=TOL, sig=sig + (str(k),), nt=nt, mech=f"npa:below-classical[k={k}]", detail=det)
        if qlb is not None:
            ctx.check("O2:qlb<=NPA", qlb <= v + TOL, dev=max(0.0, qlb - v), tol=TOL, sig=sig + (str(k),), nt=nt, mech=f"npa:below-quantum-lower-bound[k={k}]", detail=det)
        ctx.check("O2:explicit-strategy<=NPA", explicit <= v + TOL, dev=max(0.0, explicit - v), tol=TOL, sig=sig + (str(k),), nt=nt,
                  mech=f"npa:below-explicit-strategy[k={k}]", detail=det)
        if ns is not None:
            ctx.check("O2:NPA<=NS", v <= ns + TOL, dev=max(0.0, v - ns), tol=TOL, sig=sig + (str(k),), nt=nt, mech=f"npa:above-nonsignaling[k={k}]", detail=det)
    if base_npa1 is not None and npa.get(1) is not None:
        ctx.check("O2:NPA-invariant-under-relabelling", abs(npa[1] - base_npa1) <= TOL, dev=abs(npa[1] - base_npa1), tol=TOL, sig=sig, nt=True,
                  mech="npa:changes-under-answer-relabelling-or-padding", detail=dict(det, npa1_of_original_game=base_npa1))
    if not name.startswith(("random", "planted")) and spec[1] % 2 == 0 and npa.get(1) is not None:
        # the same game with every winning entry worth c in (0, 1): all values scale by c
        c = float(rng.choice([0.5, 0.25, 0.8]))
        scaled = NonlocalGame(prob.copy(), c * pred)
        v_c = _solve(ctx, scaled.commuting_measurement_value_upper_bound, 1)
        cl_c = ctx.call(scaled.classical_value)
        if v_c is not None:
            ctx.check("O2:values-scale-with-predicate", abs(v_c - c * npa[1]) <= TOL, dev=abs(v_c - c * npa[1]), tol=TOL, sig=sig + ("npa1", c), nt=True,
                      mech="npa:does-not-scale-with-fractional-predicate", detail=dict(det, c=c, npa1_scaled_game=v_c))
        if cl_c is not FAILED:
            ctx.check("O2:values-scale-with-predicate", abs(cl_c - c * cl_ref) <= 1e-9, dev=abs(cl_c - c * cl_ref), tol=1e-9, sig=sig + ("classical", c), nt=True,
                      mech="classical_value:does-not-scale-with-fractional-predicate", detail=dict(det, c=c, classical_scaled_game=cl_c))
    if name.startswith("planted"):
        # the same shape with other planted answer functions (all of them, or a sample): whichever operators an implementation confuses, some planted
        # deterministic strategy tells them apart; its value 1 must stay below every level
        pa, pb, px, py = planted_shape
        fg = list(itertools.product(itertools.product(range(pa), repeat=px), itertools.product(range(pb), repeat=py)))
        pick = rng.permutation(len(fg))[: 8 if ctx.tier == "quick" else 24]
        for t_ in pick:
            f2, g2 = fg[int(t_)]
            pred2 = np.zeros((pa, pb, px, py))
            for ia, ib, ix, iy in itertools.product(range(pa), range(pb), range(px), range(py)):
                pred2[ia, ib, ix, iy] = 1.0 if (ia == f2[ix] and ib == g2[iy]) else (0.25 if (ia == f2[ix] or ib == g2[iy]) else 0.0)
            g_2 = NonlocalGame(prob.copy(), pred2)
            for k in (1, "1+ab"):
                v2 = _solve(ctx, g_2.commuting_measurement_value_upper_bound, k)
                if v2 is not None:
                    ctx.check("O2:cl<=NPA", 1.0 <= v2 + TOL, dev=max(0.0, 1.0 - v2), tol=TOL, sig=sig + ("planted", str(k)), nt=True, mech=f"npa:below-classical[k={k}]",
                              detail={"game": name, "f": f2, "g": g2, "npa": v2, "level": str(k), "classical": 1.0})
    order = [k for k in (1, "1+ab", 2) if npa.get(k) is not None]
    for k1, k2 in zip(order, order[1:]):
        ctx.check("O2:NPA-monotone", npa[k2] <= npa[k1] + TOL, dev=max(0.0, npa[k2] - npa[k1]), tol=TOL, sig=sig + (str(k1), str(k2)), nt=nt,
                  mech=f"npa:not-monotone[{k1}->{k2}]", detail=det)
    if ns is not None:
        ctx.check("O2:NS<=1", ns <= 1 + TOL and ns >= cl_ref - TOL, dev=max(0.0, ns - 1, cl_ref - ns), tol=TOL, sig=sig, nt=nt, mech="nonsignaling:out-of-range", detail=det)
        ctx.check("O2:explicit-strategy<=NS", explicit <= ns + TOL, sig=sig, nt=nt, mech="nonsignaling:below-explicit-strategy", detail=det)
    if qlb is not None:
        ctx.check("O2:qlb<=1", qlb <= 1 + TOL, sig=sig, mech="qlb:above-1", detail=det)
    after = (snap.digest(game.prob_mat), snap.digest(game.pred_mat))
    ctx.check("O5:game-unchanged", before == after, sig=("all-methods", name), mech="value-methods:mutate-game", detail={"game": name})


def _run_hist(ctx, spec, rng):
    """History monitor: the four value methods in different orders on one object give the values of fresh objects."""
    from toqito.nonlocal_games.nonlocal_game import NonlocalGame

    grng = np.random.default_rng([ctx.seed, 777, spec[1] // 6])  # 6 cases share one game; each runs 4 of the 24 orders
    prob, pred, name = gap_game(grng, int(grng.integers(0, 7)))
    a, b, x, y = pred.shape
    dimq = 2 if max(a, b) <= 2 else 3
    ro = bool(spec[1] % 2)

    def methods(game):
        return {
            "cl": lambda: ctx.call(game.classical_value),
            "qlb": lambda: (_reseed(4242), _solve(ctx, game.quantum_value_lower_bound, dim=dimq, iters=1))[1],
            "npa": lambda: _solve(ctx, game.commuting_measurement_value_upper_bound, 1),
            "ns": lambda: _solve(ctx, game.nonsignaling_value),
        }

    fresh = {}
    for m in ("cl", "qlb", "npa", "ns"):
        fresh[m] = methods(NonlocalGame(_frozen(prob, ro), _frozen(pred, ro)))[m]()
    orders = list(itertools.permutations(("cl", "qlb", "npa", "ns")))
    mine = orders[(spec[1] % 6) * 4:(spec[1] % 6) * 4 + 4]
    for order in mine:
        game = NonlocalGame(_frozen(prob, ro), _frozen(pred, ro))
        before = (snap.digest(game.prob_mat), snap.digest(game.pred_mat))
        fns = methods(game)
        log = []
        for m in order:
            v = fns[m]()
            log.append((m, v))
            if v is None or v is FAILED or fresh[m] is None or fresh[m] is FAILED:
                continue
            tol = 0.0 if m == "cl" else TOL
            ctx.check("O5:order-independent", abs(v - fresh[m]) <= tol, dev=abs(v - fresh[m]), tol=tol, sig=(name, m, order.index(m)), nt=order.index(m) > 0,
                      mech=f"value-depends-on-history[{m}]", detail={"game": name, "order": order, "value": v, "fresh": fresh[m]})
            now = (snap.digest(game.prob_mat), snap.digest(game.pred_mat))
            ctx.check("O5:game-unchanged", now == before, sig=("after", m), mech=f"value-method-mutates-game[{m}]", detail={"game": name, "order": order})
        ctx.sample("O5:order-independent", {"game": name, "history": log, "fresh": fresh})
    # the NPA levels among themselves: every order of the levels on ONE object gives the values of fresh objects (tilted CHSH games with unequal
    # alphabets, where level 1 is not tight)
    lrng = np.random.default_rng([ctx.seed, 778, spec[1]])
    prob2, pred2, _name2 = tilted_chsh(lrng)
    a2, b2, x2, y2 = pred2.shape
    levels = [1, "1+ab", 2]
    fresh_l = {str(k): _solve(ctx, NonlocalGame(prob2.copy(), pred2.copy()).commuting_measurement_value_upper_bound, k) for k in levels}
    order_l = [levels[i_] for i_ in list(itertools.permutations(range(3)))[spec[1] % 6]]
    game2 = NonlocalGame(prob2.copy(), pred2.copy())
    for pos, k in enumerate(order_l):
        v = _solve(ctx, game2.commuting_measurement_value_upper_bound, k)
        if v is None or fresh_l[str(k)] is None:
            continue
        ctx.check("O5:order-independent", abs(v - fresh_l[str(k)]) <= TOL, dev=abs(v - fresh_l[str(k)]), tol=TOL, sig=("npa-levels", str(k), pos), nt=pos > 0,
                  mech=f"value-depends-on-history[npa-level-{k}]", detail={"shape": [a2, b2, x2, y2], "order": [str(t_) for t_ in order_l], "value": v, "fresh": fresh_l[str(k)],
                                                                          "fresh_values_of_all_levels": fresh_l})


def _run_odometer(ctx, spec, rng):
    """update_odometer drives the index bookkeeping of repeated games: it must enumerate mixed-radix tuples in lexicographic order and wrap."""
    from toqito.helper import update_odometer

    n = int(rng.integers(1, 5))
    lim = [int(v) for v in rng.integers(1, 5, size=n)]
    want = list(itertools.product(*[range(u) for u in lim]))
    cur = np.zeros(n, dtype=int) if spec[1] % 2 else [0] * n
    seen = [tuple(int(v) for v in cur)]
    ok = True
    for _ in range(len(want)):
        nxt = ctx.call(update_odometer, cur, np.array(lim) if spec[1] % 3 else list(lim), freeze=False)  # documented to advance the index array it is given
        if nxt is FAILED:
            return
        cur = nxt
        seen.append(tuple(int(v) for v in np.asarray(cur).reshape(-1)))
    ok = seen[:-1] == want and seen[-1] == want[0]
    ctx.check("O3:odometer", ok, sig=(n, tuple(lim)), nt=len(set(lim)) > 1, mech="update_odometer:not-lexicographic-enumeration", detail={"limits": lim, "first": seen[:6]})
    ctx.sample("O3:odometer", {"limits": lim, "sequence_head": seen[:5]})
