"""C14 - entanglement / entropy quantities match closed forms and local-unitary invariance."""
from __future__ import annotations

import numpy as np

from .. import gen, ref
from ..core import FAILED

DECIDING = ["O1:negativity", "O1:log_negativity", "O1:entanglement_of_formation", "O1:concurrence", "O1:schmidt_rank", "O1:sk_vector_norm",
            "O1:l1_norm_coherence", "O1:schmidt_decomposition", "O2:local-unitary-invariant", "O2:entropy-additive", "O3:is_product", "O4:sk_operator_norm", "O4:lower<=certified-relaxation",
            "O4:is_block_positive", "O1:purity", "O1:von_neumann_entropy"]
RULE = ("bipartite pure states |psi> = sum s_i u_i (x) v_i with Haar local bases and planted Schmidt coefficients (every rank, generic and degenerate), local "
        "dimensions 2..4 incl. unequal, vector (1-D / column) and density-matrix input, dim as list / scalar / omitted; mixed states of the same sizes for the "
        "invariance statements; operators for the S(k) norm; signature (monitor, dA, dB, rank, input form, dim form); non-trivial when dA != dB or rank > 1")
THOROUGH_REPEAT = 2  # the thorough tier runs its randomised case kinds this many times (new inputs each time)
ASSUMPTIONS = [
    "closed forms from the planted Schmidt coefficients, tolerance 1e-7 (1e-6 where eigenvalues of rank-deficient matrices enter logarithms)",
    "S(k) operator norm: the true value is not computable; decided are lower <= upper, upper >= every |<w|X|v>| found by sampling and alternating optimisation over "
    "Schmidt-rank-k vectors, lower <= operator norm, exact value for k >= min dim and for rank-one operators",
    "is_product negatives have second Schmidt coefficient >= 0.05",
]
T1 = 1e-7
T2 = 1e-6
SOLVER_TIME_LIMIT = 120


def cases(tier):
    out = [("pure", r) for r in range(360 if tier == "quick" else 80000)]
    out += [("mixed", r) for r in range(120 if tier == "quick" else 30000)]
    out += [("prod", r) for r in range(120 if tier == "quick" else 30000)]
    out += [("sk", r) for r in range(40 if tier == "quick" else 2400)]
    out += [("skproj", r) for r in range(28 if tier == "quick" else 1400)]
    return out


def run(ctx, spec, rng):
    globals()["_run_" + spec[0]](ctx, spec, rng)


def _v(ctx, fn, *a, **k):
    v = ctx.call(fn, *a, **k)
    return None if v is FAILED else v


def _dimform(rng, da, db):
    forms = [[da, db], np.array([da, db]), da]
    if da == db:
        forms.append(None)
    return forms[int(rng.integers(0, len(forms)))]


def _run_pure(ctx, spec, rng):
    from toqito.state_ops import schmidt_decomposition
    from toqito.state_props import (concurrence, entanglement_of_formation, l1_norm_coherence, log_negativity, negativity, purity, schmidt_rank, sk_vector_norm,
                                    von_neumann_entropy)

    r = spec[1]
    da, db = int(rng.integers(2, 5)), int(rng.integers(2, 5))
    if r % 5 == 0:
        da = db = 2
    m = min(da, db)
    rank = 1 + (r % m)
    cplx = bool((r // 2) % 2)
    s = rng.random(rank) + 0.1
    if r % 7 == 0 and rank > 1:
        s[:] = 1.0  # degenerate Schmidt coefficients
    s = np.sort(s / np.linalg.norm(s))[::-1]
    psi, _, _ = gen.schmidt_state(rng, da, db, s, cplx)
    col = psi.reshape(-1, 1)
    rho = np.outer(psi, psi.conj())
    nt = da != db or rank > 1
    base = (da, db, rank, cplx)
    det = {"dA": da, "dB": db, "schmidt": s, "complex": cplx}
    ctx.sample("O1:negativity", det)

    def chk(mon, fn, args, want, tol, form, mech=None):
        val = _v(ctx, fn, *args)
        if val is None:
            return
        ctx.check("O1:" + mon, None, dev=abs(float(np.real(val)) - want), tol=tol, sig=base + (form,), nt=nt, mech=mech or f"{mon}:closed-form[{form}]",
                  detail=dict(det, form=form, library=val, want=want))

    neg = (s.sum() ** 2 - 1) / 2
    for form, x in (("col", col), ("dm", rho)):
        dim = _dimform(rng, da, db)
        dform = "none" if dim is None else ("int" if isinstance(dim, int) else "list")
        a = (x.copy(),) if dim is None else (x.copy(), dim)
        chk("negativity", negativity, a, neg, T1, f"{form}/{dform}")
        chk("log_negativity", log_negativity, a, float(np.log2(s.sum() ** 2)), T1, f"{form}/{dform}")
        chk("entanglement_of_formation", entanglement_of_formation, a, ref.entropy_bits(s ** 2), T2, f"{form}/{dform}")
    for form, x in (("col", col), ("1d", psi)):
        for dim in ([da, db], da) + ((None,) if da == db else ()):
            dform = "none" if dim is None else ("int" if isinstance(dim, int) else "list")
            a = (x.copy(),) if dim is None else (x.copy(), dim)
            mech = "schmidt_rank:wrong-on-unequal-local-dimensions" if da != db else None
            chk("schmidt_rank", schmidt_rank, a, rank, 0.5, f"{form}/{dform}", mech)
    for k in range(1, m + 1):
        chk("sk_vector_norm", sk_vector_norm, (col.copy(), k, [da, db]), float(np.sqrt(np.sum(s[:k] ** 2))), T1, f"k={k}")
    if da == db:
        chk("sk_vector_norm", sk_vector_norm, (col.copy(), 1), float(s[0]), T1, "defaults")
    chk("purity", purity, (rho.copy(),), 1.0, T1, "pure")
    chk("von_neumann_entropy", von_neumann_entropy, (rho.copy(),), 0.0, 1e-5, "pure")
    chk("l1_norm_coherence", l1_norm_coherence, (rho.copy(),), float(np.abs(rho).sum() - np.abs(np.diag(rho)).sum()), T1, "dm")
    chk("l1_norm_coherence", l1_norm_coherence, (col.copy(),), float(np.abs(rho).sum() - np.abs(np.diag(rho)).sum()), T1, "col")
    if (da, db) == (2, 2):
        chk("concurrence", concurrence, (rho.copy(),), float(2 * s[0] * (s[1] if rank > 1 else 0.0)), T2, "dm")
    # Schmidt decomposition: orthonormal factors, descending coefficients, rebuilds the state
    dec = _v(ctx, schmidt_decomposition, col.copy(), [da, db])
    if dec is not None:
        sv, a_mat, b_mat = dec
        sv = np.asarray(sv, dtype=float).reshape(-1)
        k = len(sv)
        ok_orth = a_mat.shape == (da, k) and b_mat.shape == (db, k) and np.allclose(a_mat.conj().T @ a_mat, np.eye(k), atol=1e-8) and np.allclose(b_mat.conj().T @ b_mat, np.eye(k), atol=1e-8)
        rec = sum(sv[i] * np.kron(a_mat[:, i], b_mat[:, i]) for i in range(k)) if ok_orth else None
        ok = ok_orth and np.allclose(rec, psi, atol=1e-8) and np.all(np.diff(sv) <= 1e-10) and np.allclose(sv[:rank], s, atol=1e-8) and np.all(np.abs(sv[rank:]) <= 1e-8)
        ctx.check("O1:schmidt_decomposition", bool(ok), sig=base, nt=nt, mech="schmidt_decomposition:does-not-rebuild-or-not-orthonormal", detail=dict(det, coefficients=sv))
    # local unitary invariance of the scalar quantities on the pure state
    ua, ub = gen.haar(rng, da, real=not cplx), gen.haar(rng, db, real=not cplx)
    rot = np.kron(ua, ub) @ col
    for name, fn, args in (("negativity", negativity, ([da, db],)), ("entanglement_of_formation", entanglement_of_formation, ([da, db],)), ("schmidt_rank", schmidt_rank, ([da, db],)),
                           ("sk_vector_norm", sk_vector_norm, (1, [da, db]))):
        v0, v1 = _v(ctx, fn, col.copy(), *args), _v(ctx, fn, rot.copy(), *args)
        if v0 is not None and v1 is not None:
            mech = f"{name}:not-local-unitary-invariant"
            if name == "schmidt_rank" and abs(float(v0) - float(v1)) >= 1:
                # numpy's default rank threshold sigma_max * max(M, N) * eps is occasionally below the rounding noise of the SVD: a singular value
                # of ~5e-16 is then counted.  Classified by that mechanism (known finding) when the counted value is at rounding level
                for vec_, val_ in ((col, v0), (rot, v1)):
                    sv_ = np.linalg.svd(np.asarray(vec_).reshape(da, db), compute_uv=False)
                    extra = sv_[rank:int(round(float(val_)))] if float(val_) > rank else np.array([])
                    if extra.size and extra.max() <= 1e-13 * sv_[0]:
                        mech = "schmidt_rank:rounding-level-singular-value-counted[numpy-default-rank-threshold]"
            ctx.check("O2:local-unitary-invariant", None, dev=abs(float(np.real(v0)) - float(np.real(v1))), tol=T2, sig=(name,) + base, nt=nt, mech=mech, detail=det)


def _run_mixed(ctx, spec, rng):
    from toqito.state_props import concurrence, log_negativity, negativity, purity, schmidt_rank, von_neumann_entropy

    r = spec[1]
    da, db = int(rng.integers(2, 5)), int(rng.integers(2, 5))
    if r % 4 == 0:
        da = db = 2
    cplx = bool(r % 2)
    big = da * db
    rho = gen.density(rng, big, int(rng.integers(1, big + 1)), cplx)
    ua, ub = gen.haar(rng, da, real=not cplx), gen.haar(rng, db, real=not cplx)
    uu = np.kron(ua, ub)
    rot = ref.herm(uu @ rho @ uu.conj().T)
    base = (da, db, cplx)
    det = {"dA": da, "dB": db, "complex": cplx}
    fns = [("negativity", negativity, ([da, db],)), ("log_negativity", log_negativity, ([da, db],)), ("purity", purity, ()), ("von_neumann_entropy", von_neumann_entropy, ()),
           ("operator-schmidt_rank", schmidt_rank, ([da, db],))]
    if (da, db) == (2, 2):
        fns.append(("concurrence", concurrence, ()))
    for name, fn, args in fns:
        v0, v1 = _v(ctx, fn, rho.copy(), *args), _v(ctx, fn, rot.copy(), *args)
        if v0 is not None and v1 is not None:
            ctx.check("O2:local-unitary-invariant", None, dev=abs(float(np.real(v0)) - float(np.real(v1))), tol=T2, sig=(name,) + base, nt=True, mech=f"{name}:not-local-unitary-invariant",
                      detail=dict(det, before=v0, after=v1))
    # definitions on mixed states
    pt = ref.partial_transpose(rho, [1], [da, db], [da, db])
    want_neg = float(np.abs(np.linalg.eigvalsh(ref.herm(pt))).sum() - 1) / 2
    v = _v(ctx, negativity, rho.copy(), [da, db])
    if v is not None:
        ctx.check("O1:negativity", None, dev=abs(float(v) - want_neg), tol=T1, sig=base + ("mixed",), nt=True, mech="negativity:mixed-state-definition", detail=dict(det, library=v, want=want_neg))
    ev = np.linalg.eigvalsh(rho)
    v = _v(ctx, purity, rho.copy())
    if v is not None:
        ctx.check("O1:purity", None, dev=abs(float(np.real(v)) - float(np.sum(ev ** 2))), tol=T1, sig=base + ("mixed",), nt=True, mech="purity:definition", detail=det)
    v = _v(ctx, von_neumann_entropy, rho.copy())
    if v is not None:
        ctx.check("O1:von_neumann_entropy", None, dev=abs(float(np.real(v)) - ref.entropy_bits(ev)), tol=1e-5, sig=base + ("mixed",), nt=True, mech="von_neumann_entropy:definition", detail=det)
    # entropy additivity on products
    sa, sb = gen.density(rng, da, int(rng.integers(1, da + 1)), cplx), gen.density(rng, db, int(rng.integers(1, db + 1)), cplx)
    ha, hb, hab = _v(ctx, von_neumann_entropy, sa), _v(ctx, von_neumann_entropy, sb), _v(ctx, von_neumann_entropy, np.kron(sa, sb))
    if None not in (ha, hb, hab):
        ctx.check("O2:entropy-additive", None, dev=abs(float(np.real(hab)) - float(np.real(ha)) - float(np.real(hb))), tol=1e-5, sig=base, nt=True, mech="von_neumann_entropy:not-additive", detail=det)
    ctx.sample("O2:entropy-additive", dict(det, H_A=ha, H_B=hb, H_AB=hab))


def _rounding_level_rejection(v, dims):
    """Classifier only (never decides a verdict): follow the splits the library makes (last subsystem first, then the left factor) with the
    library's own schmidt_decomposition and report (sigma_2, threshold) of the first split whose second singular value is above the library's
    prod(dim)*spacing(sigma_1) threshold although it is at rounding level (<= 1e-13 sigma_1)."""
    from toqito.state_ops import schmidt_decomposition

    try:
        vec, d = np.asarray(v).reshape(-1, 1), [int(t) for t in dims]
        while len(d) >= 2:
            split = [int(np.prod(d[:-1])), d[-1]] if len(d) > 2 else d
            sv, u_mat, _ = schmidt_decomposition(vec, split, 2)
            sv = np.asarray(sv, dtype=float).reshape(-1)
            thr = float(np.prod(split) * np.spacing(sv[0]))
            if sv[1] > thr:
                return (float(sv[1]), thr) if sv[1] <= 1e-13 * sv[0] else None
            vec, d = (u_mat[:, 0] * np.sqrt(sv[0])).reshape(-1, 1), d[:-1]
            if len(d) < 2:
                break
    except Exception:  # noqa: BLE001
        return None
    return None


def _run_prod(ctx, spec, rng):
    from toqito.state_props import is_product

    r = spec[1]
    cplx = bool(r % 2)
    kind = r % 6
    if kind in (0, 1):  # bipartite product vector / entangled vector
        da, db = int(rng.integers(2, 5)), int(rng.integers(2, 5))
        if kind == 0:
            v = np.kron(gen.unit(rng, da, cplx), gen.unit(rng, db, cplx))
            want = True
        else:
            s2 = float(rng.uniform(0.05, 0.7))
            v, _, _ = gen.schmidt_state(rng, da, db, [np.sqrt(1 - s2 ** 2), s2], cplx)
            want = False
        x = v.reshape(-1, 1) if r % 4 < 2 else np.outer(v, v.conj())
        form = "col" if r % 4 < 2 else "dm"
        dims = [da, db]
    elif kind in (2, 3):  # tripartite
        dims = [int(t) for t in rng.integers(2, 4, size=3)]
        fac = [gen.unit(rng, d, cplx) for d in dims]
        v = np.kron(np.kron(fac[0], fac[1]), fac[2])
        want = True
        if kind == 3:
            w = np.kron(np.kron(gen.unit(rng, dims[0], cplx), gen.unit(rng, dims[1], cplx)), gen.unit(rng, dims[2], cplx))
            v = v + 0.6 * w
            v /= np.linalg.norm(v)
            sv = ref.schmidt_coeffs(v, dims[0], dims[1] * dims[2])
            sv2 = ref.schmidt_coeffs(v.reshape(dims[0] * dims[1], dims[2]).reshape(-1), dims[0] * dims[1], dims[2])
            if max(sv[1], sv2[1]) < 0.05:
                return ctx.note_inconclusive("tripartite-margin")
            want = False
        x, form = v.reshape(-1, 1), "col3"
    else:  # operators: product operator A (x) B vs operator Schmidt rank 2
        da, db = int(rng.integers(2, 4)), int(rng.integers(2, 4))
        a, b = gen.rmat(rng, (da, da), cplx), gen.rmat(rng, (db, db), cplx)
        x = np.kron(a, b)
        want = True
        if kind == 5:
            x = x + np.kron(gen.rmat(rng, (da, da), cplx), gen.rmat(rng, (db, db), cplx))
            sv = np.linalg.svd(ref.realign(x, da, db, da, db), compute_uv=False)
            if sv[1] < 0.05 * sv[0]:
                return ctx.note_inconclusive("operator-margin")
            want = False
        form, dims = "operator", [da, db]
    res = _v(ctx, is_product, np.array(x, copy=True), list(dims))
    if res is None:
        return
    verdict = bool(res[0]) if isinstance(res, (tuple, list)) else bool(res)
    mech = f"is_product:wrong-verdict[{form},{'product' if want else 'entangled'}]"
    det = {"dims": dims, "form": form, "want": want, "got": verdict}
    if want and not verdict and form in ("col", "col3"):
        noise = _rounding_level_rejection(np.asarray(x).reshape(-1), dims)
        if noise is not None:
            mech = "is_product:rejects-product-vector[rounding-level-sigma2-above-prod(dim)*eps-threshold]"
            det["second_singular_value_seen_by_the_library"], det["library_threshold"] = noise
    ctx.check("O3:is_product", verdict == want, sig=(kind, form, tuple(dims), cplx), nt=True, mech=mech, detail=det)
    ctx.sample("O3:is_product", {"dims": dims, "form": form, "want": want, "got": verdict})
    if want and verdict and isinstance(res, (tuple, list)) and len(res) > 1 and form in ("col", "col3"):
        try:
            parts = [np.asarray(p).reshape(-1) for p in res[1]]
            rec = parts[0]
            for p in parts[1:]:
                rec = np.kron(rec, p)
            v0 = np.asarray(x).reshape(-1)
            ok = rec.shape == v0.shape and abs(abs(np.vdot(rec, v0)) - np.linalg.norm(rec) * np.linalg.norm(v0)) <= 1e-7
            ctx.check("O3:is_product-decomposition", bool(ok), sig=(form, len(dims)), nt=True, mech="is_product:decomposition-does-not-rebuild", detail={"dims": dims})
        except Exception:  # noqa: BLE001  the shape of the returned decomposition is not specified by the property
            ctx.evals["O3:is_product-decomposition:unparsed"] += 1


def _sr_vec(rng, da, db, k):
    s = rng.random(k) + 0.1
    s /= np.linalg.norm(s)
    return gen.schmidt_state(rng, da, db, s, True)[0]


def _best_over_sr_k(rng, x, da, db, k, tries):
    """max |<w|X|v>| over sampled + alternating-optimised vectors of Schmidt rank <= k (a rigorous lower bound on the S(k) norm)."""
    best = 0.0
    for _ in range(tries):
        v, w = _sr_vec(rng, da, db, k), _sr_vec(rng, da, db, k)
        for _ in range(6):
            # optimal w for fixed v: project X v onto Schmidt rank k (truncate its Schmidt decomposition)
            for side in (0, 1):
                t = x @ v if side == 0 else x.conj().T @ w
                u_, s_, vh_ = np.linalg.svd(t.reshape(da, db), full_matrices=False)
                t = (u_[:, :k] * s_[:k]) @ vh_[:k]
                t = t.reshape(-1)
                nrm = np.linalg.norm(t)
                if nrm == 0:
                    break
                if side == 0:
                    w = t / nrm
                else:
                    v = t / nrm
        best = max(best, abs(np.vdot(w, x @ v)))
    return float(best)


def _run_sk(ctx, spec, rng):
    from toqito.matrix_props import is_block_positive, sk_operator_norm

    r = spec[1]
    da, db = [(2, 2), (2, 3), (3, 3), (3, 2), (2, 4)][r % 5]
    m = min(da, db)
    k = 1 + (r // 5) % m
    big = da * db
    kind = r % 4
    if spec[0] == "skproj":
        # orthogonal projections of every rank (the routine has closed-form bounds for projections that depend on rank and dimensions), scaled or not;
        # the ranks (da - s)(db - s) at which a generic subspace stops containing vectors of Schmidt rank s are hit on purpose
        da, db = [(3, 3), (2, 3), (2, 4), (3, 2), (3, 4), (2, 2), (4, 2)][r % 7]
        m, big = min(da, db), da * db
        k = 1 + (r // 7) % max(1, m - 1)
        crit = sorted({(da - s_) * (db - s_) for s_ in range(1, m)} | {(da - s_) * (db - s_) + 1 for s_ in range(1, m)} | {1, big - 1})
        rank = crit[(r // 14) % len(crit)] if (r // 3) % 2 == 0 else int(rng.integers(1, big))
        rank = min(max(rank, 1), big - 1)
        q_, _ = np.linalg.qr(gen.rmat(rng, (big, rank), bool(r % 2)))
        x = ref.herm(q_ @ q_.conj().T) * (1.0 if (r // 2) % 3 else float(rng.uniform(0.5, 3)))
        kind = 5
    elif r % 8 == 7:
        # low-rank PSD operator dominated by a (locally rotated) maximally entangled vector, local dimensions >= 3, k >= 2
        da, db = [(3, 3), (3, 4), (4, 4), (4, 3)][(r // 8) % 4]
        m, big = min(da, db), da * db
        k = 2 + (r // 32) % (m - 1)
        omega = np.zeros((da, db))
        omega[np.arange(m), np.arange(m)] = 1 / np.sqrt(m)
        uu = np.kron(gen.haar(rng, da), gen.haar(rng, db))
        v0 = uu @ omega.reshape(-1)
        x = np.outer(v0, v0.conj()) + 0.1 * gen.psd(rng, big, int(rng.integers(1, 3)), True) / big
        x = ref.herm(x)
        kind = 4
    elif kind == 0:
        x = gen.psd(rng, big, int(rng.integers(2, big + 1)), bool(r % 2))
    elif kind == 1:
        x = gen.hermitian(rng, big, bool(r % 2))
    elif kind == 2:
        a, b = gen.unit(rng, big), gen.unit(rng, big)
        x = 1.7 * np.outer(a, b.conj())  # rank one
    else:
        v = gen.unit(rng, big)
        x = np.eye(big) - 1.2 * np.outer(v, v.conj())  # witness-like
    ctx.evals["solver-call"] += 1
    res = ctx.call(sk_operator_norm, x.copy(), k, [da, db], solver=True)
    if res is FAILED:
        return
    lo, up = float(np.real(res[0])), float(np.real(res[1]))
    opn = float(np.linalg.norm(x, 2))
    attained = _best_over_sr_k(rng, x, da, db, k, 8)
    det = {"dims": [da, db], "k": k, "kind": kind, "lower": lo, "upper": up, "attained_by_explicit_vectors": attained, "operator_norm": opn}
    sig = ((da, db), k, kind)
    scale = 1 + opn
    # the upper bound can come from an SDP (cvxpy default solver): tolerance class T3b (observed: lower - upper = 7e-6 relative)
    ok = lo <= up + 2e-4 * scale and up >= attained - 2e-4 * scale and lo <= opn + 1e-6 * scale and up <= opn + 2e-4 * scale
    ctx.check("O4:sk_operator_norm", ok, sig=sig, nt=k < m, mech="sk_operator_norm:bracket-violated", detail=det)
    ctx.sample("O4:sk_operator_norm", det)
    if kind in (0, 4, 5) and k < m and big <= 12:
        # positive semidefinite X: the S(k) norm is the maximum of <v|X|v> over Schmidt rank <= k, bounded by a certified relaxation (solver proposes the
        # multipliers, numpy eigenvalues certify): the routine's LOWER bound may not exceed it
        from .. import certs

        sdp, cert = certs.schmidt_number_upper_bound(x, da, db, k)
        if cert is None:
            ctx.evals["O4:lower<=certified-relaxation:solver-failed"] += 1
        else:
            det2 = dict(det, certified_upper_bound_on_the_norm=cert, relaxation_value=sdp)
            ctx.check("O4:lower<=certified-relaxation", lo <= cert + 2e-5 * scale and attained <= cert + 1e-7 * scale, sig=sig + (kind == 5,), nt=cert < opn - 1e-3 * scale,
                      mech="sk_operator_norm:lower-bound-exceeds-certified-upper-bound" if attained <= cert + 1e-7 * scale else "harness:certificate-below-attained-value",
                      detail=det2)
            ctx.sample("O4:lower<=certified-relaxation", det2)
    if k >= m:
        ctx.check("O4:sk_operator_norm", abs(lo - opn) <= 1e-8 * scale and abs(up - opn) <= 1e-8 * scale, sig=sig + ("k>=min",), nt=True, mech="sk_operator_norm:k>=min-dim-not-operator-norm", detail=det)
    if kind == 2:
        a_k = np.sqrt(np.sum(ref.schmidt_coeffs(a, da, db)[:k] ** 2))
        b_k = np.sqrt(np.sum(ref.schmidt_coeffs(b, da, db)[:k] ** 2))
        want = 1.7 * a_k * b_k
        ctx.check("O4:sk_operator_norm", abs(lo - want) <= 1e-7 and abs(up - want) <= 1e-7, sig=sig + ("rank1",), nt=True, mech="sk_operator_norm:rank-one-closed-form", detail=dict(det, want=want))
    # block positivity, decided only with a margin
    if kind in (0, 3):
        if kind == 0:
            want_bp = True
        else:
            # <w|X|w> = 1 - 1.2 |<w|v>|^2 over Schmidt-rank-k vectors w: negative iff S(k)-vector-norm(v)^2 > 1/1.2
            skv = float(np.sum(ref.schmidt_coeffs(v, da, db)[:k] ** 2))
            if abs(1 - 1.2 * skv) < 0.02:
                return
            want_bp = 1 - 1.2 * skv > 0
        ctx.evals["solver-call"] += 1
        ans = ctx.call(is_block_positive, x.copy(), k, [da, db], solver=True, expect=(RuntimeError,))
        if ans is not FAILED and not isinstance(ans, RuntimeError):
            ctx.check("O4:is_block_positive", bool(ans) == want_bp, sig=sig, nt=True, mech=f"is_block_positive:wrong-verdict[want={want_bp}]", detail=dict(det, want=want_bp, got=bool(ans)))


def _run_skproj(ctx, spec, rng):
    _run_sk(ctx, spec, rng)
