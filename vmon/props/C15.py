"""C15 - PPT and separability verdicts are sound."""
from __future__ import annotations

import numpy as np

from .. import gen, ref, tracer
from ..core import FAILED, CaseTimeout, raise_line, raise_site

DECIDING = ["O1:is_ppt", "O1:is_npt", "O2a:separable-never-entangled", "O2b:npt-never-separable", "O2c:small-systems=PPT", "O2d:verdict-invariant",
            "O3:in_separable_ball", "O4:symmetric-extension-accepts-separable"]
RULE = ("states with ground truth by construction: convex mixtures of 1..20 random product states (real/complex, local dims 2..4, unequal allowed) are separable; "
        "states with lambda_min of the model partial transpose <= -0.02 are entangled; PPT probes with lambda_min >= -1e-12 or <= -1e-3 for either party and dim as "
        "list/int/omitted; operators inside / outside the Gurvits-Barnum ball by a 5% margin; signature (monitor, dA, dB, construction class, #terms or form); every "
        "is_separable verdict is attributed to the return statement that produced it (sys.monitoring)")
ASSUMPTIONS = [
    "ground truth only by construction with margins; the band between is never probed; tol <= 1e-6 when given",
    "return sites are identified by the normalised text of the return statement (+ordinal), raise sites by the normalised text of the raising line",
    "has_symmetric_extension level 2 on 3x3 costs seconds: few instances in the quick tier",
]
SOLVER_TIME_LIMIT = 300
CASE_TIMEOUT = {"quick": 600, "thorough": 1500}

RAISE_TAGS = [
    ("pt_state_alice**2 @ pt_state_bob**2", "realignment-bound-matmul-of-unequal-marginals"),
    ("np.ones((dim[p] / 2", "breuer-hall-block-float-dimensions"),
    ("-np.ones(dim(p) / 2", "breuer-hall-block-float-dimensions"),
    ("If `dim` is a scalar, it must evenly divide", "dimensions-not-forwarded-to-symmetric-extension"),
]


def cases(tier):
    out = [("ppt", r) for r in range(200 if tier == "quick" else 8000)]
    out += [("sep", r) for r in range(160 if tier == "quick" else 3200)]
    out += [("npt", r) for r in range(80 if tier == "quick" else 3000)]
    out += [("inv", r) for r in range(60 if tier == "quick" else 2000)]
    out += [("ball", r) for r in range(80 if tier == "quick" else 3000)]
    out += [("symext", r) for r in range(48 if tier == "quick" else 480)]
    return out


def setup(ctx):
    import sys

    hm = sys.modules["toqito.state_props.has_symmetric_extension"]
    sm = sys.modules["toqito.state_props.is_separable"]
    tracer.watch([sm.is_separable, hm.has_symmetric_extension], ctx.sites)


def run(ctx, spec, rng):
    globals()["_run_" + spec[0]](ctx, spec, rng)


def ask_separable(ctx, rho, dims, cls, **kw):
    """Call is_separable; returns (verdict or None, return site).  Crashes are classified by the raising line."""
    from toqito.state_props import is_separable

    tracer.clear_last("is_separable")
    ctx.evals["solver-call"] += 1
    remaining = 0
    import signal
    import time

    t0 = time.monotonic()
    remaining = signal.alarm(0)
    signal.alarm(int(ctx.solver_time_limit))
    try:
        ans = is_separable(rho, dims, **kw) if dims is not None else is_separable(rho, **kw)
        return bool(ans), tracer.last_site("is_separable")
    except CaseTimeout:
        if time.monotonic() - t0 >= ctx.solver_time_limit - 1:
            ctx.solver_fail["is_separable:timeout"] += 1
            return None, None
        raise
    except Exception as exc:  # noqa: BLE001
        if isinstance(exc, ctx.solver_types()) and raise_site(exc).startswith("symmetric_extension_hierarchy"):
            ctx.solver_fail["is_separable:" + type(exc).__name__] += 1
            return None, None
        line = raise_line(exc)
        tag = next((t for pat, t in RAISE_TAGS if pat in line or pat in str(exc)), "line:" + line[:60])
        ctx.fail("call:is_separable", f"crash:is_separable:{type(exc).__name__}[{tag}]",
                 {"exception": repr(exc)[:200], "raising_line": line, "dims": dims, "class": cls, "site": raise_site(exc)})
        return None, None
    finally:
        signal.alarm(0)
        if remaining:
            signal.alarm(max(1, int(remaining - (time.monotonic() - t0))))


def _dims(rng, r):
    table = [(2, 2), (2, 3), (3, 2), (3, 3), (2, 4), (4, 2), (3, 4), (4, 4), (3, 3), (2, 2), (4, 3), (3, 3)]
    return table[r % len(table)]


def _run_ppt(ctx, spec, rng):
    from toqito.state_props import is_npt, is_ppt

    r = spec[1]
    da, db = int(rng.integers(2, 5)), int(rng.integers(2, 5))
    if r % 3 == 0:
        db = da
    cplx = bool(r % 2)
    big = da * db
    kind = r % 4
    if kind == 0:
        rho = gen.product_state_mixture(rng, da, db, int(rng.integers(1, 8)), cplx)
    elif kind == 1:
        rho = gen.density(rng, big, int(rng.integers(1, big + 1)), cplx)
    elif kind == 2:
        psi, _, _ = gen.schmidt_state(rng, da, db, [np.sqrt(0.7), np.sqrt(0.3)], cplx)
        lam = float(rng.random())
        rho = lam * np.outer(psi, psi.conj()) + (1 - lam) * np.eye(big) / big
    else:
        rho = 0.5 * gen.density(rng, big, big, cplx) + 0.5 * np.eye(big) / big
    designed = None
    if kind == 2 and (r // 4) % 2 == 1:
        # smallest eigenvalue of the partial transpose designed: (1 - lam) / N - lam s0 s1 = target, a factor 20 .. 1e4 away from the 1e-8 threshold on
        # either side ("answers exactly whether the smallest eigenvalue is above minus the tolerance")
        designed = [-1e-4, -1e-5, -1e-6, -2e-7, 2e-7, 1e-6, 1e-4][(r // 8) % 7]
        lam = (1 / big - designed) / (1 / big + np.sqrt(0.21))
        rho = lam * np.outer(psi, psi.conj()) + (1 - lam) * np.eye(big) / big
    if kind == 1 and (r // 4) % 3 == 1:
        # exactly X-shaped two-qubit states (entries on the diagonal and the anti-diagonal only), weakly entangled: cos t |00> + e^{i phi} sin t |11>
        # (or on |01>, |10>), alone or with diagonal noise; smallest partial-transpose eigenvalue about -t, a factor 20 .. 1e4 beyond the threshold
        da = db = 2
        big = 4
        t_ = [2e-7, 1e-6, 1e-5, 1e-4, 3e-7, 3e-5][(r // 12) % 6]
        ph_ = float(rng.uniform(0, 2 * np.pi)) if cplx else 0.0
        i_, j_ = [(0, 3), (1, 2)][(r // 24) % 2]
        v_ = np.zeros(4, dtype=complex)
        v_[i_], v_[j_] = np.cos(t_), np.exp(1j * ph_) * np.sin(t_)
        rho = np.outer(v_, v_.conj())
        if (r // 48) % 2:
            nz = np.zeros(4)
            nz[[i_, j_]] = rng.random(2)  # noise on the two populated levels only: the other 2 x 2 block of the partial transpose stays exactly -t-ish
            rho = 0.9 * rho + 0.1 * np.diag(nz / nz.sum())
        designed = ref.eigmin(ref.partial_transpose(rho, [1], [2, 2], [2, 2]))
        if designed > -1.5e-7:
            return ctx.note_inconclusive("x-state-margin")
    if not cplx:
        rho = rho.real
    for sys_ in (1, 2):
        lam_min = ref.eigmin(ref.partial_transpose(rho, [sys_ - 1], [da, db], [da, db]))
        if designed is not None and abs(lam_min - designed) > 1e-9:
            ctx.harness_error("designed partial-transpose eigenvalue not met")
            continue
        if designed is None and -1e-3 < lam_min < -1e-12:
            ctx.evals["O1:is_ppt:band-skipped"] += 1
            continue
        want = lam_min >= -1e-12
        forms = [("list", [da, db])]
        if da == db:
            forms.append(("none", None))
        # a single number d means [d, N/d]: as a one-element list, a one-element array or a float (the forms the library accepts)
        forms.append([("list1", [da]), ("array1", np.array([da])), ("float", float(da))][r % 3])
        tol = [None, 1e-8, 1e-6][r % 3]
        if designed is not None:
            tol = [None, 1e-8][(r // 12) % 2]  # tol = 1e-6 reaches the test as a relative tolerance (section 3): the band between 1e-8 and 1e-6 is not decided
        for fname, dim in forms:
            args = (rho.copy(), sys_, dim) if tol is None else (rho.copy(), sys_, dim, tol)
            got = ctx.call(is_ppt, *args)
            if got is not FAILED:
                ctx.check("O1:is_ppt", bool(got) == want, sig=(da, db, sys_, fname, kind, tol is None, designed), nt=da != db or sys_ == 1,
                          mech=f"is_ppt:wrong-verdict[want={want}]", detail={"dims": [da, db], "sys": sys_, "lambda_min_PT": lam_min, "got": bool(got), "dim_form": fname, "tol": tol})
            gotn = ctx.call(is_npt, *args)
            if gotn is not FAILED and got is not FAILED:
                ctx.check("O1:is_npt", bool(gotn) == (not bool(got)), sig=(da, db, sys_, fname), nt=True, mech="is_npt:not-negation-of-is_ppt", detail={"dims": [da, db], "sys": sys_})
        if sys_ == 2:
            ctx.sample("O1:is_ppt", {"dims": [da, db], "class": kind, "lambda_min_PT": lam_min, "expected": want})


def _run_sep(ctx, spec, rng):
    r = spec[1]
    da, db = _dims(rng, r)
    k = [1, 2, 3, 4, 5, 6, 8, 12, 20][r % 9]
    cplx = bool((r // 2) % 2)
    rho = gen.product_state_mixture(rng, da, db, k, cplx)
    if not cplx:
        rho = rho.real
    cls = f"separable-mixture[{da}x{db}]"
    verdict, site = ask_separable(ctx, rho, [da, db], cls)
    if verdict is None:
        return
    mech = f"is_separable:separable-declared-entangled@[{site}]"
    ctx.check("O2a:separable-never-entangled", verdict is True, sig=(da, db, k, cplx), nt=True, mech=mech,
              detail={"dims": [da, db], "terms": k, "complex": cplx, "verdict": verdict, "return_site": site})
    ctx.sample("O2a:separable-never-entangled", {"dims": [da, db], "terms": k, "verdict": verdict, "return_site": site})
    if da * db <= 6:
        ctx.check("O2c:small-systems=PPT", verdict is True, sig=(da, db, "sep"), nt=True, mech="is_separable:small-system-differs-from-PPT", detail={"dims": [da, db], "site": site})
    if (da, db) == (3, 3):
        # rank-four two-qutrit states have their own necessary-and-sufficient test in the library: several real and complex four-term mixtures
        for t_ in range(4):
            rho4 = gen.product_state_mixture(rng, 3, 3, 4, bool(t_ % 2))
            if not t_ % 2:
                rho4 = rho4.real
            v4, s4 = ask_separable(ctx, rho4, [3, 3], cls + "-rank4")
            if v4 is not None:
                ctx.check("O2a:separable-never-entangled", v4 is True, sig=(3, 3, "rank-4", bool(t_ % 2)), nt=True, mech=f"is_separable:separable-declared-entangled@[{s4}]",
                          detail={"dims": [3, 3], "terms": 4, "complex": bool(t_ % 2), "return_site": s4})
    # the dimension argument omitted (first dimension round(sqrt(N)): equal dimensions and 2x3) or given as a single integer
    if da == db or (da, db) == (2, 3):
        v2, s2 = ask_separable(ctx, rho, None, cls + "-dim-omitted")
        if v2 is not None:
            ctx.check("O2a:separable-never-entangled", v2 is True, sig=(da, db, "dim-omitted"), nt=True, mech=f"is_separable:separable-declared-entangled@[{s2}]",
                      detail={"dims": "omitted", "true_dims": [da, db], "return_site": s2})
    if da * db <= 9:
        v3, s3 = ask_separable(ctx, rho, da, cls + "-dim-int")
        if v3 is not None:
            ctx.check("O2a:separable-never-entangled", v3 is True, sig=(da, db, "dim-int"), nt=True, mech=f"is_separable:separable-declared-entangled@[{s3}]",
                      detail={"dims": da, "true_dims": [da, db], "return_site": s3})


def _npt_state(rng, da, db, cplx):
    m = min(da, db)
    s = rng.random(m) + 0.3
    s /= np.linalg.norm(s)
    psi, _, _ = gen.schmidt_state(rng, da, db, s, cplx)
    big = da * db
    lam = float(rng.uniform(0.5, 1.0))
    noise = gen.density(rng, big, big, cplx) if rng.random() < 0.5 else np.eye(big) / big
    rho = lam * np.outer(psi, psi.conj()) + (1 - lam) * noise
    return ref.herm(rho) if cplx else ref.herm(rho).real


def _run_npt(ctx, spec, rng):
    r = spec[1]
    da, db = _dims(rng, r)
    cplx = bool(r % 2)
    rho = _npt_state(rng, da, db, cplx)
    margin = 0.02
    if (r // 12) % 2 == 1:
        # weakly entangled: a pure state with a small second Schmidt coefficient b (negative eigenvalue of the partial transpose about -b: small,
        # but orders of magnitude beyond any tolerance), alone or with a little of a product state mixed in
        b = float(rng.uniform(0.003, 0.03))
        coeffs = np.zeros(min(da, db))
        coeffs[0], coeffs[1] = np.sqrt(1 - b * b), b
        psi, _, _ = gen.schmidt_state(rng, da, db, coeffs, cplx)
        rho = np.outer(psi, psi.conj())
        if (r // 24) % 2 == 1:
            rho = 0.98 * rho + 0.02 * gen.product_state_mixture(rng, da, db, 1, cplx)
        rho = ref.herm(rho) if cplx else ref.herm(rho).real
        margin = 1e-3
    if (r // 12) % 4 == 3 or (r // 12) % 8 == 4:
        # nearly a product state, entrywise within 1e-5 relative of rho_A (x) rho_B, yet its partial transpose has an eigenvalue about -w/2, which is
        # 20 .. 5000 times beyond the 1e-8 tolerance: a generic product vector (no zero entries) plus a weight w = 5e-7 .. 1e-4 of an entangled one
        a_, b_ = gen.unit(rng, da, cplx), gen.unit(rng, db, cplx)
        prod = np.kron(a_, b_)
        coeffs = np.zeros(min(da, db))
        coeffs[0] = coeffs[1] = np.sqrt(0.5)
        psi, _, _ = gen.schmidt_state(rng, da, db, coeffs, cplx)
        w = float(10 ** rng.uniform(-6.3, -4))
        rho = ref.herm((1 - w) * np.outer(prod, prod.conj()) + w * np.outer(psi, psi.conj()))
        rho = rho if cplx else rho.real
        margin = 2e-7
    lam_min = ref.eigmin(ref.partial_transpose(rho, [1], [da, db], [da, db]))
    if lam_min > -margin:
        return ctx.note_inconclusive("npt-margin")
    verdict, site = ask_separable(ctx, rho, [da, db], f"npt[{da}x{db}]")
    if verdict is None:
        return
    ctx.check("O2b:npt-never-separable", verdict is False, sig=(da, db, cplx, margin), nt=True, mech=f"is_separable:npt-declared-separable@[{site}]",
              detail={"dims": [da, db], "lambda_min_PT": lam_min, "return_site": site})
    if da * db <= 6:
        ctx.check("O2c:small-systems=PPT", verdict is False, sig=(da, db, "npt"), nt=True, mech="is_separable:small-system-differs-from-PPT", detail={"dims": [da, db], "site": site})
    # dim given as a scalar / omitted (omitted means first dimension round(sqrt(N)): equal dimensions, 2x3 and 3x4)
    if da == db or (da, db) in ((2, 3), (3, 4)):
        v2, s2 = ask_separable(ctx, rho, None, "npt-dim-omitted")
        if v2 is not None:
            ctx.check("O2b:npt-never-separable", v2 is False, sig=(da, db, "dim-omitted"), nt=True, mech=f"is_separable:npt-declared-separable@[{s2}]", detail={"dims": "omitted", "site": s2})
    v3, s3 = ask_separable(ctx, rho, da, "npt-dim-int")
    if v3 is not None:
        ctx.check("O2b:npt-never-separable", v3 is False, sig=(da, db, "dim-int"), nt=True, mech=f"is_separable:npt-declared-separable@[{s3}]", detail={"dims": da, "site": s3})


def _run_inv(ctx, spec, rng):
    r = spec[1]
    da, db = [(2, 2), (2, 3), (3, 2), (3, 3), (2, 2), (2, 3)][r % 6]
    cplx = bool(r % 2)
    kind = r % 3
    if kind == 0:
        rho = gen.product_state_mixture(rng, da, db, int(rng.integers(1, 5)), cplx)
    elif kind == 1:
        rho = _npt_state(rng, da, db, cplx)
    else:
        big = da * db
        rho = 0.3 * gen.density(rng, big, big, cplx) + 0.7 * np.eye(big) / big
    if not cplx:
        rho = ref.herm(rho).real
    v0, s0 = ask_separable(ctx, rho, [da, db], "inv-base")
    if v0 is None:
        return
    ua, ub = gen.haar(rng, da, real=not cplx), gen.haar(rng, db, real=not cplx)
    uu = np.kron(ua, ub)
    rot = ref.herm(uu @ rho @ uu.conj().T)
    v1, s1 = ask_separable(ctx, rot if cplx else rot.real, [da, db], "inv-rotated")
    if v1 is not None:
        ctx.check("O2d:verdict-invariant", v1 == v0, sig=(da, db, kind, "local-unitary"), nt=True, mech="is_separable:verdict-changes-under-local-unitary",
                  detail={"dims": [da, db], "before": [v0, s0], "after": [v1, s1]})
    sw = ref.permute(rho, [1, 0], [da, db], [da, db])
    v2, s2 = ask_separable(ctx, sw, [db, da], "inv-exchanged")
    if v2 is not None:
        ctx.check("O2d:verdict-invariant", v2 == v0, sig=(da, db, kind, "party-exchange"), nt=True, mech="is_separable:verdict-changes-under-party-exchange",
                  detail={"dims": [da, db], "before": [v0, s0], "after": [v2, s2]})
    ctx.sample("O2d:verdict-invariant", {"dims": [da, db], "class": kind, "verdicts": [v0, v1, v2], "sites": [s0, s1, s2]})


def _run_ball(ctx, spec, rng):
    from toqito.state_props import in_separable_ball

    r = spec[1]
    d = int(rng.integers(2, 10))
    cplx = bool(r % 2)
    thr = 1.0 / (d - 1) if d > 1 else 1.0
    inside = bool((r // 2) % 2)
    # spectrum with Tr rho^2 = target
    target = thr * (0.9 if inside else 1.15)
    target = min(target, 0.999)
    if d == 2:
        # every qubit state has purity <= 1 = 1/(D-1): always inside
        inside, target = True, float(rng.uniform(0.5, 1.0))
    x = rng.normal(size=d)
    x -= x.mean()
    x /= np.linalg.norm(x)
    t = np.sqrt(max(0.0, target - 1.0 / d))
    ev = np.full(d, 1.0 / d) + t * x
    if ev.min() < 0:
        return ctx.note_inconclusive("ball-spectrum-not-positive")
    purity = float(np.sum(ev ** 2))
    want = purity <= thr
    if abs(purity - thr) < 0.03 * thr and d > 2:
        return ctx.note_inconclusive("ball-margin")
    u = gen.haar(rng, d, real=not cplx)
    scale = float(rng.uniform(0.5, 3.0))
    mat = scale * ref.herm((u * ev) @ u.conj().T)
    got = ctx.call(in_separable_ball, mat if cplx else mat.real)
    if got is not FAILED:
        ctx.check("O3:in_separable_ball", bool(got) == want, sig=(d, want, "matrix"), nt=True, mech=f"in_separable_ball:wrong-verdict[want={want}]",
                  detail={"D": d, "purity": purity, "threshold": thr, "got": bool(got)})
    got2 = ctx.call(in_separable_ball, scale * ev)
    if got2 is not FAILED:
        ctx.check("O3:in_separable_ball", bool(got2) == want, sig=(d, want, "eigenvalue-vector"), nt=True, mech=f"in_separable_ball:wrong-verdict-on-spectrum[want={want}]",
                  detail={"D": d, "purity": purity, "threshold": thr, "got": bool(got2)})
    ctx.sample("O3:in_separable_ball", {"D": d, "purity_of_normalised": purity, "threshold": thr, "expected": want})


def _run_symext(ctx, spec, rng):
    from toqito.state_props import has_symmetric_extension

    r = spec[1]
    da, db = [(2, 2), (2, 3), (3, 3), (2, 2), (3, 2), (2, 4)][r % 6]
    level = 1 + (r // 6) % 2
    cplx = bool(r % 2)
    rho = gen.product_state_mixture(rng, da, db, int(rng.integers(1, 6)), cplx)
    ppt = (r // 12) % 2 == 0  # the flag's default, and the search without the PPT constraint
    if ctx.tier == "quick" and r >= 24 and level > 1 and da * db > 6:
        return  # second lap of the quick tier: the cheap branches only
    kind = "mixture"
    if (r // 24) % 2:
        # separable by construction: a nearly pure state of the first party times a mixed state of the second, plus a little white noise
        a = gen.unit(rng, da, cplx)
        sig_b = gen.density(rng, db, db, cplx)
        eps = float(rng.choice([0.02, 0.1, 0.3]))
        rho = (1 - eps) * np.kron(np.outer(a, a.conj()), sig_b) + eps * np.eye(da * db) / (da * db)
        kind = "pure-x-mixed+noise"
    if not cplx:
        rho = rho.real
    tracer.clear_last("has_symmetric_extension")
    ctx.evals["solver-call"] += 1
    mech = "crash:has_symmetric_extension[dims-not-forwarded-to-hierarchy,unequal-dims]" if da != db and level > 1 and da * db > 6 else None
    ans = ctx.call(has_symmetric_extension, rho, level, [da, db], ppt, solver=True, mech=mech)
    if ans is FAILED:
        return
    site = tracer.last_site("has_symmetric_extension")
    branch = f"sdp-branch,{'N>6' if da * db > 6 else 'N<=6'},ppt={ppt}" if site and "isclose" in site else "shortcut-branch"
    ctx.check("O4:symmetric-extension-accepts-separable", bool(ans) is True, sig=(da, db, level, cplx, ppt, kind), nt=True,
              mech=f"has_symmetric_extension:rejects-separable-state[{branch}]", detail={"dims": [da, db], "level": level, "ppt": ppt, "kind": kind, "return_site": site})
    ctx.sample("O4:symmetric-extension-accepts-separable", {"dims": [da, db], "level": level, "answer": bool(ans), "return_site": site})
