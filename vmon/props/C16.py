"""C16 - matrix / state-set predicates and linear-algebra helpers match their definitions."""
from __future__ import annotations

import itertools

import numpy as np

from .. import gen, hcontracts, ref
from ..core import FAILED

PREDICATES = ["is_hermitian", "is_anti_hermitian", "is_symmetric", "is_normal", "is_unitary", "is_pseudo_unitary", "is_pseudo_hermitian",
              "is_positive_semidefinite", "is_positive_definite", "is_projection", "is_idempotent", "is_identity", "is_diagonal", "is_diagonally_dominant",
              "is_density", "is_square", "is_permutation", "is_circulant", "is_stochastic", "is_nonnegative", "is_positive", "is_commuting", "is_orthonormal",
              "is_linearly_independent", "is_totally_positive", "is_pure", "is_mixed", "is_ensemble", "is_mutually_orthogonal", "is_mutually_unbiased_basis",
              "is_unextendible_product_basis"]
DECIDING = ["pred:" + p for p in PREDICATES] + ["O2:vec-unvec", "O2:vec(AXB)", "O2:tensor", "O2:gram-round-trip", "O2:to_density_matrix", "O2:commutant",
                                                "O2:majorizes", "O2:spark", "O2:kp_norm", "O2:trace_norm"] + [
    "contract:" + n for n in ("vec", "unvec", "tensor", "to_density_matrix", "vectors_to_gram_matrix", "trace_norm", "is_hermitian", "is_identity",
                              "is_unitary", "is_positive_semidefinite", "is_density")]
RULE = ("for every predicate: matrices built to have the property exactly (sizes 1..6, real and complex), the same matrices with one defining equation broken by a "
        "margin delta in [1e-3, 1], and images under property-preserving transformations (unitary conjugation, permutation similarity, ...); helper identities on "
        "random conformable operands; signature (predicate, class, size, field); non-trivial = negatives and transformed positives; plus tolerance-rule cases at scales "
        "1e-4..1e4 a factor 4 inside / outside the documented allclose rule with defaulted, keyword and positional tolerances")
THOROUGH_REPEAT = 20  # the thorough tier runs its randomised case kinds this many times (new inputs each time)
ASSUMPTIONS = [
    "tolerance-rule cases: the documented rule is numpy.allclose's |a - b| <= atol + rtol |b| with defaults rtol=1e-5, atol=1e-8; verdicts are required only a "
    "factor 4 inside / outside it (worst entry), for is_hermitian, is_symmetric, is_anti_hermitian, is_identity and the Hermiticity gate of is_positive_semidefinite",
    "verdicts required only for exact positives (error <= 1e-12) and negatives violating by >= 1e-3; is_projection is read as idempotency with Hermitian-projector "
    "positives only; is_positive_definite positives are bitwise Hermitian",
    "helper identities: exact (array_equal) for index movement, 1e-9 relative for products, 1e-7 for Gram round trips through factorisations",
]


def cases(tier):
    out = []
    reps = 6 if tier == "quick" else 1500
    for p in PREDICATES:
        for r in range(reps):
            out.append(("pred", p, r))
    for r in range(60 if tier == "quick" else 12000):
        out.append(("tolrule", r))
    for h in ["vec", "tensor", "gram", "todm", "commutant", "majorizes", "spark", "norms"]:
        for r in range((48 if h == "spark" else 20) if tier == "quick" else 4000):
            out.append(("helper", h, r))
    for r in range(48 if tier == "quick" else 3000):
        out.append(("internal", r))
    if tier == "thorough":
        out.append(("suite", 0))
    return out


THOROUGH_REPEAT_SKIP = ("suite",)


def setup(ctx):
    hcontracts.install(ctx)


def run(ctx, spec, rng):
    if spec[0] == "pred":
        globals()["_p_" + spec[1]](ctx, spec[2], rng)
    elif spec[0] == "tolrule":
        _run_tolrule(ctx, spec[1], rng)
    elif spec[0] == "internal":
        _run_internal(ctx, spec[1], rng)
    elif spec[0] == "suite":
        from ..suiterun import run_suite_under_contract

        run_suite_under_contract(ctx, hcontracts.HELPER_CONTRACTS, "suite-under-contract")
    else:
        globals()["_h_" + spec[1]](ctx, spec[2], rng)


# ------------------------------------------------------------------------------------------------ internal calls of the helpers
def _run_internal(ctx, r, rng):
    """Drive library functions of other packages that call the helpers internally; the helper contracts (module hcontracts) decide every such call.

    Nothing is asserted about the outer functions here (their own properties do that); they only supply realistic internal arguments."""
    from toqito.channel_ops import apply_channel, choi_to_kraus, kraus_to_choi, natural_representation
    from toqito.channel_props import is_completely_positive, is_trace_preserving, is_unital
    from toqito.matrices import pauli
    from toqito.measurement_props import is_povm
    from toqito.perms import permute_systems
    from toqito.state_metrics import fidelity, helstrom_holevo, trace_distance
    from toqito.state_props import is_ensemble, is_ppt, l1_norm_coherence, negativity, purity, von_neumann_entropy
    from toqito.states import gen_bell

    cplx = bool(r % 2)
    d = 2 + r % 3
    kind = r % 8
    if kind == 0:
        a, b = int(rng.integers(2, 4)), int(rng.integers(2, 4))
        kr = [gen.rmat(rng, (b, a), cplx) for _ in range(1 + r % 3)]
        j = ctx.call(kraus_to_choi, kr)
        if j is not FAILED:
            ctx.call(choi_to_kraus, j, dim=[a, b] if a != b else None)
            ctx.call(apply_channel, gen.rmat(rng, (a, a), cplx), j if a == b else kr)
        ctx.call(natural_representation, kr)
    elif kind == 1:
        rho, sigma = gen.density(rng, d, cplx=cplx), gen.density(rng, d, cplx=cplx)
        for f in (fidelity, trace_distance, helstrom_holevo):
            ctx.call(f, rho, sigma)
        ctx.call(purity, rho)
        ctx.call(von_neumann_entropy, rho)
    elif kind == 2:
        a, b = int(rng.integers(2, 4)), int(rng.integers(2, 4))
        v = gen.unit(rng, a * b, cplx)
        ctx.call(negativity, v, [a, b])
        ctx.call(l1_norm_coherence, v)
        ctx.call(is_ppt, gen.density(rng, a * b, cplx=cplx), 2, [a, b])
    elif kind == 3:
        u = gen.haar(rng, d, not cplx)
        ctx.call(is_unital, [u])
        ctx.call(is_completely_positive, [u, gen.rmat(rng, (d, d), cplx)])
        ctx.call(is_trace_preserving, kraus_to_choi([u]))
    elif kind == 4:
        n = 2 + r % 2
        ctx.call(pauli, [int(t) for t in rng.integers(0, 4, size=n)])
        ctx.call(gen_bell, int(rng.integers(0, d)), int(rng.integers(0, d)), d)
    elif kind == 5:
        dims = [int(t) for t in rng.integers(2, 4, size=3)]
        p = [int(t) for t in rng.permutation(3)]
        ctx.call(permute_systems, gen.unit(rng, int(np.prod(dims)), cplx), p, dims)
    elif kind == 6:
        u = gen.haar(rng, d, not cplx)
        povm = [np.outer(u[:, i], u[:, i].conj()) for i in range(d)]
        ctx.call(is_povm, povm)
        povm[0] = povm[0] - 0.2 * np.eye(d)
        ctx.call(is_povm, povm)
    else:
        rhos = [gen.density(rng, d, cplx=cplx) for _ in range(3)]
        w = rng.dirichlet(np.ones(3))
        ctx.call(is_ensemble, [w[i] * rhos[i] for i in range(3)])


# ------------------------------------------------------------------------------------------------ documented tolerance rule
def _q(a, b, rtol, atol):
    """Defect of "a == b" relative to the documented numpy.allclose rule |a - b| <= atol + rtol |b| (worst entry)."""
    num = np.abs(a - b)
    den = atol + rtol * np.abs(b)
    with np.errstate(divide="ignore", invalid="ignore"):
        q = np.where(num == 0, 0.0, np.where(den > 0, num / den, np.inf))
    return float(q.max())


TOL_FORMS = {
    "is_hermitian": lambda m: (m, m.conj().T),
    "is_symmetric": lambda m: (m, m.T),
    "is_anti_hermitian": lambda m: (1j * m, (1j * m).conj().T),
    "is_identity": lambda m: (m, np.eye(m.shape[0])),
    "is_positive_semidefinite": lambda m: (m, m.conj().T),
}


def _run_tolrule(ctx, r, rng):
    """Matrices at scales 1e-4 .. 1e4 that meet / miss the defining equation by a factor 4 on either side of the documented tolerance
    rule |a - b| <= atol + rtol |b|, with the tolerances defaulted, given by keyword and given positionally in the documented order."""
    name = list(TOL_FORMS)[r % len(TOL_FORMS)]
    d = int(rng.integers(2, 6))
    cplx = bool(rng.integers(0, 2)) and name != "is_symmetric"
    scale = [1e-4, 1e-2, 1.0, 1e2, 1e4][int(rng.integers(0, 5))]
    if name == "is_identity":
        scale = 1.0
        base = np.eye(d, dtype=complex if cplx else float)
    elif name == "is_positive_semidefinite":
        g = gen.rmat(rng, (d, d), cplx)
        base = scale * ref.herm(g @ g.conj().T + d * np.eye(d))
    elif name == "is_symmetric":
        g = rng.uniform(0.5, 1.5, size=(d, d)) * rng.choice([-1, 1], size=(d, d))
        base = scale * (g + g.T) / 2
    else:
        g = rng.uniform(0.5, 1.5, size=(d, d)) * rng.choice([-1, 1], size=(d, d)) + (1j * rng.uniform(0.5, 1.5, size=(d, d)) if cplx else 0)
        base = scale * ref.herm(g)
        if name == "is_anti_hermitian":
            base = 1j * base
    tols = [("default", None, None), ("atol-only", 0.0, float(10.0 ** rng.integers(-6, -1)) * scale), ("rtol-only", float(10.0 ** rng.integers(-6, -1)), 0.0),
            ("both", float(10.0 ** rng.integers(-7, -2)), float(10.0 ** rng.integers(-9, -3)))]
    label, rtol, atol = tols[int(rng.integers(0, len(tols)))]
    if name == "is_identity" and label == "rtol-only":
        label, rtol, atol = tols[0]  # off-diagonal targets are 0: a purely relative tolerance admits nothing there
    eff_r, eff_a = (1e-5, 1e-8) if rtol is None else (rtol, atol)
    i, j = (int(v) for v in rng.permutation(d)[:2])
    for side, factor in (("inside", 0.25), ("outside", 4.0)):
        m = np.array(base, dtype=complex if (cplx or name == "is_anti_hermitian") else float)
        a0, b0 = TOL_FORMS[name](m)
        target = factor * (eff_a + eff_r * abs(b0[i, j]))
        m[i, j] += target
        a1, b1 = TOL_FORMS[name](m)
        q = _q(a1, b1, eff_r, eff_a)
        if not (q <= 0.5 or q >= 2):
            ctx.evals["tolrule:margin-unclear"] += 1
            continue
        want = q <= 0.5
        form = "default" if rtol is None else ["keyword", "positional"][int(rng.integers(0, 2))]
        args, kw = (m,), {}
        if form == "keyword":
            kw = {"rtol": rtol, "atol": atol}
        elif form == "positional":
            args = (m, rtol, atol)
        got = ctx.call(_fn(name), *args, **kw)
        if got is FAILED:
            continue
        ctx.check("pred:" + name, bool(got) == want, sig=("tolrule", label, form, side, scale), nt=True, mech=f"{name}:verdict-ignores-documented-tolerance-rule[{label},{form}]",
                  detail={"predicate": name, "scale": scale, "rtol": rtol, "atol": atol, "form": form, "side": side, "defect/tolerance": q, "want": want, "got": bool(got)})
    ctx.sample("pred:" + name, {"class": "tolerance-rule", "scale": scale, "tolerances": label})


# ------------------------------------------------------------------------------------------------ predicate plumbing
def _fn(name):
    import toqito.matrix_props as mp
    import toqito.state_props as sp

    return getattr(mp, name, None) or getattr(sp, name)


def ask(ctx, name, args, want, cls, size, cplx, kwargs=None, nt=True, mech=None):
    got = ctx.call(_fn(name), *args, **(kwargs or {}))
    if got is FAILED:
        return
    if isinstance(got, tuple):
        got = got[0]
    ctx.check("pred:" + name, bool(got) == want, sig=(cls, size, cplx), nt=nt, mech=mech or f"{name}:wrong-verdict[{cls}]",
              detail={"class": cls, "size": size, "complex": cplx, "want": want, "got": bool(got), "args": args})
    if cls.startswith("pos"):
        ctx.sample("pred:" + name, {"class": cls, "size": size, "complex": cplx, "verdict": bool(got)})


def _setup(r, rng, lo=1, hi=6):
    d = lo + (r % (hi - lo + 1))
    cplx = bool((r // 7) % 2)
    delta = [1e-3, 1e-2, 0.1, 1.0][r % 4]
    return d, cplx, delta


def _p_is_hermitian(ctx, r, rng):
    d, cplx, delta = _setup(r, rng)
    h = gen.hermitian(rng, d, cplx)
    u = gen.haar(rng, d, real=not cplx)
    ask(ctx, "is_hermitian", (h,), True, "pos", d, cplx, nt=False)
    ask(ctx, "is_hermitian", (u @ h @ u.conj().T,), True, "pos-conjugated", d, cplx)
    if d >= 2:
        bad = h.astype(complex)
        bad[0, 1] += delta
        ask(ctx, "is_hermitian", (bad,), False, "neg-offdiag", d, cplx)
    bad2 = h.astype(complex)
    bad2[0, 0] += 1j * delta
    ask(ctx, "is_hermitian", (bad2,), False, "neg-imag-diagonal", d, True)
    ask(ctx, "is_hermitian", (gen.rc(rng, d, d + 1),), False, "neg-nonsquare", d, True)


def _p_is_anti_hermitian(ctx, r, rng):
    d, cplx, delta = _setup(r, rng)
    g = gen.rmat(rng, (d, d), cplx)
    a = (g - g.conj().T) / 2
    u = gen.haar(rng, d, real=not cplx)
    ask(ctx, "is_anti_hermitian", (a,), True, "pos", d, cplx, nt=False)
    ask(ctx, "is_anti_hermitian", (u @ a @ u.conj().T,), True, "pos-conjugated", d, cplx)
    bad = a.astype(complex)
    bad[0, 0] += delta
    ask(ctx, "is_anti_hermitian", (bad,), False, "neg-real-diagonal", d, cplx)
    if d >= 2:
        ask(ctx, "is_anti_hermitian", (gen.hermitian(rng, d, cplx) + np.eye(d),), False, "neg-hermitian", d, cplx)


def _p_is_symmetric(ctx, r, rng):
    d, cplx, delta = _setup(r, rng)
    g = gen.rmat(rng, (d, d), cplx)
    s = g + g.T
    o = gen.haar(rng, d, real=True)
    ask(ctx, "is_symmetric", (s,), True, "pos", d, cplx, nt=False)
    ask(ctx, "is_symmetric", (o @ s @ o.T,), True, "pos-orthogonal-congruence", d, cplx)
    if d >= 2:
        bad = s.copy()
        bad[0, 1] += delta
        ask(ctx, "is_symmetric", (bad,), False, "neg", d, cplx)
        if cplx:
            h = gen.hermitian(rng, d, True)
            if abs(h[0, 1].imag) > 1e-2:
                ask(ctx, "is_symmetric", (h,), False, "neg-hermitian-not-symmetric", d, True)


def _p_is_normal(ctx, r, rng):
    d, cplx, delta = _setup(r, rng)
    u = gen.haar(rng, d, real=False)
    z = np.arange(1, d + 1) * (1.0 + 0.5j)
    n = (u * z) @ u.conj().T
    ask(ctx, "is_normal", (n,), True, "pos", d, True, nt=False)
    v = gen.haar(rng, d)
    ask(ctx, "is_normal", (v @ n @ v.conj().T,), True, "pos-conjugated", d, True)
    ask(ctx, "is_normal", (gen.haar(rng, d, real=not cplx),), True, "pos-unitary", d, cplx)
    if d >= 2:
        t = np.diag(z).astype(complex)
        t[0, 1] = max(delta, 1e-2)
        ask(ctx, "is_normal", (u @ t @ u.conj().T,), False, "neg-triangular", d, True)


def _p_is_unitary(ctx, r, rng):
    d, cplx, delta = _setup(r, rng)
    u = gen.haar(rng, d, real=not cplx)
    ask(ctx, "is_unitary", (u,), True, "pos", d, cplx, nt=False)
    ask(ctx, "is_unitary", (gen.haar(rng, d, real=not cplx) @ u @ gen.haar(rng, d, real=not cplx),), True, "pos-product", d, cplx)
    ask(ctx, "is_unitary", ((1 + delta) * u,), False, "neg-scaled", d, cplx)
    if d >= 2:
        bad = u.copy()
        bad[:, 0] = bad[:, 0] + delta * bad[:, 1]
        ask(ctx, "is_unitary", (bad,), False, "neg-sheared", d, cplx)
        ask(ctx, "is_unitary", (u[:, : d - 1],), False, "neg-isometry-nonsquare", d, cplx)


def _p_is_pseudo_unitary(ctx, r, rng):
    d, cplx, delta = _setup(r, rng, 2, 6)
    p = 1 + r % (d - 1)
    q = d - p
    blk = np.zeros((d, d), dtype=complex)
    blk[:p, :p] = gen.haar(rng, p, real=not cplx)
    blk[p:, p:] = gen.haar(rng, q, real=not cplx)
    t = float(rng.uniform(0.1, 1.0))
    boost = np.eye(d, dtype=complex)
    boost[0, 0] = boost[p, p] = np.cosh(t)
    boost[0, p] = boost[p, 0] = np.sinh(t)
    ask(ctx, "is_pseudo_unitary", (blk, p, q), True, "pos-block", d, cplx, nt=False)
    ask(ctx, "is_pseudo_unitary", (boost, p, q), True, "pos-boost", d, False)
    ask(ctx, "is_pseudo_unitary", (blk @ boost, p, q), True, "pos-product", d, cplx)
    ask(ctx, "is_pseudo_unitary", ((1 + delta) * blk, p, q), False, "neg-scaled", d, cplx)
    rot = np.eye(d)
    c, s = np.cos(0.3), np.sin(0.3)
    rot[0, 0] = rot[p, p] = c
    rot[0, p], rot[p, 0] = -s, s
    ask(ctx, "is_pseudo_unitary", (rot, p, q), False, "neg-rotation-mixing-signature", d, False)
    ask(ctx, "is_pseudo_unitary", (blk, p + 1, q), False, "neg-wrong-signature-size", d, cplx)
    # signatures with an explicit zero: J = 1 (p = d, q = 0) and J = -1 (p = 0, q = d) make "pseudo-unitary" mean unitary; a zero together with a
    # signature shorter than the matrix is a size mismatch whatever the matrix (a zero must not be read as "not given")
    u = gen.haar(rng, d, real=not cplx)
    ask(ctx, "is_pseudo_unitary", (u, d, 0), True, "pos-unitary-q=0", d, cplx)
    ask(ctx, "is_pseudo_unitary", (u, 0, d), True, "pos-unitary-p=0", d, cplx)
    ask(ctx, "is_pseudo_unitary", ((1 + delta) * u, d, 0), False, "neg-scaled-unitary-q=0", d, cplx)
    ask(ctx, "is_pseudo_unitary", (boost, d, 0), False, "neg-boost-with-trivial-signature", d, False)
    for m_, cls_ in ((blk, "block"), (boost, "boost"), (blk @ boost, "product")):
        ask(ctx, "is_pseudo_unitary", (m_, p, 0), False, f"neg-{cls_}-q=0-short-signature", d, cplx)
        ask(ctx, "is_pseudo_unitary", (m_, 0, q), False, f"neg-{cls_}-p=0-short-signature", d, cplx)


def _p_is_pseudo_hermitian(ctx, r, rng):
    d, cplx, delta = _setup(r, rng, 2, 6)
    if r % 2:
        eta = np.diag(np.where(np.arange(d) < d // 2 + 1, 1.0, -1.0)).astype(complex)
    else:
        eta = gen.hermitian(rng, d, cplx) + 3 * np.eye(d)
    s = gen.hermitian(rng, d, cplx)
    h = np.linalg.inv(eta) @ s
    ask(ctx, "is_pseudo_hermitian", (h, eta), True, "pos", d, cplx, nt=False)
    ask(ctx, "is_pseudo_hermitian", (2.5 * h, eta), True, "pos-scaled", d, cplx)
    bad = h + delta * gen.rc(rng, d, d) / d
    gap = float(np.abs(eta @ bad @ np.linalg.inv(eta) - bad.conj().T).max())
    if gap > 1e-3:
        ask(ctx, "is_pseudo_hermitian", (bad, eta), False, "neg", d, cplx)


def _p_is_positive_semidefinite(ctx, r, rng):
    d, cplx, delta = _setup(r, rng)
    p = gen.psd(rng, d, 1 + r % d, cplx)
    u = gen.haar(rng, d, real=not cplx)
    ask(ctx, "is_positive_semidefinite", (p,), True, "pos", d, cplx, nt=False)
    ask(ctx, "is_positive_semidefinite", (ref.herm(u @ p @ u.conj().T),), True, "pos-conjugated", d, cplx)
    ask(ctx, "is_positive_semidefinite", (np.zeros((d, d)),), True, "pos-zero", d, False)
    w = np.abs(rng.normal(size=d)) + 0.1
    w[0] = -delta
    ask(ctx, "is_positive_semidefinite", (ref.herm((u * w) @ u.conj().T),), False, "neg-eigenvalue", d, cplx)
    if d >= 2:
        bad = p.astype(complex)
        bad[0, 1] += 1.0
        ask(ctx, "is_positive_semidefinite", (bad,), False, "neg-not-hermitian", d, cplx)


def _p_is_positive_definite(ctx, r, rng):
    d, cplx, delta = _setup(r, rng)
    p = gen.psd(rng, d, d, cplx) + 0.1 * np.eye(d)
    p = (p + p.conj().T) / 2
    u = gen.haar(rng, d, real=not cplx)
    ask(ctx, "is_positive_definite", (p,), True, "pos", d, cplx, nt=False)
    q = u @ p @ u.conj().T
    ask(ctx, "is_positive_definite", ((q + q.conj().T) / 2,), True, "pos-conjugated", d, cplx)
    w = np.abs(rng.normal(size=d)) + 0.1
    w[0] = -delta
    n = (u * w) @ u.conj().T
    ask(ctx, "is_positive_definite", ((n + n.conj().T) / 2,), False, "neg-eigenvalue", d, cplx)
    if d >= 2:
        bad = p.astype(complex)
        bad[0, 1] += 1.0
        ask(ctx, "is_positive_definite", (bad,), False, "neg-not-hermitian", d, cplx)


def _projector(rng, d, k, cplx):
    u = gen.haar(rng, d, real=not cplx)
    return u[:, :k] @ u[:, :k].conj().T


def _p_is_projection(ctx, r, rng):
    d, cplx, delta = _setup(r, rng)
    k = r % (d + 1)
    p = _projector(rng, d, k, cplx)
    u = gen.haar(rng, d, real=not cplx)
    ask(ctx, "is_projection", (p,), True, "pos", d, cplx, nt=False)
    ask(ctx, "is_projection", (u @ p @ u.conj().T,), True, "pos-conjugated", d, cplx)
    ask(ctx, "is_projection", (p + min(delta, 0.5) * np.eye(d),), False, "neg-shifted", d, cplx)  # (shift 1 on the zero projector would give the identity)
    ask(ctx, "is_projection", ((1 + delta) * np.eye(d),), False, "neg-scaled-identity", d, cplx)
    ask(ctx, "is_projection", (np.ones((d, d + 1)),), False, "neg-nonsquare", d, False)


def _p_is_idempotent(ctx, r, rng):
    d, cplx, delta = _setup(r, rng)
    k = r % (d + 1)
    p = _projector(rng, d, k, cplx)
    ask(ctx, "is_idempotent", (p,), True, "pos", d, cplx, nt=False)
    s = gen.rmat(rng, (d, d), cplx) + 2 * np.eye(d)
    if np.linalg.cond(s) < 50:
        ob = s @ np.diag((np.arange(d) < k).astype(float)) @ np.linalg.inv(s)
        ask(ctx, "is_idempotent", (ob,), True, "pos-oblique", d, cplx)
    ask(ctx, "is_idempotent", (p + min(delta, 0.5) * np.eye(d),), False, "neg-shifted", d, cplx)
    ask(ctx, "is_idempotent", (np.ones((d + 1, d)),), False, "neg-nonsquare", d, False)


def _p_is_identity(ctx, r, rng):
    d, cplx, delta = _setup(r, rng)
    ask(ctx, "is_identity", (np.eye(d),), True, "pos", d, False, nt=False)
    ask(ctx, "is_identity", (np.eye(d, dtype=complex),), True, "pos-complex-dtype", d, True)
    bad = np.eye(d, dtype=complex if cplx else float)
    bad[0, 0] += delta
    ask(ctx, "is_identity", (bad,), False, "neg-diagonal", d, cplx)
    if d >= 2:
        bad2 = np.eye(d, dtype=complex if cplx else float)
        bad2[0, d - 1] = delta * (1j if cplx else 1)
        ask(ctx, "is_identity", (bad2,), False, "neg-offdiag", d, cplx)
        ask(ctx, "is_identity", (np.eye(d)[:, : d - 1],), False, "neg-nonsquare", d, False)


def _p_is_diagonal(ctx, r, rng):
    d, cplx, delta = _setup(r, rng)
    dg = np.diag(gen.rmat(rng, (d,), cplx))
    ask(ctx, "is_diagonal", (dg,), True, "pos", d, cplx, nt=False)
    perm = rng.permutation(d)
    pm = np.eye(d)[perm]
    ask(ctx, "is_diagonal", (pm @ dg @ pm.T,), True, "pos-permutation-similarity", d, cplx)
    if d >= 2:
        bad = dg.copy()
        bad[d - 1, 0] = delta
        ask(ctx, "is_diagonal", (bad,), False, "neg", d, cplx)


def _p_is_diagonally_dominant(ctx, r, rng):
    d, cplx, delta = _setup(r, rng, 2, 6)
    a = gen.rmat(rng, (d, d), cplx)
    off = np.abs(a).sum(axis=1) - np.abs(np.diag(a))
    pos = a.copy()
    np.fill_diagonal(pos, (off * (1 + delta) + delta) * (np.exp(1j * rng.random(d)) if cplx else np.sign(rng.normal(size=d))))
    perm = rng.permutation(d)
    pm = np.eye(d)[perm]
    ask(ctx, "is_diagonally_dominant", (pos,), True, "pos-strict", d, cplx, nt=False)
    ask(ctx, "is_diagonally_dominant", (pm @ pos @ pm.T,), True, "pos-permutation-similarity", d, cplx)
    ask(ctx, "is_diagonally_dominant", (pos, False), True, "pos-nonstrict-flag", d, cplx)
    neg = pos.copy()
    neg[0, 0] = max(off[0] - delta, 0) * 0.9
    if off[0] - abs(neg[0, 0]) > 1e-3:
        ask(ctx, "is_diagonally_dominant", (neg,), False, "neg", d, cplx)
        ask(ctx, "is_diagonally_dominant", (neg, False), False, "neg-nonstrict-flag", d, cplx)
    eq = rng.integers(1, 4, size=(d, d)).astype(float)
    np.fill_diagonal(eq, 0)
    np.fill_diagonal(eq, eq.sum(axis=1))  # exact equality on every row (integers)
    ask(ctx, "is_diagonally_dominant", (eq, True), False, "boundary-strict", d, False)
    ask(ctx, "is_diagonally_dominant", (eq, False), True, "boundary-nonstrict", d, False)
    ask(ctx, "is_diagonally_dominant", (np.ones((d, d + 1)),), False, "neg-nonsquare", d, False)


def _p_is_density(ctx, r, rng):
    d, cplx, delta = _setup(r, rng)
    rho = gen.density(rng, d, 1 + r % d, cplx)
    u = gen.haar(rng, d, real=not cplx)
    ask(ctx, "is_density", (rho,), True, "pos", d, cplx, nt=False)
    ask(ctx, "is_density", (ref.herm(u @ rho @ u.conj().T),), True, "pos-conjugated", d, cplx)
    ask(ctx, "is_density", ((1 + max(delta, 1e-3)) * rho,), False, "neg-trace", d, cplx)
    if d >= 2:
        w = np.abs(rng.normal(size=d)) + 0.1
        w[0] = -max(delta, 1e-2)
        w[1:] *= (1 - w[0]) / w[1:].sum()
        ask(ctx, "is_density", (ref.herm((u * w) @ u.conj().T),), False, "neg-eigenvalue", d, cplx)


def _p_is_square(ctx, r, rng):
    d, cplx, _ = _setup(r, rng)
    ask(ctx, "is_square", (gen.rmat(rng, (d, d), cplx),), True, "pos", d, cplx, nt=False)
    ask(ctx, "is_square", (gen.rmat(rng, (d, d + 1 + r % 3), cplx),), False, "neg-wide", d, cplx)
    ask(ctx, "is_square", (gen.rmat(rng, (d + 1 + r % 3, d), cplx),), False, "neg-tall", d, cplx)


def _p_is_permutation(ctx, r, rng):
    d, _, _ = _setup(r, rng)
    pm = np.eye(d)[rng.permutation(d)]
    ask(ctx, "is_permutation", (pm,), True, "pos-float", d, False, nt=False)
    ask(ctx, "is_permutation", (pm.astype(int),), True, "pos-int", d, False)
    ask(ctx, "is_permutation", (pm[rng.permutation(d)][:, rng.permutation(d)],), True, "pos-row-col-permuted", d, False)
    if d >= 2:
        bad = pm.copy()
        bad[0] = bad[1]
        ask(ctx, "is_permutation", (bad,), False, "neg-duplicate-row", d, False)
        bad2 = pm.copy()
        i, j = np.argwhere(pm == 1)[0]
        bad2[i, j] = 0.5
        bad2[i, (j + 1) % d] = 0.5
        ask(ctx, "is_permutation", (bad2,), False, "neg-doubly-stochastic", d, False)
    bad3 = pm.copy()
    i, j = np.argwhere(pm == 1)[0]
    bad3[i, j] = 2
    ask(ctx, "is_permutation", (bad3,), False, "neg-entry-2", d, False)


def _p_is_circulant(ctx, r, rng):
    from scipy.linalg import circulant

    d, cplx, delta = _setup(r, rng)
    c = circulant(gen.rmat(rng, (d,), cplx))
    ask(ctx, "is_circulant", (c,), True, "pos", d, cplx, nt=False)
    shift = np.roll(np.eye(d), 1, axis=0)
    ask(ctx, "is_circulant", (shift @ c @ shift.T,), True, "pos-cyclic-similarity", d, cplx)
    ask(ctx, "is_circulant", (c @ circulant(gen.rmat(rng, (d,), cplx)),), True, "pos-product", d, cplx)
    if d >= 2:
        bad = c.copy()
        bad[d - 1, 0] += delta
        ask(ctx, "is_circulant", (bad,), False, "neg", d, cplx)
        ask(ctx, "is_circulant", (c.T[:, ::-1] if d >= 3 and not np.allclose(c.T[:, ::-1], c) and False else bad,), False, "neg-repeat", d, cplx, nt=False)
    ask(ctx, "is_circulant", (np.ones((d, d + 1)),), False, "neg-nonsquare", d, False)


def _p_is_stochastic(ctx, r, rng):
    d, _, delta = _setup(r, rng)
    a = rng.random((d, d)) + 0.01
    right = a / a.sum(axis=1, keepdims=True)
    left = a / a.sum(axis=0, keepdims=True)
    w = rng.random(4) + 0.1
    w /= w.sum()
    doubly = sum(w[i] * np.eye(d)[rng.permutation(d)] for i in range(4))
    pm = np.eye(d)[rng.permutation(d)]
    ask(ctx, "is_stochastic", (right, "right"), True, "pos-right", d, False, nt=False)
    ask(ctx, "is_stochastic", (left, "left"), True, "pos-left", d, False)
    ask(ctx, "is_stochastic", (doubly, "doubly"), True, "pos-doubly", d, False)
    ask(ctx, "is_stochastic", (pm @ doubly @ pm.T, "doubly"), True, "pos-doubly-permuted", d, False)
    ask(ctx, "is_stochastic", (right.T, "left"), True, "pos-transposed", d, False)
    if d >= 2:
        gap = float(np.abs(right.sum(axis=0) - 1).max())
        if gap > 1e-3:
            ask(ctx, "is_stochastic", (right, "left"), False, "neg-right-asked-left", d, False)
            ask(ctx, "is_stochastic", (right, "doubly"), False, "neg-right-asked-doubly", d, False)
    bad = right.copy()
    bad[0] *= 1 + delta
    ask(ctx, "is_stochastic", (bad, "right"), False, "neg-row-sum", d, False)
    if d >= 2:
        neg = right.copy()
        neg[0, 0], neg[0, 1] = -delta, right[0, 1] + right[0, 0] + delta
        ask(ctx, "is_stochastic", (neg, "right"), False, "neg-negative-entry", d, False)
    res = ctx.call(_fn("is_stochastic"), right, "row", expect=(TypeError,))
    if res is not FAILED:
        ctx.check("pred:is_stochastic", isinstance(res, TypeError), sig=("bad-type",), mech="is_stochastic:accepts-unknown-type", detail={})


def _p_is_nonnegative(ctx, r, rng):
    d, _, delta = _setup(r, rng)
    a = rng.random((d, d))
    a[rng.random((d, d)) < 0.2] = 0.0
    ask(ctx, "is_nonnegative", (a,), True, "pos", d, False, nt=False)
    ask(ctx, "is_nonnegative", (a.T,), True, "pos-transposed", d, False)
    bad = a.copy()
    bad[d - 1, 0] = -delta
    ask(ctx, "is_nonnegative", (bad,), False, "neg", d, False)
    g = rng.random((d, d))
    dn = g @ g.T
    ask(ctx, "is_nonnegative", (dn, "doubly"), True, "pos-doubly", d, False)
    if d >= 2:
        x = np.zeros((d, d))
        x[0, 1] = x[1, 0] = 1.0
        ask(ctx, "is_nonnegative", (x, "doubly"), False, "neg-doubly-not-psd", d, False)
        ask(ctx, "is_nonnegative", (x,), True, "pos-not-psd-but-nonnegative", d, False)


def _p_is_positive(ctx, r, rng):
    d, _, delta = _setup(r, rng)
    a = rng.random((d, d)) + 0.01
    ask(ctx, "is_positive", (a,), True, "pos", d, False, nt=False)
    ask(ctx, "is_positive", (3 * a.T,), True, "pos-scaled-transposed", d, False)
    bad = a.copy()
    bad[0, d - 1] = -delta
    ask(ctx, "is_positive", (bad,), False, "neg", d, False)
    z = a.copy()
    z[d - 1, 0] = 0.0
    ask(ctx, "is_positive", (z,), False, "neg-zero-entry", d, False)


def _p_is_commuting(ctx, r, rng):
    d, cplx, delta = _setup(r, rng)
    u = gen.haar(rng, d, real=not cplx)
    a = (u * rng.normal(size=d)) @ u.conj().T
    b = (u * rng.normal(size=d)) @ u.conj().T
    ask(ctx, "is_commuting", (a, b), True, "pos-simultaneously-diagonal", d, cplx, nt=False)
    g = gen.rmat(rng, (d, d), cplx)
    ask(ctx, "is_commuting", (g, g @ g + 2 * g), True, "pos-polynomial", d, cplx)
    v = gen.haar(rng, d, real=not cplx)
    ask(ctx, "is_commuting", (v @ a @ v.conj().T, v @ b @ v.conj().T), True, "pos-conjugated", d, cplx)
    if d >= 2:
        c, e = gen.rmat(rng, (d, d), cplx), gen.rmat(rng, (d, d), cplx)
        if float(np.abs(c @ e - e @ c).max()) > 1e-2:
            ask(ctx, "is_commuting", (c, e), False, "neg-generic", d, cplx)


def _p_is_orthonormal(ctx, r, rng):
    d, cplx, delta = _setup(r, rng, 2, 6)
    k = 2 + r % (d - 1)
    u = gen.haar(rng, d, real=not cplx)
    rows = u[:k, :].copy()
    ask(ctx, "is_orthonormal", (rows,), True, "pos", d, cplx, nt=False)
    # fewer vectors than the dimension: the k x k Gram matrix is the identity, the d x d frame operator is not (a single vector is rejected by
    # is_mutually_orthogonal, "at least two vectors", by design - not probed)
    for k2 in sorted({d - 1, d - 2} - {0, 1, -1}):
        ask(ctx, "is_orthonormal", (u[:k2, :].copy(),), True, "pos-fewer-than-dimension", d, cplx)
    if d >= 3:
        short = u[: d - 1, :].copy()
        short[0] *= 1 + max(delta, 1e-3)
        ask(ctx, "is_orthonormal", (short,), False, "neg-fewer-than-dimension-not-normalised", d, cplx)
    v = gen.haar(rng, d, real=not cplx)
    ask(ctx, "is_orthonormal", (rows @ v,), True, "pos-rotated", d, cplx)
    bad = rows.copy()
    bad[0] *= 1 + max(delta, 1e-3)
    ask(ctx, "is_orthonormal", (bad,), False, "neg-not-normalised", d, cplx)
    bad2 = rows.copy()
    bad2[1] = (rows[1] + max(delta, 1e-2) * rows[0])
    bad2[1] /= np.linalg.norm(bad2[1])
    ask(ctx, "is_orthonormal", (bad2,), False, "neg-not-orthogonal", d, cplx)
    if k >= 3:  # the only non-orthogonal pair is the first and the last vector
        bad3 = rows.copy()
        bad3[-1] = rows[-1] + max(delta, 1e-2) * rows[0]
        bad3[-1] /= np.linalg.norm(bad3[-1])
        ask(ctx, "is_orthonormal", (bad3,), False, "neg-first-and-last-not-orthogonal", d, cplx)


def _p_is_linearly_independent(ctx, r, rng):
    d, cplx, _ = _setup(r, rng, 2, 6)
    k = 1 + r % d
    while True:
        m = gen.rmat(rng, (d, k), cplx)
        if np.linalg.svd(m, compute_uv=False).min() > 0.1:
            break
    vecs = [m[:, i].copy() for i in range(k)]
    ask(ctx, "is_linearly_independent", (vecs,), True, "pos", d, cplx, nt=False)
    ask(ctx, "is_linearly_independent", ([gen.haar(rng, d, real=not cplx) @ v for v in vecs],), True, "pos-rotated", d, cplx)
    dep = vecs + [sum((i + 1) * v for i, v in enumerate(vecs))]
    # numpy's default rank threshold (sigma_max * max(M, N) * eps) is occasionally below the rounding noise of the SVD itself: an exactly dependent
    # set whose smallest singular value comes out as ~1.5e-15 is then counted as independent.  Classified by that mechanism (known finding).
    sv = np.linalg.svd(np.column_stack(dep), compute_uv=False)
    noise = sv[-1] <= 1e-13 * sv[0] and sv[-1] > sv[0] * max(np.column_stack(dep).shape) * np.finfo(float).eps
    ask(ctx, "is_linearly_independent", (dep,), False, "neg-exact-combination", d, cplx,
        mech="is_linearly_independent:dependent-set-declared-independent[rounding-level-singular-value-above-numpy-default-rank-threshold]" if noise else None)
    ask(ctx, "is_linearly_independent", ([gen.rmat(rng, (d,), cplx) for _ in range(d + 1)],), False, "neg-more-than-dimension", d, cplx)
    ask(ctx, "is_linearly_independent", (vecs + [np.zeros(d)],), False, "neg-zero-vector", d, cplx)


def _p_is_totally_positive(ctx, r, rng):
    from scipy.linalg import pascal

    d = 2 + r % 4
    kind = r % 3
    if kind == 0:
        m = pascal(d).astype(float)
    elif kind == 1:
        x = np.arange(1, d + 1, dtype=float)
        m = np.vander(x, d, increasing=True)
    else:
        x = np.arange(1, d + 1, dtype=float)
        m = np.exp(np.outer(x, x) * 0.5)
        if d > 3:
            m = pascal(d).astype(float)
    ask(ctx, "is_totally_positive", (m,), True, "pos", d, False, nt=False)
    ask(ctx, "is_totally_positive", (m.T,), True, "pos-transposed", d, False)
    dg = np.diag(rng.random(d) + 0.5)
    ask(ctx, "is_totally_positive", (dg @ m @ dg,), True, "pos-positive-diagonal-scaling", d, False)
    swapped = m[[1, 0] + list(range(2, d))]
    ask(ctx, "is_totally_positive", (swapped,), False, "neg-rows-swapped", d, False)
    bad = m.copy()
    bad[0, d - 1] = -0.5
    ask(ctx, "is_totally_positive", (bad,), False, "neg-entry", d, False)
    ask(ctx, "is_totally_positive", (m[:, : d - 1],), True, "pos-rectangular-submatrix", d, False)


def _p_is_pure(ctx, r, rng):
    d, cplx, _ = _setup(r, rng, 2, 6)
    v = gen.unit(rng, d, cplx)
    rho = np.outer(v, v.conj())
    mixed = gen.density(rng, d, d, cplx)
    lam = float(np.linalg.eigvalsh(mixed).max())
    ask(ctx, "is_pure", (rho,), True, "pos", d, cplx, nt=False)
    u = gen.haar(rng, d, real=not cplx)
    ask(ctx, "is_pure", (u @ rho @ u.conj().T,), True, "pos-conjugated", d, cplx)
    ask(ctx, "is_pure", ([rho, u @ rho @ u.conj().T],), True, "pos-list", d, cplx)
    if lam < 0.95:
        ask(ctx, "is_pure", (mixed,), False, "neg-mixed", d, cplx)
        ask(ctx, "is_pure", ([rho, mixed],), False, "neg-list-with-mixed", d, cplx)
        ask(ctx, "is_mixed", (mixed,), True, "pos-mixed", d, cplx)
    ask(ctx, "is_mixed", (rho,), False, "neg-pure", d, cplx)


_p_is_mixed = _p_is_pure


def _p_is_ensemble(ctx, r, rng):
    d, cplx, delta = _setup(r, rng, 2, 5)
    n = 2 + r % 3
    p = gen.prior(rng, n)
    sts = [p[i] * gen.density(rng, d, 1 + (r + i) % d, cplx) for i in range(n)]
    ask(ctx, "is_ensemble", (sts,), True, "pos", d, cplx, nt=False)
    u = gen.haar(rng, d, real=not cplx)
    ask(ctx, "is_ensemble", ([ref.herm(u @ s @ u.conj().T) for s in sts][::-1],), True, "pos-conjugated-reordered", d, cplx)
    ask(ctx, "is_ensemble", ([(1 + max(delta, 1e-3)) * s for s in sts],), False, "neg-total-trace", d, cplx)
    w = np.abs(rng.normal(size=d)) + 0.1
    w[0] = -max(delta, 1e-2)
    bad = ref.herm((u * w) @ u.conj().T)
    bad = bad / np.trace(bad).real * p[0]
    ask(ctx, "is_ensemble", ([bad] + sts[1:],), False, "neg-not-psd-member", d, cplx)


def _p_is_mutually_orthogonal(ctx, r, rng):
    d, cplx, delta = _setup(r, rng, 2, 6)
    k = 2 + r % (d - 1)
    u = gen.haar(rng, d, real=not cplx)
    cols = [u[:, i].copy() for i in range(k)]
    ask(ctx, "is_mutually_orthogonal", (cols,), True, "pos-1d", d, cplx, nt=False)
    ask(ctx, "is_mutually_orthogonal", ([3.0 * c.reshape(-1, 1) for c in cols],), True, "pos-columns-scaled", d, cplx)
    v = gen.haar(rng, d, real=not cplx)
    ask(ctx, "is_mutually_orthogonal", ([v @ c for c in cols],), True, "pos-rotated", d, cplx)
    bad = [c.copy() for c in cols]
    bad[1] = bad[1] + max(delta, 1e-3) * bad[0]
    ask(ctx, "is_mutually_orthogonal", (bad,), False, "neg", d, cplx)
    if k >= 3:  # the only non-orthogonal pair is the first and the last vector of the list
        bad3 = [c.copy() for c in cols]
        bad3[-1] = bad3[-1] + max(delta, 1e-2) * bad3[0]
        ask(ctx, "is_mutually_orthogonal", (bad3,), False, "neg-first-and-last", d, cplx)
    res = ctx.call(_fn("is_mutually_orthogonal"), [cols[0]], expect=(ValueError,))
    if res is not FAILED:
        ctx.check("pred:is_mutually_orthogonal", isinstance(res, ValueError), sig=("single-vector",), mech="is_mutually_orthogonal:accepts-single-vector", detail={})


def _p_is_mutually_unbiased_basis(ctx, r, rng):
    d = 2 + r % 4
    delta = [1e-2, 0.1, 0.5][r % 3]
    comp = [np.eye(d)[:, i].astype(complex) for i in range(d)]
    w = np.exp(2j * np.pi / d)
    four = [np.array([w ** (i * j) for i in range(d)]) / np.sqrt(d) for j in range(d)]
    u = gen.haar(rng, d)
    ask(ctx, "is_mutually_unbiased_basis", (comp + four,), True, "pos-computational+fourier", d, True, nt=False)
    ask(ctx, "is_mutually_unbiased_basis", ([u @ v for v in comp + four],), True, "pos-rotated", d, True)
    ask(ctx, "is_mutually_unbiased_basis", (four + comp,), True, "pos-bases-swapped", d, True)
    if d == 2:
        ybasis = [np.array([1, 1j]) / np.sqrt(2), np.array([1, -1j]) / np.sqrt(2)]
        ask(ctx, "is_mutually_unbiased_basis", (comp + four + ybasis,), True, "pos-three-qubit-mubs", d, True)
    h = gen.hermitian(rng, d)
    from scipy.linalg import expm

    rot = expm(1j * delta * h / np.linalg.norm(h, 2) * 2)
    bad = comp + [rot @ v for v in four]
    dev = max(abs(abs(np.vdot(a, b)) ** 2 - 1 / d) for a in comp for b in bad[d:])
    if dev > 1e-3:
        ask(ctx, "is_mutually_unbiased_basis", (bad,), False, "neg-rotated-second-basis", d, True)
    ask(ctx, "is_mutually_unbiased_basis", (comp + four[:-1],), False, "neg-incomplete-basis", d, True)
    # three bases of which only the two that are NOT neighbours in the list are biased (the first reappears, permuted and with phases, as the third)
    perm = rng.permutation(d)
    again = [np.exp(2j * np.pi * rng.random()) * comp[int(perm[i])] for i in range(d)]
    ask(ctx, "is_mutually_unbiased_basis", (comp + four + again,), False, "neg-first-and-third-basis-biased", d, True)
    again_f = [np.exp(2j * np.pi * rng.random()) * four[int(perm[i])] for i in range(d)]
    ask(ctx, "is_mutually_unbiased_basis", (four + comp + again_f,), False, "neg-first-and-third-basis-biased[fourier]", d, True)


def _tiles():
    e = np.eye(3)
    s = 1 / np.sqrt(2)
    return [np.kron(e[0], s * (e[0] - e[1])), np.kron(e[2], s * (e[1] - e[2])), np.kron(s * (e[0] - e[1]), e[2]), np.kron(s * (e[1] - e[2]), e[0]),
            np.kron((e[0] + e[1] + e[2]) / np.sqrt(3), (e[0] + e[1] + e[2]) / np.sqrt(3))]


def _p_is_unextendible_product_basis(ctx, r, rng):
    fn = _fn("is_unextendible_product_basis")
    kind = r % 3
    if r % 4 == 3:
        # far too few vectors: one or two random product vectors among three to five parties can always be extended
        dims = [[2, 2, 2], [3, 3, 3], [2, 2, 2, 2], [2, 3, 2], [2, 2, 2, 2, 2]][(r // 4 + 3) % 5]  # the quick tier starts with unequal local dimensions
        count = 1 if len(dims) < 5 or r % 8 == 3 else 2
        vecs = [ref.kron_all([gen.unit(rng, d_, bool(r % 2)).reshape(-1, 1) for d_ in dims]).reshape(-1) for _ in range(count)]
        want, name = False, f"few-random-product-vectors[{count}-of-{len(dims)}-parties]"
    elif kind == 0:
        vecs, dims, want, name = _tiles(), [3, 3], True, "tiles"
        ua, ub = gen.haar(rng, 3), gen.haar(rng, 3)
        if r % 2:
            vecs = [np.kron(ua, ub) @ v for v in vecs]
            name = "tiles-locally-rotated"
    elif kind == 1:
        vecs, dims, want, name = _tiles()[: 4 - (r % 2)], [3, 3], False, "tiles-minus-one"
    else:
        e0, e1 = np.array([1.0, 0]), np.array([0, 1.0])
        p, m = (e0 + e1) / np.sqrt(2), (e0 - e1) / np.sqrt(2)
        vecs = [np.kron(np.kron(e0, e0), e0), np.kron(np.kron(p, e1), m), np.kron(np.kron(e1, m), p), np.kron(np.kron(m, p), e1)]
        dims, want, name = [2, 2, 2], True, "shifts"
        if r % 2:
            vecs, want, name = vecs[:3], False, "shifts-minus-one"
    res = ctx.call(fn, [np.asarray(v, dtype=complex) for v in vecs], dims, expect=(ValueError,))
    if res is FAILED:
        return
    if isinstance(res, ValueError):
        # every input here is a set of product vectors by construction: a rejection is a failure.  "not a product state" on three or more
        # parties is the rounding-level threshold of is_product (known finding of C14) surfacing through this predicate
        mech = f"raise:is_unextendible_product_basis:ValueError[{str(res)[:60]}]"
        if "not a product state" in str(res) and len(dims) >= 3:
            mech = "is_unextendible_product_basis:rejects-product-vectors[is_product-rounding-threshold]"
        ctx.fail("pred:is_unextendible_product_basis", mech, {"set": name, "dims": dims, "exception": repr(res)})
        return
    ctx.check("pred:is_unextendible_product_basis", bool(res[0]) == want, sig=(name,), nt=True, mech=f"is_unextendible_product_basis:wrong-verdict[{name}]",
              detail={"set": name, "want": want, "got": bool(res[0])})
    ctx.sample("pred:is_unextendible_product_basis", {"set": name, "verdict": bool(res[0])})
    if not want and not res[0] and res[1] is not None:
        wit = np.asarray(res[1]).reshape(-1)
        orth = max(abs(np.vdot(v, wit)) for v in vecs) / max(np.linalg.norm(wit), 1e-300)
        ctx.check("pred:is_unextendible_product_basis", orth <= 1e-8 and np.linalg.norm(wit) > 1e-8, sig=(name, "witness"), nt=True,
                  mech="is_unextendible_product_basis:witness-not-orthogonal", detail={"set": name, "max_overlap": orth})


# ------------------------------------------------------------------------------------------------ helper identities
def _rel(a, b):
    a, b = np.asarray(a), np.asarray(b)
    if a.shape != b.shape:
        return float("inf")
    return float(np.abs(a - b).max()) / (1 + float(np.abs(b).max()))


def _h_vec(ctx, r, rng):
    from toqito.matrix_ops import unvec, vec

    m, n = int(rng.integers(1, 7)), int(rng.integers(1, 7))
    x = gen.unique_ids((m, n), "ifc"[r % 3])
    v = ctx.call(vec, x)
    if v is FAILED:
        return
    ctx.check("O2:vec-unvec", np.shape(v) == (m * n, 1) and np.array_equal(np.asarray(v).reshape(-1), x.T.reshape(-1)), sig=("vec-column-major", m == n),
              mech="vec:not-column-stacking", detail={"shape": [m, n]})
    back = ctx.call(unvec, v, [m, n])
    if back is not FAILED:
        ctx.check("O2:vec-unvec", np.array_equal(back, x), sig=("unvec(vec)", m == n), nt=m != n, mech="unvec:not-inverse-of-vec", detail={"shape": [m, n]})
    w = gen.unique_ids((m * n,), "f")
    mat = ctx.call(unvec, w, [m, n])
    if mat is not FAILED:
        again = ctx.call(vec, mat)
        if again is not FAILED:
            ctx.check("O2:vec-unvec", np.array_equal(np.asarray(again).reshape(-1), w), sig=("vec(unvec)", m == n), nt=m != n, mech="vec:not-inverse-of-unvec", detail={"shape": [m, n]})
    sq = gen.unique_ids((m * m,), "f")
    dflt = ctx.call(unvec, sq)
    if dflt is not FAILED:
        ctx.check("O2:vec-unvec", np.array_equal(dflt, sq.reshape(m, m).T), sig=("unvec-default-square",), mech="unvec:default-shape", detail={"m": m})
    p, q = int(rng.integers(1, 5)), int(rng.integers(1, 5))
    a, b = gen.rc(rng, p, m), gen.rc(rng, n, q)
    xx = gen.rc(rng, m, n)
    lhs, rhs = ctx.call(vec, a @ xx @ b), ctx.call(vec, xx)
    if lhs is not FAILED and rhs is not FAILED:
        ctx.check("O2:vec(AXB)", None, dev=_rel(lhs, np.kron(b.T, a) @ rhs), tol=1e-9, sig=(m == n, p == m), nt=True, mech="vec:vec(AXB)!=(B^T x A)vec(X)", detail={"shapes": [p, m, n, q]})
        ctx.sample("O2:vec(AXB)", {"A": [p, m], "X": [m, n], "B": [n, q]})


def _h_tensor(ctx, r, rng):
    from toqito.matrix_ops import tensor

    shapes = [(int(rng.integers(1, 4)), int(rng.integers(1, 4))) for _ in range(3)]
    a, b, c = (gen.rc(rng, *s) for s in shapes)
    t_abc = ctx.call(tensor, a, b, c)
    if t_abc is not FAILED:
        ctx.check("O2:tensor", None, dev=_rel(t_abc, np.kron(np.kron(a, b), c)), tol=1e-12, sig=("3-args",), mech="tensor:three-arguments", detail={"shapes": shapes})
        l_ab = ctx.call(tensor, a, b)
        r_bc = ctx.call(tensor, b, c)
        if l_ab is not FAILED and r_bc is not FAILED:
            left, right = ctx.call(tensor, l_ab, c), ctx.call(tensor, a, r_bc)
            if left is not FAILED and right is not FAILED:
                ctx.check("O2:tensor", None, dev=max(_rel(left, right), _rel(left, t_abc)), tol=1e-12, sig=("associative",), nt=True, mech="tensor:not-associative", detail={"shapes": shapes})
        lst = ctx.call(tensor, [a, b, c])
        if lst is not FAILED:
            ctx.check("O2:tensor", None, dev=_rel(lst, t_abc), tol=1e-12, sig=("list-form",), mech="tensor:list-form-differs", detail={"shapes": shapes})
        lst2 = ctx.call(tensor, [a, b])
        if lst2 is not FAILED:
            ctx.check("O2:tensor", None, dev=_rel(lst2, np.kron(a, b)), tol=1e-12, sig=("list-form-2",), mech="tensor:list-form-2", detail={"shapes": shapes})
        four = ctx.call(tensor, a, b, c, a)
        if four is not FAILED:
            ctx.check("O2:tensor", None, dev=_rel(four, np.kron(np.kron(np.kron(a, b), c), a)), tol=1e-12, sig=("4-args",), mech="tensor:four-arguments", detail={"shapes": shapes})
    small = gen.rc(rng, int(rng.integers(1, 3)), int(rng.integers(1, 4)))
    for n in range(0, 5):
        pw = ctx.call(tensor, small, n)
        if pw is FAILED:
            continue
        want = np.eye(1)
        for _ in range(n):
            want = np.kron(want, small)
        ctx.check("O2:tensor", None, dev=_rel(pw, want), tol=1e-12, sig=("power", n), nt=n >= 3, mech=f"tensor:power[n={n}]", detail={"shape": small.shape, "n": n})
    ctx.sample("O2:tensor", {"shapes": shapes})


def _h_gram(ctx, r, rng):
    from toqito.matrix_ops import vectors_from_gram_matrix, vectors_to_gram_matrix

    n = int(rng.integers(1, 6))
    cplx = bool(r % 2)
    full = (r // 2) % 2 == 0
    d = n if full else max(1, n - 1)
    vs = [gen.rmat(rng, (d,), cplx) for _ in range(n)]
    g = ctx.call(vectors_to_gram_matrix, [v.copy() for v in vs])
    if g is FAILED:
        return
    want = np.array([[np.vdot(a, b) for b in vs] for a in vs])
    ctx.check("O2:gram-round-trip", None, dev=_rel(g, want), tol=1e-12, sig=("to-gram", cplx), mech="vectors_to_gram_matrix:definition", detail={"n": n, "d": d})
    import contextlib
    import io

    buf = io.StringIO()
    with contextlib.redirect_stdout(buf):
        rec = ctx.call(vectors_from_gram_matrix, np.array(g, copy=True))
    if rec is FAILED:
        return
    g2 = ctx.call(vectors_to_gram_matrix, [np.asarray(v) for v in rec])
    if g2 is FAILED:
        return
    field = "complex" if cplx else "real"
    branch = "eigendecomposition" if "eigendecomposition" in buf.getvalue() else "cholesky"  # the library announces the fallback on stdout
    mech = f"gram-round-trip:mismatch[{branch},{field}]"
    if _rel(g2, want) > 1e-7 and _rel(g2, want.conj()) <= 1e-7:
        mech = f"gram-round-trip:returns-conjugate-gram[{branch}]"
    ctx.check("O2:gram-round-trip", None, dev=_rel(g2, want), tol=1e-7, sig=("round-trip", cplx, branch), nt=cplx, mech=mech, detail={"n": n, "d": d, "field": field, "branch": branch})
    ctx.sample("O2:gram-round-trip", {"n": n, "d": d, "field": field, "branch": branch})


def _h_todm(ctx, r, rng):
    from toqito.matrix_ops import to_density_matrix

    d = int(rng.integers(1, 7))
    v = gen.rc(rng, d)
    want = np.outer(v, v.conj())
    for form, x in (("1d", v), ("column", v.reshape(-1, 1)), ("row", v.reshape(1, -1))):
        got = ctx.call(to_density_matrix, x.copy())
        if got is not FAILED and not (d == 1 and form != "1d"):
            ctx.check("O2:to_density_matrix", None, dev=_rel(got, want), tol=1e-12, sig=(form,), nt=True, mech=f"to_density_matrix:{form}", detail={"d": d})
    if d >= 2:
        rho = gen.density(rng, d)
        got = ctx.call(to_density_matrix, rho.copy())
        if got is not FAILED:
            ctx.check("O2:to_density_matrix", np.array_equal(got, rho), sig=("matrix-unchanged",), mech="to_density_matrix:matrix-changed", detail={"d": d})
        res = ctx.call(to_density_matrix, gen.rc(rng, d, d + 1) if d > 1 else gen.rc(rng, 2, 3), expect=(ValueError,))
        if res is not FAILED and d > 1:
            ctx.check("O2:to_density_matrix", isinstance(res, ValueError), sig=("rejects-rectangular",), mech="to_density_matrix:accepts-rectangular", detail={"d": d})


def _h_commutant(ctx, r, rng):
    from toqito.matrix_props import commutant

    kind = r % 3
    if kind == 0:  # one normal generator with prescribed multiplicities: commutant dimension = sum m_i^2
        # at least two distinct eigenvalues: a scalar generator makes the commutation operator zero up to 1e-16 noise, whose
        # numerical null space is ill-defined (band, not probed)
        mult = [int(v) for v in rng.integers(1, 3, size=int(rng.integers(2, 4)))]
        d = sum(mult)
        u = gen.haar(rng, d)
        ev = np.concatenate([[float(i + 1)] * m for i, m in enumerate(mult)])
        gens = [(u * ev) @ u.conj().T]
        want_dim = sum(m * m for m in mult)
    elif kind == 1:  # two generic generators: only multiples of the identity commute
        d = int(rng.integers(2, 5))
        gens = [gen.rc(rng, d, d), gen.rc(rng, d, d)]
        want_dim = 1
    else:  # generators A (x) 1 on C^a (x) C^b: commutant = 1 (x) M_b, dimension b^2
        a, b = int(rng.integers(2, 4)), int(rng.integers(1, 3))
        d = a * b
        gens = [np.kron(gen.rc(rng, a, a), np.eye(b)), np.kron(gen.rc(rng, a, a), np.eye(b))]
        want_dim = b * b
    arg = gens[0] if len(gens) == 1 and r % 2 else [g.copy() for g in gens]
    basis = ctx.call(commutant, arg)
    if basis is FAILED:
        return
    basis = [np.asarray(x) for x in basis]
    comm = max([float(np.abs(x @ g - g @ x).max()) / (1 + float(np.abs(g).max())) for x in basis for g in gens] or [0.0])
    gram = np.array([[np.vdot(x, y) for y in basis] for x in basis]) if basis else np.zeros((0, 0))
    orth = float(np.abs(gram - np.eye(len(basis))).max()) if basis else 0.0
    ok = len(basis) == want_dim and comm <= 1e-8 and orth <= 1e-8
    ctx.check("O2:commutant", ok, sig=(kind, d), nt=True, mech="commutant:wrong-dimension" if len(basis) != want_dim else "commutant:not-commuting-or-not-orthonormal",
              detail={"kind": kind, "d": d, "returned": len(basis), "want": want_dim, "max_commutator": comm, "orthonormality_defect": orth})
    ctx.sample("O2:commutant", {"kind": kind, "d": d, "dimension": len(basis)})


def _h_majorizes(ctx, r, rng):
    from toqito.matrix_props import majorizes

    n = int(rng.integers(2, 7))
    b = rng.random(n)
    b /= b.sum()
    # a = T b for doubly stochastic T is majorised by b
    w = rng.random(3)
    w /= w.sum()
    t = sum(w[i] * np.eye(n)[rng.permutation(n)] for i in range(3))
    a = t @ b

    def model(x, y):
        xs, ys = np.sort(x)[::-1], np.sort(y)[::-1]
        return np.cumsum(xs) - np.cumsum(ys)

    margin_ba = model(b, a)
    got = ctx.call(majorizes, b.copy() if r % 2 else list(b), a.copy())
    if got is not FAILED:
        ctx.check("O2:majorizes", bool(got) is True, sig=("b-majorizes-Tb", n), nt=True, mech="majorizes:rejects-doubly-stochastic-image", detail={"a": a, "b": b})
    if margin_ba[:-1].max() > 1e-3:
        got2 = ctx.call(majorizes, a.copy(), b.copy())
        if got2 is not FAILED:
            ctx.check("O2:majorizes", bool(got2) is False, sig=("Tb-does-not-majorize-b", n), nt=True, mech="majorizes:accepts-reverse", detail={"a": a, "b": b})
    x, y = rng.random(n), rng.random(n)
    y *= x.sum() / y.sum()
    diff = model(x, y)
    if np.abs(diff[:-1]).min() > 1e-3:
        got3 = ctx.call(majorizes, x.copy(), y.copy())
        if got3 is not FAILED:
            ctx.check("O2:majorizes", bool(got3) == bool((diff[:-1] > 0).all()), sig=("generic", n), nt=True, mech="majorizes:differs-from-partial-sums", detail={"x": x, "y": y})
    # operands of different length (the shorter one is padded with zeros), vectors and matrices, with a clear margin at every partial sum
    na, nb = int(rng.integers(1, 6)), int(rng.integers(1, 6))
    if na == nb:
        nb = na + 1 if r % 2 else max(1, na - 1) if na > 1 else na + 1
    u, v = rng.random(na) + 0.1, rng.random(nb) + 0.1
    if r % 3 == 0:  # equal totals, the longer operand spread out: decided in the zero-padded tail
        v *= u.sum() / v.sum()
    elif r % 3 == 1:  # the first operand is the shorter one and wins every partial sum it has entries for; the second overtakes it only in the padded tail
        nb = na + 1 + int(rng.integers(0, 2))
        v = np.full(nb, 0.9 * u.mean())
    size = max(na, nb)
    pu, pv = np.pad(np.sort(u)[::-1], (0, size - na)), np.pad(np.sort(v)[::-1], (0, size - nb))
    d2 = np.cumsum(pu) - np.cumsum(pv)
    d2[np.abs(d2) < 1e-12] = 0.0  # equal totals: the last partial sums agree
    if np.abs(d2[d2 != 0]).min(initial=1.0) > 1e-3:
        want5 = bool((d2 >= 0).all())
        if r % 4 < 2:
            args5 = (u.copy(), v.copy())
        else:  # the same spectra as singular values of (rectangular) matrices
            args5 = tuple(gen.haar(rng, len(w_))[:, :len(w_)] @ np.diag(w_) @ gen.haar(rng, len(w_) + int(rng.integers(0, 2)))[:len(w_), :] for w_ in (u, v))
        got5 = ctx.call(majorizes, *args5)
        if got5 is not FAILED:
            first_bad = int(np.argmax(d2 < 0)) if not want5 else -1
            ctx.check("O2:majorizes", bool(got5) == want5, sig=("unequal-lengths", na < nb, want5, first_bad >= min(na, nb), r % 4 < 2), nt=True,
                      mech="majorizes:unequal-lengths-differs-from-zero-padded-partial-sums", detail={"a": u, "b": v, "want": want5, "first_violated_partial_sum": first_bad})
    # matrix arguments: singular values
    m1 = gen.rc(rng, n, n)
    got4 = ctx.call(majorizes, m1, 0.5 * m1)
    if got4 is not FAILED:
        ctx.check("O2:majorizes", bool(got4) is True, sig=("matrix-vs-half", n), nt=True, mech="majorizes:matrix-singular-values", detail={"n": n})
    ctx.sample("O2:majorizes", {"b": b, "Tb": a})


def _spark_model(mat):
    m, n = mat.shape
    for k in range(1, min(m, n) + 1):
        for cols in itertools.combinations(range(n), k):
            s = np.linalg.svd(mat[:, cols], compute_uv=False)
            if s.min() < 1e-10 * max(s.max(), 1e-300):
                return k, None
    return min(m, n) + 1, None


def _h_spark(ctx, r, rng):
    from toqito.matrix_props import spark

    m, n = int(rng.integers(2, 5)), int(rng.integers(2, 7))
    a = rng.integers(-2, 3, size=(m, n)).astype(float)
    kind = r % 6
    if kind == 1 and n >= 3:
        a[:, -1] = a[:, 0] - 2 * a[:, 1]  # planted dependency among three columns
    if kind == 2:
        a = rng.normal(size=(m, n))  # generic: spark = min(m, n) + 1
    if kind == 3:
        # two nearly parallel but independent columns (angle 1e-2 .. 1e-5, also up to a sign / phase): the library decides by matrix_rank, whose
        # threshold is at rounding level, so these are independent by a margin of ten orders of magnitude
        a = rng.normal(size=(m, n)) + (1j * rng.normal(size=(m, n)) if r % 2 else 0)
        i, j = (int(t) for t in rng.choice(n, size=2, replace=False))
        eps = [1e-2, 1e-3, 1e-4, 1e-5][(r // 6) % 4]
        ph = [1.0, -1.0, 1j, np.exp(0.7j)][(r // 24) % 4] if np.iscomplexobj(a) else [1.0, -1.0][(r // 24) % 2]
        w = rng.normal(size=m)
        a[:, j] = ph * a[:, i] * float(rng.uniform(0.5, 2)) + eps * w * np.linalg.norm(a[:, i]) / np.linalg.norm(w)
    if kind == 4:
        # complex entries, dependency with Gaussian-integer coefficients (exact in floating point)
        a = (rng.integers(-2, 3, size=(m, n)) + 1j * rng.integers(-2, 3, size=(m, n))).astype(complex)
        if n >= 3:
            a[:, -1] = (1 + 1j) * a[:, 0] - 2j * a[:, 1]
    if kind == 5 and n >= 3:
        # a triple that is dependent up to a perturbation of relative size 1e-3 .. 1e-5: independent by a wide margin for the rank rule
        a = rng.normal(size=(m, n))
        eps = [1e-3, 1e-4, 1e-5][(r // 6) % 3]
        a[:, -1] = a[:, 0] - 2 * a[:, 1] + eps * rng.normal(size=m)
    # margins: every sub-matrix must be clearly full rank or clearly deficient (the library's rank threshold is max(shape) * eps * sigma_max, about 1e-15)
    ok = True
    for k in range(1, min(m, n) + 1):
        for cols in itertools.combinations(range(n), k):
            sv = np.linalg.svd(a[:, cols], compute_uv=False)
            # decided only when the smallest singular value is clearly below the library's rank threshold max(shape) * eps * sigma_max (a quarter of
            # it: exact planted dependencies give about 1e-17 .. 1e-16) or clearly above it (1e-8); a near-dependent triple whose perturbation
            # happens to lie almost inside the span lands in between (relative 1e-10 .. 1e-15, met twice in 1.8e6 thorough cases) and is not decided
            if 0.25 * max(m, k) * np.finfo(float).eps * sv.max() <= sv.min() < 1e-8 * sv.max():
                ok = False
    if not ok:
        return ctx.note_inconclusive("spark-margin")
    want, _ = _spark_model(a)
    got = ctx.call(spark, a.copy())
    if got is not FAILED:
        ctx.check("O2:spark", int(got) == want, sig=(kind, m, n), nt=True, mech="spark:differs-from-brute-force", detail={"matrix": a, "got": got, "want": want})
        ctx.sample("O2:spark", {"shape": [m, n], "spark": want})


def _h_norms(ctx, r, rng):
    from toqito.matrix_props import kp_norm, trace_norm

    m, n = int(rng.integers(1, 7)), int(rng.integers(1, 7))
    x = gen.rmat(rng, (m, n), bool(r % 2))
    s = np.linalg.svd(x, compute_uv=False)
    k = int(rng.integers(1, min(m, n) + 2))
    p = [1, 2, 3, np.inf][r % 4]
    got = ctx.call(kp_norm, x.copy(), k, p)
    if got is not FAILED:
        want = np.linalg.norm(s[:k], ord=p)
        ctx.check("O2:kp_norm", None, dev=abs(float(got) - want) / (1 + want), tol=1e-9, sig=(k >= min(m, n), str(p)), nt=True, mech="kp_norm:differs-from-singular-values",
                  detail={"shape": [m, n], "k": k, "p": str(p), "got": got, "want": want})
    tn = ctx.call(trace_norm, x.copy())
    if tn is not FAILED:
        ctx.check("O2:trace_norm", None, dev=abs(float(tn) - s.sum()) / (1 + s.sum()), tol=1e-9, sig=(m == n,), nt=True, mech="trace_norm:differs-from-singular-values", detail={"shape": [m, n]})
        k1 = ctx.call(kp_norm, x.copy(), min(m, n), 1)
        if k1 is not FAILED:
            ctx.check("O2:kp_norm", None, dev=abs(float(k1) - float(tn)) / (1 + s.sum()), tol=1e-9, sig=("(r,1)=trace-norm",), nt=True, mech="kp_norm:(rank,1)!=trace_norm", detail={"shape": [m, n]})
    # structured operands: Hermitian indefinite matrices with a designed spectrum (the largest magnitude may belong to a negative eigenvalue,
    # magnitudes may tie), diagonal and rank-deficient matrices - the norms depend on the singular values only
    dd = int(rng.integers(2, 6))
    spec_ = rng.uniform(0.2, 3.0, size=dd) * rng.choice([-1.0, 1.0], size=dd)
    spec_[int(rng.integers(0, dd))] = -float(np.abs(spec_).max()) - 0.5  # a negative eigenvalue of the largest magnitude
    if dd >= 3 and r % 3 == 0:
        spec_[1] = -spec_[0]  # equal magnitudes, opposite signs
    if dd >= 3 and r % 5 == 0:
        spec_[2] = 0.0
    uu = gen.haar(rng, dd, real=not bool(r % 2)) if r % 4 else np.eye(dd)
    h = ref.herm(uu @ np.diag(spec_) @ uu.conj().T)
    if not r % 2:
        h = h.real
    sv = np.sort(np.abs(spec_))[::-1]
    for kk in range(1, dd + 1):
        got_h = ctx.call(kp_norm, h.copy(), kk, p)
        if got_h is not FAILED:
            want_h = np.linalg.norm(sv[:kk], ord=p)
            ctx.check("O2:kp_norm", None, dev=abs(float(got_h) - want_h) / (1 + want_h), tol=1e-9, sig=("hermitian-indefinite", kk >= dd, str(p), bool(r % 4)), nt=True,
                      mech="kp_norm:differs-from-singular-values[hermitian-indefinite]", detail={"spectrum": spec_, "k": kk, "p": str(p), "got": got_h, "want": want_h})
    tn_h = ctx.call(trace_norm, h.copy())
    if tn_h is not FAILED:
        ctx.check("O2:trace_norm", None, dev=abs(float(tn_h) - sv.sum()) / (1 + sv.sum()), tol=1e-9, sig=("hermitian-indefinite",), nt=True,
                  mech="trace_norm:differs-from-singular-values[hermitian-indefinite]", detail={"spectrum": spec_})
    ctx.sample("O2:kp_norm", {"shape": [m, n], "k": k, "p": str(p)})
