"""C19 - random generators and measurement constructions give valid, reproducible objects."""
from __future__ import annotations

import numpy as np

from .. import certs, gen, ref, snap
from ..core import FAILED

DECIDING = ["kind:random_unitary", "kind:random_density_matrix", "kind:random_psd_operator", "kind:random_orthonormal_basis", "kind:random_state_vector",
            "kind:random_povm", "kind:random_circulant_gram_matrix", "kind:random_states", "kind:random_ginibre", "hist:same-seed-same-object",
            "hist:different-seed-different-object", "hist:global-rng-untouched", "meas:pgm-is-povm", "meas:pbm-is-povm", "meas:pgm-between-opt^2-and-opt",
            "meas:born-probabilities", "meas:post-states", "meas:rejects-incomplete", "meas:is_povm"]
RULE = ("generators: dimensions 1..6, both is_real values, k_param over its whole range, list and scalar dimension arguments, seeds drawn at random; histories: random "
        "interleavings of seeded and unseeded calls with np.random.seed perturbations and foreign default_rng draws, logged and checked offline; measurements: spanning "
        "ensembles of 2..6 states (pure and mixed, any prior), Kraus / projective measurement sets with complex, float and integer dtype states; signature (monitor, function, dimension, options)")
THOROUGH_REPEAT = 10  # the thorough tier runs its randomised case kinds this many times (new inputs each time)
ASSUMPTIONS = [
    "random_povm: validity tolerance 50 eps cond(N) (N the normaliser recomputed from the seeded draws), never above 1e-5, 1e-5 for unseeded calls",
    "kind checks are model checks (eigenvalues / singular values / Gram matrices), not the library's own predicates; tolerance 1e-9 (rank: sigma_{k+1} <= 1e-9)",
    "random_state_vector with 0 < k_param < min(dim) lives on C^{d0 d1} (C^{d^2} for a scalar d), otherwise on C^d: only unit norm and the Schmidt-rank bound are asserted",
    "P_opt is bracketed by the C10 certificate (attained value of the library's POVM, dual-feasible bound), evaluated with NumPy",
    "measure() treats the supplied operators as Kraus operators K: p = Tr(K rho K^dagger)",
]
SOLVER_TIME_LIMIT = 60


def cases(tier):
    out = [("kind", r) for r in range(300 if tier == "quick" else 80000)]
    out += [("hist", r) for r in range(40 if tier == "quick" else 6000)]
    out += [("pgm", r) for r in range(40 if tier == "quick" else 5000)]
    out += [("measure", r) for r in range(120 if tier == "quick" else 30000)]
    return out


def run(ctx, spec, rng):
    globals()["_run_" + spec[0]](ctx, spec, rng)


def _unseeded(fn, k):
    """Unseeded generators draw from OS entropy by design: their values are not part of the call-history comparison."""
    return getattr(fn, "__module__", "").startswith("toqito.rand") and k.get("seed") is None


def _call(ctx, fn, *a, **k):
    v = ctx.call(fn, *a, history=not _unseeded(fn, k), **k)
    return None if v is FAILED else v


def _povm_tolerance(d, ni, no, seed, povm):
    """Validity tolerance for random_povm.  The elements are G_a^T G_a conjugated by N^(-1/2), N = sum_a G_a^T G_a, so completeness holds to about
    eps * cond(N); for a seeded call the Gaussian draws - and so cond(N) - are recomputed here (and used only if they reproduce the returned
    elements), otherwise the documented validity notion of the library (1e-5) applies."""
    if seed is None:
        return 1e-5, "flat (unseeded call)"
    g = np.random.default_rng(seed=seed).normal(size=(ni, no, d, d))
    worst_cond = 1.0
    for x in range(ni):
        n_mat = sum(g[x, a].T @ g[x, a] for a in range(no))
        w, v = np.linalg.eigh(n_mat)
        if w.min() <= 0:
            return 1e-5, "flat (singular normaliser)"
        inv_half = (v / np.sqrt(w)) @ v.T
        for a in range(no):
            model = inv_half @ g[x, a].T @ g[x, a] @ inv_half
            if np.abs(model - povm[:, :, x, a]).max() > 1e-3:
                return 1e-5, "flat (draws not reproduced)"
        worst_cond = max(worst_cond, float(w.max() / w.min()))
    return float(min(1e-5, max(1e-9, 50 * np.finfo(float).eps * worst_cond))), f"50 eps cond(N), cond(N) = {worst_cond:.3g}"


def _kind(ctx, name, cond, sig, detail, mech=None, nt=True):
    ctx.check("kind:" + name, bool(cond), sig=(name,) + tuple(sig), nt=nt, mech=mech or f"{name}:not-of-advertised-kind", detail=detail)


def _run_kind(ctx, spec, rng):
    import toqito.rand as tr

    r = spec[1]
    d = 1 + r % 6
    real = bool((r // 6) % 2)
    seed = [int(rng.integers(0, 2 ** 31)), 0, 1, int(rng.integers(2, 100))][(r // 9) % 4]  # large, zero, one and small seeds
    which = r % 9
    g_before = snap.global_rng_digest()
    if which == 0:
        dimarg = d if r % 4 else [d, d]
        u = _call(ctx, tr.random_unitary, dimarg, real, seed)
        if u is not None:
            u = np.asarray(u)
            _kind(ctx, "random_unitary", u.shape == (d, d) and np.abs(u.conj().T @ u - np.eye(d)).max() <= 1e-9 and (not real or not np.iscomplexobj(u)), (d, real, isinstance(dimarg, list)),
                  {"d": d, "real": real, "seed": seed})
            ctx.sample("kind:random_unitary", {"d": d, "real": real, "seed": seed})
        res = ctx.call(tr.random_unitary, [d, d + 1], expect=(ValueError,))
        if res is not FAILED:
            _kind(ctx, "random_unitary", isinstance(res, ValueError), ("rejects-nonsquare",), {"dim": [d, d + 1]}, "random_unitary:accepts-nonsquare")
    elif which == 1:
        k = [None] + list(range(1, d + 1))
        kp = k[(r // 9) % len(k)]
        metric = "haar" if (r // 54) % 2 == 0 else "bures"
        mech = None
        if metric == "bures" and kp is not None and kp < d:
            mech = "crash:random_density_matrix[bures,k_param<dim]"
        rho = _call(ctx, tr.random_density_matrix, d, real, kp, metric, seed, mech=mech)
        if rho is not None:
            rho = np.asarray(rho)
            ev = np.linalg.eigvalsh(ref.herm(rho))[::-1]
            rank_ok = kp is None or kp >= d or ev[kp] <= 1e-9
            valid = (rho.shape == (d, d) and np.abs(rho - rho.conj().T).max() <= 1e-12 and ev.min() >= -1e-12 and abs(np.trace(rho) - 1) <= 1e-9
                     and (not real or not np.iscomplexobj(rho) or np.abs(rho.imag).max() == 0))
            kmech = "random_density_matrix:rank-exceeds-k_param[bures]" if valid and not rank_ok and metric == "bures" else None
            _kind(ctx, "random_density_matrix", valid and rank_ok, (d, real, kp, metric), {"d": d, "real": real, "k_param": kp, "metric": metric, "spectrum": ev}, kmech)
            ctx.sample("kind:random_density_matrix", {"d": d, "k_param": kp, "metric": metric, "spectrum": ev})
    elif which == 2:
        p = _call(ctx, tr.random_psd_operator, d, real, seed)
        if p is not None:
            p = np.asarray(p)
            _kind(ctx, "random_psd_operator", p.shape == (d, d) and np.abs(p - p.conj().T).max() <= 1e-9 and ref.eigmin(p) >= -1e-9 and (not real or np.abs(np.imag(p)).max() <= 1e-12), (d, real),
                  {"d": d, "real": real})
    elif which == 3:
        b = _call(ctx, tr.random_orthonormal_basis, d, real, seed)
        if b is not None:
            m = np.column_stack([np.asarray(v).reshape(-1) for v in b])
            _kind(ctx, "random_orthonormal_basis", m.shape == (d, d) and np.abs(m.conj().T @ m - np.eye(d)).max() <= 1e-9 and (not real or not np.iscomplexobj(m)), (d, real), {"d": d, "real": real})
    elif which == 4:
        form = (r // 9) % 3
        if form == 0:  # scalar dimension, k_param over its range (0 = no bound)
            kp = int(rng.integers(0, d + 2))
            dimarg = d
            mech = None
        else:
            da, db = int(rng.integers(1, 6)), int(rng.integers(1, 6))
            if form == 1 and min(da, db) < 3:
                da, db = max(da, 3), max(db, 3) + int(rng.integers(0, 2))
            dimarg = [da, db]
            kp = int(rng.integers(1, min(da, db))) if form == 1 else int(rng.choice([0, min(da, db), min(da, db) + 1]))
            mech = "crash:random_state_vector[list-dim,k_param-not-binding]" if not (0 < kp < min(da, db)) else None
        v = _call(ctx, tr.random_state_vector, dimarg, real, kp, seed, mech=mech)
        if v is not None:
            v = np.asarray(v).reshape(-1)
            okk = abs(np.linalg.norm(v) - 1) <= 1e-9 and (not real or not np.iscomplexobj(v) or np.abs(v.imag).max() == 0)
            dims = [dimarg, dimarg] if isinstance(dimarg, int) else dimarg
            if 0 < kp < min(dims):
                okk = okk and v.size == dims[0] * dims[1]
                if okk:
                    s = ref.schmidt_coeffs(v, dims[0], dims[1])
                    okk = len(s) <= kp or s[kp] <= 1e-9
            else:
                okk = okk and v.size == (dimarg if isinstance(dimarg, int) else int(np.prod(dimarg)))
            _kind(ctx, "random_state_vector", okk, (str(dimarg), real, kp), {"dim": dimarg, "real": real, "k_param": kp, "size": v.size})
            ctx.sample("kind:random_state_vector", {"dim": dimarg, "k_param": kp, "size": int(v.size)})
    elif which == 5:
        ni, no = 1 + (r // 9) % 3, 1 + (r // 27) % 4
        povm = _call(ctx, tr.random_povm, d, ni, no, seed)
        if povm is not None:
            povm = np.asarray(povm)
            okk = povm.shape == (d, d, ni, no)
            worst = 0.0
            if okk:
                for x in range(ni):
                    ops = [povm[:, :, x, a] for a in range(no)]
                    neg, comp, hdev = certs.povm_defect(ops, d)
                    worst = max(worst, neg, comp, hdev)
            tol, how = _povm_tolerance(d, ni, no, seed, povm) if okk else (1e-9, "-")
            mech = None
            if okk and worst > tol and how.startswith("50 eps cond(N)"):
                cond_n = float(how.split("=")[-1])
                if cond_n >= 1e11 and worst <= 50 * np.finfo(float).eps * cond_n:
                    # the defect is what the conditioning of the random normaliser explains, but it is above the 1e-5 cap: a (very rare) numerical weakness
                    mech = "random_povm:completeness-defect-above-1e-5[normaliser-condition>=1e11]"
            _kind(ctx, "random_povm", okk and worst <= tol, (d, ni, no), {"d": d, "inputs": ni, "outputs": no, "worst_defect": worst, "tolerance": tol, "tolerance_from": how,
                                                                          "shape": list(povm.shape)}, mech=mech)
            ctx.sample("kind:random_povm", {"d": d, "inputs": ni, "outputs": no, "worst_defect": worst})
    elif which == 6:
        g = _call(ctx, tr.random_circulant_gram_matrix, d, seed)
        if g is not None:
            g = np.asarray(g)
            circ = all(np.abs(np.roll(g[i], 1) - g[(i + 1) % d]).max() <= 1e-9 for i in range(d)) if d > 1 else True
            _kind(ctx, "random_circulant_gram_matrix", g.shape == (d, d) and not np.iscomplexobj(g) and circ and np.abs(g - g.T).max() <= 1e-9 and ref.eigmin(g) >= -1e-9, (d,), {"d": d})
    elif which == 7:
        n = 1 + (r // 9) % 4
        sts = _call(ctx, tr.random_states, n, d, seed)
        if sts is not None:
            _kind(ctx, "random_states", len(sts) == n and all(np.shape(s) == (d, 1) and abs(np.linalg.norm(s) - 1) <= 1e-9 for s in sts), (n, d), {"n": n, "d": d})
    else:
        m = 1 + (r // 9) % 5
        g = _call(ctx, tr.random_ginibre, d, m, seed)
        if g is not None:
            _kind(ctx, "random_ginibre", np.shape(g) == (d, m) and np.iscomplexobj(g) and np.isfinite(g).all(), (d, m), {"shape": [d, m]})
    ctx.check("hist:global-rng-untouched", snap.global_rng_digest() == g_before, sig=("kind-call", which), nt=False, mech="rand:global-numpy-random-state-modified", detail={"function_index": which})


def _catalog():
    import toqito.rand as tr

    return [
        ("random_unitary", tr.random_unitary, lambda d, real: (d, real)),
        ("random_density_matrix", tr.random_density_matrix, lambda d, real: (d, real)),
        ("random_density_matrix[bures]", tr.random_density_matrix, lambda d, real: (d, real, None, "bures")),
        ("random_psd_operator", tr.random_psd_operator, lambda d, real: (d, real)),
        ("random_orthonormal_basis", tr.random_orthonormal_basis, lambda d, real: (d, real)),
        ("random_state_vector", tr.random_state_vector, lambda d, real: (d, real, 0)),
        ("random_state_vector[k=1]", tr.random_state_vector, lambda d, real: (max(d, 2), real, 1)),
        ("random_povm", tr.random_povm, lambda d, real: (d, 2, 2)),
        ("random_circulant_gram_matrix", tr.random_circulant_gram_matrix, lambda d, real: (d,)),
        ("random_states", tr.random_states, lambda d, real: (2, d)),
        ("random_ginibre", tr.random_ginibre, lambda d, real: (d, d)),
    ]


def _run_hist(ctx, spec, rng):
    """History monitor: a random interleaving of seeded / unseeded calls and global-RNG perturbations is logged, then checked offline."""
    cat = _catalog()
    seeds = [int(s) for s in rng.integers(0, 2 ** 31, size=2)] + [0, 1]  # zero is a seed like any other
    log = []
    foreign = np.random.default_rng(int(rng.integers(0, 2 ** 31)))
    for step in range(30 if ctx.tier == "quick" else 60):
        act = rng.random()
        if act < 0.15:
            np.random.seed(int(rng.integers(0, 2 ** 31)))  # perturb the global legacy RNG
            log.append(("perturb-global",))
            continue
        if act < 0.25:
            foreign.random(5)
            np.random.random(3)
            log.append(("foreign-draws",))
            continue
        name, fn, mk = cat[int(rng.integers(0, len(cat)))]
        d = 2 + int(rng.integers(0, 3))
        real = bool(rng.integers(0, 2))
        args = mk(d, real)
        seeded = rng.random() < 0.75
        seed = seeds[int(rng.integers(0, len(seeds)))] if seeded else None
        before = snap.global_rng_digest()
        out = ctx.call(fn, *args, seed=seed, history=seed is not None)
        after = snap.global_rng_digest()
        if out is FAILED:
            continue
        log.append(("call", name, repr(args), seed, snap.digest(out), before == after))
    # ---- offline check of the log
    by_key = {}
    for ev in log:
        if ev[0] != "call":
            continue
        _, name, args, seed, dig, untouched = ev
        ctx.check("hist:global-rng-untouched", untouched, sig=(name, seed is None), nt=True, mech=f"rand:global-numpy-random-state-modified[{name}]", detail={"function": name, "seed": seed})
        if seed is not None:
            by_key.setdefault((name, args), {}).setdefault(seed, []).append(dig)
    for (name, args), per_seed in by_key.items():
        for seed, digs in per_seed.items():
            if len(digs) > 1:
                ctx.check("hist:same-seed-same-object", len(set(digs)) == 1, sig=(name,), nt=True, mech=f"rand:same-seed-different-object[{name}]",
                          detail={"function": name, "args": args, "seed": seed, "calls": len(digs), "distinct": len(set(digs))})
        firsts = [digs[0] for digs in per_seed.values()]
        if len(firsts) > 1:
            ctx.check("hist:different-seed-different-object", len(set(firsts)) == len(firsts), sig=(name,), nt=True, mech=f"rand:different-seeds-same-object[{name}]",
                      detail={"function": name, "args": args, "seeds": list(per_seed)})
    unseeded = {}
    for ev in log:
        if ev[0] == "call" and ev[3] is None:
            unseeded.setdefault((ev[1], ev[2]), []).append(ev[4])
    for (name, args), digs in unseeded.items():
        if len(digs) > 1:
            ctx.check("hist:unseeded-calls-differ", len(set(digs)) == len(digs), sig=(name,), nt=True, mech=f"rand:unseeded-calls-repeat[{name}]", detail={"function": name, "calls": len(digs)})
    ctx.sample("hist:same-seed-same-object", {"log_length": len(log), "first_events": [list(map(str, e[:4])) for e in log[:6]]})


def _run_pgm(ctx, spec, rng):
    from toqito.measurements import pretty_bad_measurement, pretty_good_measurement
    from toqito.state_opt import state_distinguishability

    from .C10 import arr

    r = spec[1]
    d = 2 + r % 3
    n = max(2, d - 1 + (r // 3) % 4)
    n = min(n, 6)
    cplx = bool(r % 2)
    mixed = bool((r // 2) % 2)
    for _ in range(20):
        if mixed:
            rhos = [gen.density(rng, d, int(rng.integers(1, d + 1)), cplx) for _ in range(n)]
            inp = [x.copy() for x in rhos]
        else:
            vs = [gen.unit(rng, d, cplx) for _ in range(n)]
            conj_closed = cplx and (r // 6) % 2 == 1
            if conj_closed:
                # a structured complex ensemble: closed under complex conjugation with matching priors (circular-polarisation pairs, the six-state
                # ensemble are of this kind), so the average state is REAL although the member states are not
                base = [gen.unit(rng, d, True) for _ in range(max(1, n // 2))]
                vs = [x_ for b_ in base for x_ in (b_, b_.conj())]
                if n % 2:
                    vs.append(gen.unit(rng, d, False).astype(complex))
                n = len(vs)
            rhos = [np.outer(v, v.conj()) for v in vs]
            # flat, column and row vectors are the documented vector forms (matrix_ops.to_density_matrix)
            inp = [[v.reshape(-1, 1).copy() for v in vs], [v.copy() for v in vs], [v.reshape(1, -1).copy() for v in vs]][(r // 4) % 3]
        p = gen.prior(rng, n, (r // 4) % 3)
        if not mixed and conj_closed:
            p = np.array([p[2 * (i_ // 2)] if i_ < 2 * (n // 2) else p[i_] for i_ in range(n)], dtype=float)  # a vector and its conjugate are equally likely
            p = p / p.sum()
        s = sum(pi * x for pi, x in zip(p, rhos))
        if np.linalg.eigvalsh(ref.herm(s)).min() > 1e-3:
            break
    else:
        return ctx.note_inconclusive("non-spanning-ensemble")
    pg = _call(ctx, pretty_good_measurement, [x.copy() for x in inp], list(p))
    pb = _call(ctx, pretty_bad_measurement, [x.copy() for x in inp], list(p))
    sig = (d, n, cplx, mixed)
    if pg is not None:
        pg = [np.asarray(m, dtype=complex) for m in pg]
        neg, comp, hdev = certs.povm_defect(pg, d)
        ctx.check("meas:pgm-is-povm", max(neg, comp, hdev) <= 1e-7, dev=max(neg, comp, hdev), tol=1e-7, sig=sig, nt=True, mech="pretty_good_measurement:not-a-povm", detail={"d": d, "n": n, "defects": [neg, comp, hdev]})
        w, u = np.linalg.eigh(ref.herm(s))
        isq = (u / np.sqrt(w)) @ u.conj().T
        model = [isq @ (pi * x) @ isq for pi, x in zip(p, rhos)]
        dev = max(float(np.abs(a - b).max()) for a, b in zip(pg, model))
        ctx.check("meas:pgm-is-povm", dev <= 1e-7, dev=dev, tol=1e-7, sig=sig + ("definition",), nt=True, mech="pretty_good_measurement:differs-from-definition", detail={"d": d, "n": n})
        p_pgm = float(sum(pi * np.trace(x @ m).real for pi, x, m in zip(p, rhos, pg)))
        ctx.evals["solver-call"] += 1
        res = ctx.call(state_distinguishability, [x.copy() for x in inp], list(p), solver=True)
        if res is not FAILED:
            ms = [arr(m) for m in res[1]]
            cands = []
            for cand in (ms, [m.conj() for m in ms]):
                if max(certs.povm_defect(cand, d)) < 1e-5:
                    cands.append(certs.min_error_certificate(rhos, p, cand))
            if cands:
                attained = max(c[0] for c in cands)
                upper = min(c[1] for c in cands)
                ok = p_pgm <= upper + 1e-5 and p_pgm >= attained ** 2 - 1e-5
                ctx.check("meas:pgm-between-opt^2-and-opt", ok, sig=sig, nt=True, mech="pretty_good_measurement:outside-[P_opt^2,P_opt]", detail={"P_pgm": p_pgm, "P_opt_lower": attained, "P_opt_upper": upper})
                ctx.sample("meas:pgm-between-opt^2-and-opt", {"d": d, "n": n, "P_pgm": p_pgm, "P_opt": [attained, upper]})
    if pb is not None and n >= 2:
        pb = [np.asarray(m, dtype=complex) for m in pb]
        neg, comp, hdev = certs.povm_defect(pb, d)
        ctx.check("meas:pbm-is-povm", max(neg, comp, hdev) <= 1e-7, dev=max(neg, comp, hdev), tol=1e-7, sig=sig, nt=True, mech="pretty_bad_measurement:not-a-povm", detail={"d": d, "n": n, "defects": [neg, comp, hdev]})
    # the library's own POVM predicate must agree with the model check on these operators and on perturbed ones
    from toqito.measurement_props import is_povm

    if pg is not None:
        v = ctx.call(is_povm, [m.copy() for m in pg])
        if v is not FAILED:
            ctx.check("meas:is_povm", bool(v) is True, sig=("pgm", d), nt=True, mech="is_povm:rejects-valid-povm", detail={"d": d, "n": n})
        v = ctx.call(is_povm, [1.05 * m for m in pg])
        if v is not FAILED:
            ctx.check("meas:is_povm", bool(v) is False, sig=("scaled", d), nt=True, mech="is_povm:accepts-incomplete-set", detail={"d": d, "n": n})
        if len(pg) >= 2:
            shift = 0.2 * np.eye(d)
            v = ctx.call(is_povm, [pg[0] + shift + (ref.eigmax(pg[1]) + 0.1) * np.eye(d), pg[1] - shift - (ref.eigmax(pg[1]) + 0.1) * np.eye(d)] + [m.copy() for m in pg[2:]])
            if v is not FAILED:
                ctx.check("meas:is_povm", bool(v) is False, sig=("negative-element", d), nt=True, mech="is_povm:accepts-non-psd-element", detail={"d": d, "n": n})
    res = ctx.call(pretty_good_measurement, [x.copy() for x in inp], list(p * 1.1), expect=(ValueError,))
    if res is not FAILED:
        ctx.check("meas:pgm-is-povm", isinstance(res, ValueError), sig=("rejects-unnormalised-prior",), mech="pretty_good_measurement:accepts-unnormalised-prior", detail={})


def _run_measure(ctx, spec, rng):
    from toqito.measurement_ops import measure

    r = spec[1]
    d = 2 + r % 4
    cplx = bool(r % 2)
    rho = gen.density(rng, d, 1 + (r // 2) % d, cplx)
    state_kind = "same-field"
    if (r // 4) % 3 == 1:  # real-dtype state measured with complex operators
        rho, cplx, state_kind = np.ascontiguousarray(gen.density(rng, d, 1 + (r // 2) % d, False).real), True, "float-state"
    elif (r // 4) % 3 == 2:  # integer-dtype basis state measured with complex operators
        rho, cplx, state_kind = np.zeros((d, d), dtype=int), True, "int-state"
        rho[r % d, r % d] = 1
    kind = r % 4
    if kind == 0:  # projective measurement in a Haar basis
        u = gen.haar(rng, d, real=not cplx)
        ops = [np.outer(u[:, i], u[:, i].conj()) for i in range(d)]
    elif kind == 1:  # generic complete Kraus set (slices of an isometry)
        ops = gen.stinespring_kraus(rng, d, d, int(rng.integers(2, 5)), cplx)
    elif kind == 2:  # coarse-grained projectors
        u = gen.haar(rng, d, real=not cplx)
        k = int(rng.integers(1, d))
        ops = [u[:, :k] @ u[:, :k].conj().T, u[:, k:] @ u[:, k:].conj().T]
    else:  # Kraus operators with different output dimension
        ops = gen.stinespring_kraus(rng, d, d + 1, 2, cplx)
    want_p = [float(np.trace(k @ rho @ k.conj().T).real) for k in ops]
    probs = _call(ctx, measure, rho.copy(), [k.copy() for k in ops])
    sig = (d, kind, cplx, state_kind)
    if probs is not None:
        dev = max(abs(a - b) for a, b in zip(probs, want_p)) if len(probs) == len(want_p) else float("inf")
        ctx.check("meas:born-probabilities", dev <= 1e-10 and abs(sum(probs) - 1) <= 1e-9, dev=dev, tol=1e-10, sig=sig, nt=True, mech="measure:not-born-rule-or-not-normalised",
                  detail={"d": d, "kind": kind, "probs": probs, "want": want_p})
    upd = _call(ctx, measure, rho.copy(), [k.copy() for k in ops], state_update=True)
    if upd is not None:
        okk = len(upd) == len(ops)
        worst = 0.0
        if okk:
            for (pr, post), k, wp in zip(upd, ops, want_p):
                if wp > 1e-8:
                    want_post = k @ rho @ k.conj().T / wp
                    worst = max(worst, abs(pr - wp), float(np.abs(np.asarray(post) - want_post).max()), abs(np.trace(post) - 1))
        ctx.check("meas:post-states", okk and worst <= 1e-9, dev=worst, tol=1e-9, sig=sig, nt=True, mech="measure:post-measurement-state-wrong", detail={"d": d, "kind": kind})
        ctx.sample("meas:post-states", {"d": d, "kind": kind, "probabilities": want_p})
    one = _call(ctx, measure, rho.copy(), ops[0].copy())
    if one is not None:
        ctx.check("meas:born-probabilities", abs(float(one) - want_p[0]) <= 1e-10, sig=sig + ("single",), nt=True, mech="measure:single-operator-probability", detail={"d": d})
    # incomplete Kraus set with state_update: rejected (all outcome probabilities are positive for a full-rank state)
    full = gen.density(rng, d, d, cplx)
    inc = [0.8 * k for k in ops]
    res = ctx.call(measure, full, inc, state_update=True, expect=(ValueError,))
    if res is not FAILED and min(float(np.trace(k @ full @ k.conj().T).real) for k in inc) > 1e-6:
        ctx.check("meas:rejects-incomplete", isinstance(res, ValueError), sig=sig, nt=True, mech="measure:accepts-incomplete-kraus-set-with-state-update", detail={"d": d, "kind": kind})
    bad = rho * 1.2
    res = ctx.call(measure, bad, [k.copy() for k in ops], expect=(ValueError,))
    if res is not FAILED:
        ctx.check("meas:rejects-incomplete", isinstance(res, ValueError), sig=("non-density-state",), nt=True, mech="measure:accepts-non-density-state", detail={"d": d})
