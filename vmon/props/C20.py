"""C20 - channel distance measures equal their definitions and known closed forms."""
from __future__ import annotations

import numpy as np

from .. import gen, ref, tracer
from ..core import FAILED

DECIDING = ["O1:diamond-symmetric", "O1:diamond-zero-on-equal", "O1:diamond-choi-bounds", "O1:diamond-unitary-closed-form", "O1:diamond-unitary-invariant",
            "O1:diamond>=explicit-input", "O2:cb-homogeneous", "O2:cb-channel=1", "O2:cb-CP=operator-norm", "O3:cb-spectral=cb-trace-of-dual",
            "O4:fidelity-symmetric", "O4:fidelity-equal=1", "O4:fidelity<=choi-fidelity", "O4:fidelity-closed-form", "O4:fidelity=reference-sdp",
            "O5:channel-fidelity-of-separability"]
RULE = ("pairs of qubit and qutrit maps given by Choi matrices: unitary channels, mixtures of unitaries, Haar-Stinespring CPTP maps, differences of channels, general "
        "Hermiticity-preserving maps, replacement channels; signature (monitor, d, class of the pair); non-trivial when the pair is not identical")
ASSUMPTIONS = [
    "diamond_distance is the cb trace norm of the difference (range [0, 2]); picos/cvxopt, tolerance 2e-5 relative; channel_fidelity uses SCS with eps 1e-7, tolerance 2e-3 (square-root amplification of the solver accuracy)",
    "unitary closed form: delta = cos(Theta/2) with Theta the length of the shortest arc containing all eigenvalues of U^dagger V (0 if Theta >= pi), computed without a solver",
    "lower bounds on the diamond norm from explicit inputs |psi> = (A x 1)|Omega>: |(A x 1) J (A^dagger x 1)|_1, NumPy only",
    "channel_fidelity for qutrits costs 15-20 s per call: one instance in the quick tier; d = 4, 5 only in the thorough tier",
    "the return statement that produced each completely_bounded_trace_norm value is recorded (channel shortcut / CP shortcut / SDP)",
]
TOLA = 2e-5
TOLF = 2e-3  # root-fidelity SDPs amplify the solver accuracy eps = 1e-7 to about sqrt(eps) = 3e-4; observed up to 5.8e-4
SOLVER_TIME_LIMIT = 400
CASE_TIMEOUT = {"quick": 900, "thorough": 2400}


def cases(tier):
    out = [("diamond", r) for r in range(40 if tier == "quick" else 900)]
    out += [("cb", r) for r in range(40 if tier == "quick" else 900)]
    out += [("fid", r) for r in range(12 if tier == "quick" else 220)]
    out += [("fos", r) for r in range(12 if tier == "quick" else 96)]
    return out


def setup(ctx):
    import sys

    tracer.watch([sys.modules["toqito.channel_metrics.completely_bounded_trace_norm"].completely_bounded_trace_norm], ctx.sites)


def run(ctx, spec, rng):
    globals()["_run_" + spec[0]](ctx, spec, rng)


def _solve(ctx, fn, *a, **k):
    ctx.evals["solver-call"] += 1
    v = ctx.call(fn, *a, solver=True, **k)
    if v is FAILED or v is None:
        return None
    v = float(np.real(v))
    return v if np.isfinite(v) else None


def choi(kraus, b_ops=None):
    d_in = kraus[0].shape[1]
    return ref.choi_of(kraus, kraus if b_ops is None else b_ops, d_in)


def unitary_delta(u, v):
    ang = np.sort(np.angle(np.linalg.eigvals(u.conj().T @ v)))
    gaps = np.diff(np.concatenate([ang, [ang[0] + 2 * np.pi]]))
    theta = 2 * np.pi - gaps.max()
    return float(np.cos(theta / 2)) if theta < np.pi else 0.0


def near_unitary(rng, u, strength):
    from scipy.linalg import expm

    d = u.shape[0]
    h = gen.hermitian(rng, d)
    return u @ expm(1j * strength * h / np.linalg.norm(h, 2))


def explicit_lower(rng, jdiff, d, tries=40):
    best = ref.trace_norm(jdiff) / d
    for _ in range(tries):
        a = ref.psd_sqrt(gen.density(rng, d, int(rng.integers(1, d + 1))))
        big = np.kron(a, np.eye(jdiff.shape[0] // d))
        best = max(best, ref.trace_norm(big @ jdiff @ big.conj().T))
    return best


def _run_diamond(ctx, spec, rng):
    from toqito.channel_metrics import diamond_distance

    r = spec[1]
    d = 2 if r % 4 else 3
    kind = ["unitary", "cptp", "mixed-unitary", "unitary-far", "equal", "measure-prepare", "cptp"][r % 7]
    mp_want = None
    if kind == "measure-prepare":
        # both channels measure in the computational basis and prepare a pure state per outcome: the diamond distance is the largest trace distance
        # between the states prepared for one outcome, max_i | sigma_i - tau_i |_1
        s_ = [gen.unit(rng, d) for _ in range(d)]
        t_ = [gen.unit(rng, d) if i_ % 2 == 0 or rng.random() < 0.5 else s_[i_].copy() for i_ in range(d)]
        if r % 14 >= 7:  # reset-type: one of the channels prepares the same state for every outcome
            t_ = [t_[0].copy() for _ in range(d)]
        k1 = [np.outer(s_[i_], np.eye(d)[i_]) for i_ in range(d)]
        k2 = [np.outer(t_[i_], np.eye(d)[i_]) for i_ in range(d)]
        mp_want = max(2 * np.sqrt(max(0.0, 1 - abs(np.vdot(a_, b_)) ** 2)) for a_, b_ in zip(s_, t_))
    elif kind in ("unitary", "unitary-far"):
        u = gen.haar(rng, d)
        v = near_unitary(rng, u, 0.5 if kind == "unitary" else 2.5)
        k1, k2 = [u], [v]
    elif kind == "cptp":
        k1, k2 = gen.stinespring_kraus(rng, d, d, 2), gen.stinespring_kraus(rng, d, d, int(rng.integers(1, 4)))
    elif kind == "mixed-unitary":
        w = rng.random(2)
        w /= w.sum()
        k1 = [np.sqrt(w[i]) * gen.haar(rng, d) for i in range(2)]
        k2 = [gen.haar(rng, d)]
    else:
        k1 = gen.stinespring_kraus(rng, d, d, 2)
        k2 = [k.copy() for k in k1]
    j1, j2 = choi(k1), choi(k2)
    dd = _solve(ctx, diamond_distance, j1.copy(), j2.copy())
    if dd is None:
        return
    sig = (d, kind)
    nt = kind != "equal"
    det = {"d": d, "class": kind, "diamond": dd}
    ctx.sample("O1:diamond-choi-bounds", det)
    tn = ref.trace_norm(j1 - j2)
    ctx.check("O1:diamond-choi-bounds", tn / d - TOLA * 2 <= dd <= min(tn, 2.0) + TOLA * 2, sig=sig, nt=nt, mech="diamond_distance:outside-choi-bounds",
              detail=dict(det, lower=tn / d, upper=min(tn, 2.0)))
    lo = explicit_lower(rng, j1 - j2, d)
    ctx.check("O1:diamond>=explicit-input", dd >= lo - TOLA * 2, dev=max(0.0, lo - dd), tol=TOLA * 2, sig=sig, nt=nt, mech="diamond_distance:below-value-attained-by-explicit-input", detail=dict(det, attained=lo))
    if kind == "equal":
        ctx.check("O1:diamond-zero-on-equal", abs(dd) <= TOLA, sig=sig, nt=False, mech="diamond_distance:nonzero-on-equal-channels", detail=det)
        return
    back = _solve(ctx, diamond_distance, j2.copy(), j1.copy())
    if back is not None:
        ctx.check("O1:diamond-symmetric", None, dev=abs(back - dd), tol=TOLA * 2, sig=sig, nt=True, mech="diamond_distance:not-symmetric", detail=dict(det, reverse=back))
    if mp_want is not None:
        ctx.check("O1:diamond-unitary-closed-form", None, dev=abs(dd - mp_want), tol=1e-4, sig=sig, nt=True, mech="diamond_distance:measure-and-prepare-closed-form", detail=dict(det, want=mp_want))
    if kind in ("unitary", "unitary-far"):
        delta = unitary_delta(k1[0], k2[0])
        want = 2 * np.sqrt(max(0.0, 1 - delta ** 2))
        ctx.check("O1:diamond-unitary-closed-form", None, dev=abs(dd - want), tol=1e-4, sig=sig, nt=True, mech="diamond_distance:unitary-closed-form", detail=dict(det, delta=delta, want=want))
    if r % 2 == 0:
        w_pre, w_post = gen.haar(rng, d), gen.haar(rng, d)
        j1r, j2r = choi([w_post @ k @ w_pre for k in k1]), choi([w_post @ k @ w_pre for k in k2])
        rot = _solve(ctx, diamond_distance, j1r, j2r)
        if rot is not None:
            ctx.check("O1:diamond-unitary-invariant", None, dev=abs(rot - dd), tol=TOLA * 4, sig=sig, nt=True, mech="diamond_distance:not-invariant-under-common-unitary", detail=dict(det, rotated=rot))


def _cb(ctx, j):
    from toqito.channel_metrics import completely_bounded_trace_norm

    tracer.clear_last("completely_bounded_trace_norm")
    v = _solve(ctx, completely_bounded_trace_norm, j)
    return v, tracer.last_site("completely_bounded_trace_norm")


def _run_cb(ctx, spec, rng):
    from toqito.channel_metrics import completely_bounded_spectral_norm, completely_bounded_trace_norm

    r = spec[1]
    d = 2 if r % 3 else 3
    kind = ["channel", "cp", "hp-difference", "hp-general", "cp-replacement", "hp-transpose", "hp-unital-affine", "general-AXB", "hp-difference",
            "tp-not-hp"][r % 10]
    phase = 1.0
    if kind == "general-AXB":  # X -> A X B^dagger with A != B: not Hermiticity preserving; both cb norms equal |A| |B| (operator norms)
        a_, b_ = gen.rc(rng, d, d), gen.rc(rng, d, d)
        j = choi([a_], [b_])
    elif kind == "tp-not-hp":
        # a full-rank channel plus i t (channel - channel): trace preserving, not Hermiticity preserving, Choi matrix not Hermitian although a
        # Hermitian completion of one of its triangles may well be positive semidefinite; the norm exceeds 1 and is bracketed by explicit inputs
        t_ = float(rng.uniform(0.05, 0.5))
        base = 0.7 * choi(gen.stinespring_kraus(rng, d, d, d * d)) + 0.3 * np.eye(d * d) / d
        j = base + 1j * t_ * (choi([gen.haar(rng, d)]) - choi([gen.haar(rng, d)]))
    elif kind == "hp-transpose":  # X -> X^T: Hermiticity preserving, unital, trace preserving, not CP; every cb norm equals d
        j = sum(np.kron(e_, e_.T) for e_ in (np.outer(np.eye(d)[a_], np.eye(d)[b_]) for a_ in range(d) for b_ in range(d)))
    elif kind == "hp-unital-affine":  # (1 + t) id - t U . U^dagger: Hermiticity preserving, unital, trace preserving, not CP
        t_ = float(rng.uniform(0.2, 1.5))
        u_ = gen.haar(rng, d)
        j = choi([np.sqrt(1 + t_) * np.eye(d), np.sqrt(t_) * u_], [np.sqrt(1 + t_) * np.eye(d), -np.sqrt(t_) * u_])
    elif kind == "channel":
        j = choi(gen.stinespring_kraus(rng, d, d, int(rng.integers(1, 4))))
    elif kind == "cp":
        ks = [gen.rc(rng, d, d) for _ in range(int(rng.integers(1, 3)))]
        j = choi(ks)
    elif kind == "cp-replacement":
        j = np.kron(np.eye(d), np.eye(d))  # X -> Tr(X) * identity: CP, not TP; Phi*(1) = d * 1
        ks = None
    elif kind == "hp-difference":
        j = choi(gen.stinespring_kraus(rng, d, d, 2)) - float(rng.uniform(0.5, 2.0)) * choi(gen.stinespring_kraus(rng, d, d, 2))
    else:
        a = [gen.rc(rng, d, d) for _ in range(2)]
        j = choi(a, [a[0], -a[1]])
    val, site = _cb(ctx, j.copy())
    if val is None:
        return
    sig = (d, kind)
    det = {"d": d, "class": kind, "value": val, "return_site": site}
    ctx.sample("O2:cb-homogeneous", det)
    if kind == "general-AXB":
        want_ab = float(np.linalg.norm(a_, 2) * np.linalg.norm(b_, 2))
        ctx.check("O2:cb-closed-form", None, dev=abs(val - want_ab) / (1 + want_ab), tol=TOLA * 2, sig=sig, nt=True, mech="cb_trace_norm:AXB-map!=|A||B|", detail=dict(det, want=want_ab))
    if kind == "hp-transpose":
        ctx.check("O2:cb-closed-form", None, dev=abs(val - d), tol=TOLA * (1 + d), sig=sig, nt=True, mech="cb_trace_norm:transpose-map!=d", detail=det)
    if kind == "channel":
        ctx.check("O2:cb-channel=1", abs(val - 1) <= TOLA, sig=sig, nt=True, mech="cb_trace_norm:channel!=1", detail=det)
    if kind in ("cp", "cp-replacement"):
        dual_of_identity = ref.partial_trace(j, [1], [d, d]).T  # Phi*(1) = Tr_out(J)^T
        want = float(np.linalg.norm(dual_of_identity, 2))
        mech = "cb_trace_norm:CP-map!=operator-norm-of-dual-on-identity"
        if abs(val - want) > TOLA * (1 + want) and abs(val - float(np.trace(j).real)) <= TOLA * (1 + want) and site and "trace_norm(v)" in site:
            mech = "cb_trace_norm:CP-shortcut-returns-Tr(J)[trace-norm-of-dual-applied-to-oversized-identity]"
        ctx.check("O2:cb-CP=operator-norm", None, dev=abs(val - want) / (1 + want), tol=TOLA, sig=sig, nt=True, mech=mech, detail=dict(det, operator_norm=want, trace_of_choi=float(np.trace(j).real)))
    if kind in ("channel", "cp", "cp-replacement"):
        # absolute homogeneity on completely positive maps: c Phi is not CP for a negative or complex c, its norm is |c| times the closed form
        truth = 1.0 if kind == "channel" else float(np.linalg.norm(ref.partial_trace(j, [1], [d, d]), 2))
        c = [1j, 2 * np.exp(0.7j), -0.5j, -1.0, np.exp(-0.3j), 0.5 + 0.5j][int(rng.integers(0, 6))]
        scaled, site_c = _cb(ctx, c * j)
        if scaled is not None:
            ctx.check("O2:cb-homogeneous", None, dev=abs(scaled - abs(c) * truth) / (1 + abs(c) * truth), tol=TOLA * 2, sig=sig + ("scaled-cp",), nt=True,
                      mech="cb_trace_norm:not-absolutely-homogeneous[scaled-CP-map]", detail=dict(det, c=c, scaled=scaled, want=abs(c) * truth, site=site_c))
    if kind == "tp-not-hp":
        lo = explicit_lower(rng, j, d)
        ctx.check("O1:diamond>=explicit-input", val >= lo - TOLA * (1 + lo) and val <= ref.trace_norm(j) + TOLA * (1 + lo), sig=sig, nt=True,
                  mech="cb_trace_norm:outside-explicit-bracket[not-hermiticity-preserving]", detail=dict(det, attained=lo, upper=ref.trace_norm(j)))
        c = [1j, -1.0, np.exp(0.7j), 2.0][int(rng.integers(0, 4))]
        scaled, _ = _cb(ctx, c * j)
        if scaled is not None:
            ctx.check("O2:cb-homogeneous", None, dev=abs(scaled - abs(c) * val) / (1 + abs(c) * val), tol=TOLA * 2, sig=sig, nt=True, mech="cb_trace_norm:not-absolutely-homogeneous",
                      detail=dict(det, c=c, scaled=scaled))
    # bracket by NumPy-evaluated bounds (valid for every map): explicit inputs below, |J|_1 above for Hermiticity-preserving maps
    if kind.startswith("hp"):
        lo = explicit_lower(rng, j, d)
        ctx.check("O1:diamond>=explicit-input", val >= lo - TOLA * (1 + lo) and val <= ref.trace_norm(j) + TOLA * (1 + lo), sig=sig, nt=True, mech="cb_trace_norm:outside-explicit-bracket",
                  detail=dict(det, attained=lo, upper=ref.trace_norm(j)))
        c = [-2.5, 0.3, -1.0, 4.0, 1j, 2 * np.exp(0.7j), -0.5j][int(rng.integers(0, 7))]  # absolutely homogeneous: also for complex scalars
        scaled, _ = _cb(ctx, c * j)
        if scaled is not None:
            ctx.check("O2:cb-homogeneous", None, dev=abs(scaled - abs(c) * val) / (1 + abs(c) * val), tol=TOLA * 2, sig=sig, nt=True, mech="cb_trace_norm:not-absolutely-homogeneous",
                      detail=dict(det, c=c, scaled=scaled))
    # cb spectral norm = cb trace norm of the (model) dual map
    dual_j = ref.permute(j.conj(), [1, 0], [d, d], [d, d])
    sp = _solve(ctx, completely_bounded_spectral_norm, j.copy())
    tr_dual, site_d = _cb(ctx, dual_j)
    if sp is not None and kind == "hp-transpose":
        ctx.check("O2:cb-closed-form", None, dev=abs(sp - d), tol=TOLA * (1 + d), sig=sig + ("spectral",), nt=True, mech="cb_spectral_norm:transpose-map!=d", detail=dict(det, spectral=sp))
    if sp is not None and tr_dual is not None:
        ctx.check("O3:cb-spectral=cb-trace-of-dual", None, dev=abs(sp - tr_dual) / (1 + abs(tr_dual)), tol=TOLA * 2, sig=sig, nt=True, mech="cb_spectral_norm:differs-from-cb-trace-norm-of-dual",
                  detail=dict(det, spectral=sp, trace_of_dual=tr_dual))
        if kind in ("cp", "cp-replacement"):
            want_sp = float(np.linalg.norm(ref.partial_trace(j, [0], [d, d]), 2))  # Phi(1) = Tr_in(J)
            mech = "cb_spectral_norm:CP-map!=operator-norm-of-map-on-identity"
            if abs(sp - want_sp) > TOLA * (1 + want_sp) and abs(sp - float(np.trace(j).real)) <= TOLA * (1 + want_sp):
                mech = "cb_trace_norm:CP-shortcut-returns-Tr(J)[trace-norm-of-dual-applied-to-oversized-identity]"
            ctx.check("O2:cb-CP=operator-norm", None, dev=abs(sp - want_sp) / (1 + want_sp), tol=TOLA, sig=sig + ("spectral",), nt=True, mech=mech, detail=dict(det, spectral=sp, operator_norm=want_sp))


def reference_channel_fidelity(j1, j2, d):
    """Independent SDP of the definition (PSD ordering on the Hermitian part of Tr_out Q), SCS eps 1e-7."""
    import cvxpy

    lam = cvxpy.Variable()
    q = cvxpy.Variable((d * d, d * d), complex=True)
    # Tr over the output (second) factor, written without the library: sum of diagonal blocks
    blocks = [[sum(q[i * d + k, j * d + k] for k in range(d)) for j in range(d)] for i in range(d)]
    t = cvxpy.bmat(blocks)
    cons = [cvxpy.bmat([[j1, q.H], [q, j2]]) >> 0, (t + t.H) / 2 - lam * np.eye(d) >> 0]
    prob = cvxpy.Problem(cvxpy.Maximize(lam), cons)
    prob.solve(solver=cvxpy.SCS, eps=1e-7)
    return float(prob.value)


def _run_fid(ctx, spec, rng):
    from toqito.channel_metrics import channel_fidelity

    r = spec[1]
    if ctx.tier == "quick":
        d = 3 if r == 5 else 2
    else:
        d = [2, 2, 2, 3, 2, 2, 3, 2, 4, 2, 2, 5][r % 12] if r % 24 < 12 else 2
    kind = ["unitary", "replacement", "cptp", "equal", "mixed-unitary", "unitary", "real-dtype-vs-complex"][r % 7]
    if kind == "real-dtype-vs-complex":
        # the first Choi matrix has a real dtype (identity channel or a real rotation), the second is genuinely complex: closed form for two unitaries
        u = np.eye(d) if r % 2 else gen.haar(rng, d, real=True)
        v = u @ gen.haar(rng, d) if r % 3 else u @ np.diag(np.exp(1j * rng.uniform(0.2, 1.2, size=d)))
        j1, j2 = np.ascontiguousarray(choi([u]).real), choi([v])
        closed = unitary_delta(u.astype(complex), v)
    elif kind == "unitary":
        u = gen.haar(rng, d)
        v = near_unitary(rng, u, 0.4 + 0.4 * rng.random())
        j1, j2 = choi([u]), choi([v])
        closed = unitary_delta(u, v)
    elif kind == "replacement":
        s1, s2 = gen.density(rng, d), gen.density(rng, d)
        j1, j2 = np.kron(np.eye(d), s1), np.kron(np.eye(d), s2)
        closed = ref.root_fidelity(s1, s2)
    elif kind == "equal":
        j1 = choi(gen.stinespring_kraus(rng, d, d, 2))
        j2 = j1.copy()
        closed = 1.0
    elif kind == "cptp":
        j1, j2 = choi(gen.stinespring_kraus(rng, d, d, 2)), choi(gen.stinespring_kraus(rng, d, d, 2))
        closed = None
    else:
        w = rng.random(2)
        w /= w.sum()
        j1 = choi([np.sqrt(w[i]) * gen.haar(rng, d) for i in range(2)])
        j2 = choi([gen.haar(rng, d)])
        closed = None
    cls = "d-not-in-{2,3,4}" if d not in (2, 3, 4) else "d-in-{2,3,4}"
    ctx.evals["solver-call"] += 1
    val = ctx.call(channel_fidelity, j1.copy(), j2.copy(), solver=True, mech=f"crash:channel_fidelity[{cls}]")
    if val is FAILED or val is None or not np.isfinite(val):
        return
    val = float(np.real(val))
    sig = (d, kind)
    det = {"d": d, "class": kind, "channel_fidelity": val, "closed_form": closed}
    ctx.sample("O4:fidelity-closed-form", det)
    choi_f = ref.root_fidelity(j1 / d, j2 / d)
    mech_suffix = "[entrywise-inequality-or-log2-dimension]"
    ctx.check("O4:fidelity<=choi-fidelity", val <= choi_f + TOLF and val >= -TOLF, dev=max(0.0, val - choi_f), tol=TOLF, sig=sig, nt=kind != "equal",
              mech="channel_fidelity:above-fidelity-of-choi-states", detail=dict(det, choi_state_fidelity=choi_f))
    if closed is not None:
        mon = "O4:fidelity-equal=1" if kind == "equal" else "O4:fidelity-closed-form"
        ctx.check(mon, None, dev=abs(val - closed), tol=TOLF, sig=sig, nt=kind != "equal", mech="channel_fidelity:differs-from-closed-form" + mech_suffix, detail=det)
    if d <= 3 and (d == 2 or ctx.tier == "thorough" or r == 5):
        refv = reference_channel_fidelity(j1, j2, d)
        ctx.check("O4:fidelity=reference-sdp", None, dev=abs(val - refv), tol=TOLF, sig=sig, nt=kind != "equal", mech="channel_fidelity:differs-from-definition-sdp" + mech_suffix, detail=dict(det, reference=refv))
    if kind != "equal" and d == 2:
        ctx.evals["solver-call"] += 1
        back = ctx.call(channel_fidelity, j2.copy(), j1.copy(), solver=True)
        if back is not FAILED and back is not None and np.isfinite(back):
            ctx.check("O4:fidelity-symmetric", None, dev=abs(float(np.real(back)) - val), tol=TOLF, sig=sig, nt=True, mech="channel_fidelity:not-symmetric", detail=dict(det, reverse=back))


def _run_fos(ctx, spec, rng):
    from toqito.channel_metrics import fidelity_of_separability

    r = spec[1]
    dims = [[2, 2, 2], [2, 2, 3], [3, 2, 2], [2, 3, 2], [2, 2, 2], [3, 2, 3]][r % 6]  # B, A, R: unequal local dimensions in every position
    cplx = bool((r // 6) % 2)
    v = ref.kron_all([gen.unit(rng, x, cplx).reshape(-1, 1) for x in dims]).reshape(-1)
    psi = np.outer(v, v.conj())
    k = 2 if r % 6 < 4 else 1
    if (r // 12) % 2:
        k = 3 - k
    ctx.evals["solver-call"] += 1
    val = ctx.call(fidelity_of_separability, psi, list(dims), k, solver=True)
    if val is FAILED or val is None:
        return
    ctx.check("O5:channel-fidelity-of-separability", None, dev=abs(float(np.real(val)) - 1), tol=1e-4, sig=(tuple(dims), k, cplx), nt=True, mech="channel_fidelity_of_separability:product-state!=1",
              detail={"dims": dims, "k": k, "value": val})
    ctx.sample("O5:channel-fidelity-of-separability", {"dims": dims, "k": k, "value": val})
