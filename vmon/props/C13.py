"""C13 - state distance and fidelity measures equal their definitions and inequalities."""
from __future__ import annotations

import numpy as np

from .. import gen, ref
from ..core import FAILED

DECIDING = ["O1:fidelity", "O1:trace_distance", "O1:hilbert_schmidt", "O1:hs_inner_product", "O1:helstrom_holevo", "O1:bures_distance", "O1:bures_angle",
            "O1:sub_fidelity", "O1:matsumoto_fidelity", "O1:trace_norm", "O2:symmetric", "O2:unitary-invariant", "O2:extremes", "O2:pure-overlap",
            "O2:triangle", "O2:fuchs-van-de-graaf", "O2:sub<=F^2", "O2:matsumoto<=F", "O3:rejects-non-density", "O4:fidelity_of_separability"]
RULE = ("pairs (and triples) of density operators of dimension 2..6, every rank, real and complex: generic, pure, commuting, orthogonal-support, identical and "
        "nearly equal (|rho - sigma| ~ 1e-6) pairs; signature (monitor, d, rank class, field, pair class); non-trivial when the pair is not identical; plus integer-dtype basis projectors and one array "
        "object passed as both arguments (values and rejections)")
THOROUGH_REPEAT = 3  # the thorough tier runs its randomised case kinds this many times (new inputs each time)
THOROUGH_REPEAT_SKIP = ("fos",)
ASSUMPTIONS = [
    "documented formulas recomputed with Hermitian eigendecompositions (never sqrtm): fidelity = root fidelity |sqrt(rho) sqrt(sigma)|_1 as documented, "
    "bures_angle = arccos sqrt F, helstrom_holevo = 1/2 + 1/4 |rho - sigma|_1 as documented",
    "tolerance 1e-6 (matrix functions on singular inputs); Bures quantities are compared through 2(1-F) resp. cos^2 because the library rounds F to 10 decimals: "
    "1e-9 when both states have lambda_min >= 1e-3, 5e-6 otherwise",
    "Matsumoto fidelity only for full-rank pairs (lambda_min >= 0.02)",
    "fidelity of separability through picos/cvxopt, tolerance 1e-5; 3x3 with k=2 costs ~90 s and is run in the thorough tier only",
]
T2 = 1e-6
SOLVER_TIME_LIMIT = 400
CASE_TIMEOUT = {"quick": 300, "thorough": 900}


def cases(tier):
    out = [("pair", r) for r in range(400 if tier == "quick" else 100000)]
    out += [("reject", r) for r in range(60 if tier == "quick" else 6000)]
    out += [("fos", r) for r in range(10 if tier == "quick" else 60)]
    return out


def run(ctx, spec, rng):
    globals()["_run_" + spec[0]](ctx, spec, rng)


def make_pair(rng, r):
    d = int(rng.integers(2, 7))
    cplx = bool(r % 2)
    cls = ["generic", "generic", "pure", "commuting", "orthogonal", "identical", "near", "mixed-pure", "basis-int", "nearly-pure"][r % 10]
    rk = lambda: int(rng.integers(1, d + 1))  # noqa: E731
    if cls == "basis-int":  # computational-basis projectors written the way users write them: integer dtype
        i, j = int(rng.integers(0, d)), int(rng.integers(0, d))
        rho, sig = np.zeros((d, d), dtype=int), np.zeros((d, d), dtype=int)
        rho[i, i] = 1
        sig[j, j] = 1
        return d, False, "identical-int" if i == j else "orthogonal-int", rho, sig
    if cls == "generic":
        rho, sig = gen.density(rng, d, rk(), cplx), gen.density(rng, d, rk(), cplx)
    elif cls == "pure":
        a, b = gen.unit(rng, d, cplx), gen.unit(rng, d, cplx)
        rho, sig = np.outer(a, a.conj()), np.outer(b, b.conj())
    elif cls == "nearly-pure":
        # genuinely mixed, but a rank estimate with an absolute cut-off takes it for pure: weight eps spread over the orthogonal complement
        # (a "pure state" shortcut that drops a term of order sqrt(eps) shows at 1e-6 already for eps = 4e-9)
        u = gen.haar(rng, d, real=not cplx)
        eps = [4e-9, 1e-7, 1e-10, 1e-5, 1e-3][(r // 10) % 5]
        lam = np.concatenate([[1 - eps], np.full(d - 1, eps / (d - 1))])
        rho = ref.herm((u * lam) @ u.conj().T)
        sig = gen.density(rng, d, d if r % 20 < 10 else rk(), cplx)
    elif cls == "mixed-pure":
        a = gen.unit(rng, d, cplx)
        rho, sig = np.outer(a, a.conj()), gen.density(rng, d, rk(), cplx)
    elif cls == "commuting" and r % 16 >= 8:
        # commuting pairs with degenerate spectra: the maximally mixed state against a generic full-rank one, or two states sharing a degenerate
        # eigenspace inside which only one of them is diagonal
        sig = 0.8 * gen.density(rng, d, d, cplx) + 0.2 * np.eye(d) / d
        if r % 32 >= 24 and d >= 3:
            w_, v_ = np.linalg.eigh(ref.herm(sig))
            lam = np.array(sorted(rng.random(d - 1) + 0.2))
            lam = np.concatenate([[lam[0]], lam])  # one doubly degenerate level
            lam /= lam.sum()
            rho = ref.herm((v_ * lam) @ v_.conj().T)  # commutes with sigma; an eigensolver is free to pick any basis of its degenerate level
            cls = "commuting-degenerate"
        else:
            rho = np.eye(d) / d
            cls = "maximally-mixed-vs-generic"
    elif cls == "commuting":
        u = gen.haar(rng, d, real=not cplx)
        p, q = rng.random(d), rng.random(d)
        p[rng.random(d) < 0.3] = 0
        if p.sum() == 0:
            p[0] = 1
        rho, sig = ref.herm((u * (p / p.sum())) @ u.conj().T), ref.herm((u * (q / q.sum())) @ u.conj().T)
    elif cls == "orthogonal":
        u = gen.haar(rng, d, real=not cplx)
        k = int(rng.integers(1, d))
        p, q = rng.random(k) + 0.1, rng.random(d - k) + 0.1
        rho = ref.herm((u[:, :k] * (p / p.sum())) @ u[:, :k].conj().T)
        sig = ref.herm((u[:, k:] * (q / q.sum())) @ u[:, k:].conj().T)
    elif cls == "identical":
        rho = gen.density(rng, d, rk(), cplx)
        sig = rho.copy()
    else:
        rho = 0.9 * gen.density(rng, d, d, cplx) + 0.1 * np.eye(d) / d  # lambda_min >= 0.1/d, so the 1e-6 perturbation stays a density operator
        h = gen.hermitian(rng, d, cplx)
        h -= np.trace(h) / d * np.eye(d)
        dist = [1e-6, 1e-4, 1e-3, 1e-2][(r // 10) % 4]  # from "equal up to rounding of the fidelity" to clearly distinct
        sig = rho + dist * h / np.linalg.norm(h)
        sig = ref.herm(sig)
    if not cplx:
        rho, sig = rho.real, sig.real
    elif cls == "generic" and r % 4 == 1:
        # one state of real dtype, the other genuinely complex (each order occurs: the callers swap the arguments for the symmetry monitor)
        rho = np.ascontiguousarray(gen.density(rng, d, rk(), False).real)
        cls = "generic-real-vs-complex"
    return d, cplx, cls, rho, sig


def models(rho, sig):
    delta = ref.herm(np.asarray(rho - sig, dtype=complex))
    ev = np.linalg.eigvalsh(delta)
    f = ref.root_fidelity(rho, sig)
    t = 0.5 * np.abs(ev).sum()
    rs = rho @ sig
    e_in = 2 * (np.trace(rs) ** 2 - np.trace(rs @ rs))
    return {
        "fidelity": f,
        "trace_distance": t,
        "hilbert_schmidt": float(np.real(np.trace(delta @ delta))),
        "helstrom_holevo": 0.5 + 0.25 * np.abs(ev).sum(),
        "sub_fidelity": float(np.real(np.trace(rs) + np.sqrt(max(0.0, float(np.real(e_in)))))),
        "ev": ev,
    }


def matsumoto_model(rho, sig):
    """Tr(rho # sigma), geometric mean, full-rank inputs."""
    s = ref.psd_sqrt(rho)
    w, v = np.linalg.eigh(ref.herm(rho))
    s_inv = (v / np.sqrt(w)) @ v.conj().T
    mid = ref.psd_sqrt(s_inv @ sig @ s_inv)
    return float(np.real(np.trace(s @ mid @ s)))


def _val(ctx, fn, *a):
    v = ctx.call(fn, *a)
    return None if v is FAILED else v


def _run_pair(ctx, spec, rng):
    from toqito.matrix_props import trace_norm
    from toqito.state_metrics import (bures_angle, bures_distance, fidelity, helstrom_holevo, hilbert_schmidt, hilbert_schmidt_inner_product,
                                      matsumoto_fidelity, sub_fidelity, trace_distance)

    d, cplx, cls, rho, sig = make_pair(rng, spec[1])
    m = models(rho, sig)
    rkc = "full" if min(np.linalg.matrix_rank(rho, tol=1e-9), np.linalg.matrix_rank(sig, tol=1e-9)) == d else "deficient"
    sig_ = (d, rkc, cplx, cls)
    nt = not cls.startswith("identical")
    det = {"d": d, "class": cls, "complex": cplx}
    lib = {}
    for name, fn in (("fidelity", fidelity), ("trace_distance", trace_distance), ("hilbert_schmidt", hilbert_schmidt), ("helstrom_holevo", helstrom_holevo),
                     ("sub_fidelity", sub_fidelity)):
        v = _val(ctx, fn, rho.copy(), sig.copy())
        if v is None:
            continue
        lib[name] = float(np.real(v))
        mech = f"{name}:differs-from-definition"
        if name == "fidelity" and np.isnan(lib[name]) and m[name] <= 1e-6:
            # scipy.linalg.sqrtm of the (numerically zero, slightly indefinite) product sqrt(rho) sigma sqrt(rho) of an orthogonal pair returns nan
            mech = "fidelity:nan-on-orthogonal-pair[sqrtm-of-numerically-zero-product]"
        if name == "trace_distance" and abs(lib[name] - m[name]) > T2:
            alt = 0.5 * ref.trace_norm(np.abs(rho - sig))
            if abs(lib[name] - alt) <= T2:
                mech = "trace_distance:entrywise-abs-before-trace-norm"
        if name == "hilbert_schmidt" and abs(lib[name] - m[name]) > T2:
            alt = float(np.abs(m["ev"]).max() ** 2)
            if abs(lib[name] - alt) <= T2:
                mech = "hilbert_schmidt:squared-spectral-norm-instead-of-Tr(delta^2)"
        ctx.check("O1:" + name, None, dev=abs(lib[name] - m[name]), tol=T2, sig=sig_, nt=nt, mech=mech, detail=dict(det, library=lib[name], definition=m[name]))
    ctx.sample("O1:fidelity", dict(det, library=lib, definition={k: v for k, v in m.items() if k != "ev"}))
    if "fidelity" in lib and np.isnan(lib["fidelity"]):
        return  # reported once above; the relation monitors would only repeat it under other names
    if spec[1] % 5 == 0:  # the same array object as both arguments: the values of identical states
        same = {"fidelity": 1.0, "trace_distance": 0.0, "hilbert_schmidt": 0.0, "helstrom_holevo": 0.5, "sub_fidelity": models(rho, rho)["sub_fidelity"]}
        for name, fn in (("fidelity", fidelity), ("trace_distance", trace_distance), ("hilbert_schmidt", hilbert_schmidt), ("helstrom_holevo", helstrom_holevo),
                         ("sub_fidelity", sub_fidelity)):
            one = rho.copy()
            v = ctx.call(fn, one, one, freeze=False)
            if v is not FAILED:
                ctx.check("O1:" + name, None, dev=abs(float(np.real(v)) - same[name]), tol=T2, sig=(d, "same-object", cplx), nt=True, mech=f"{name}:same-object-twice", detail=det)
    v = _val(ctx, hilbert_schmidt_inner_product, rho.copy(), sig.copy())
    if v is not None:
        want = np.sum(rho.conj() * sig)
        ctx.check("O1:hs_inner_product", None, dev=abs(v - want), tol=1e-12, sig=sig_, nt=nt, mech="hilbert_schmidt_inner_product:definition", detail=det)
        a, b = gen.rc(rng, d, d), gen.rc(rng, d, d)
        v2 = _val(ctx, hilbert_schmidt_inner_product, a, b)
        if v2 is not None:
            ctx.check("O1:hs_inner_product", None, dev=abs(v2 - np.sum(a.conj() * b)) / (1 + abs(v2)), tol=1e-12, sig=("general", d), mech="hilbert_schmidt_inner_product:definition-general", detail=det)
    tn = _val(ctx, trace_norm, rho - sig)
    if tn is not None:
        ctx.check("O1:trace_norm", None, dev=abs(tn - np.abs(m["ev"]).sum()), tol=1e-9, sig=sig_, nt=nt, mech="trace_norm:definition", detail=det)
        g = gen.rc(rng, d, int(rng.integers(1, 7)))
        tn2 = _val(ctx, trace_norm, g)
        if tn2 is not None:
            ctx.check("O1:trace_norm", None, dev=abs(tn2 - np.linalg.svd(g, compute_uv=False).sum()) / (1 + tn2), tol=1e-9, sig=("rect", g.shape), mech="trace_norm:definition-rectangular", detail=det)
    f = m["fidelity"]
    bd = _val(ctx, bures_distance, rho.copy(), sig.copy())
    if bd is not None:
        # the library rounds F to 10 decimals; on full-rank pairs the fidelity itself is accurate to ~1e-12, on singular ones to ~1e-6
        well = min(ref.eigmin(rho), ref.eigmin(sig)) >= 1e-3  # well-conditioned pair
        btol = 1e-9 if well else 5e-6
        ctx.check("O1:bures_distance", None, dev=abs(float(bd) ** 2 - 2 * (1 - min(1.0, f))), tol=btol, sig=sig_, nt=nt, mech="bures_distance:definition", detail=dict(det, library=bd, F=f))
    ba = _val(ctx, bures_angle, rho.copy(), sig.copy())
    if ba is not None:
        ctx.check("O1:bures_angle", None, dev=abs(np.cos(float(ba)) ** 2 - min(1.0, f)), tol=1e-9 if min(ref.eigmin(rho), ref.eigmin(sig)) >= 1e-3 else 5e-6, sig=sig_, nt=nt, mech="bures_angle:definition", detail=dict(det, library=ba, F=f))
        ctx.check("O1:bures_angle", 0 <= float(ba) <= np.pi / 2 + 1e-9, sig=sig_ + ("range",), mech="bures_angle:out-of-range", detail=dict(det, library=ba))
    full = ref.eigmin(rho) >= 0.02 and ref.eigmin(sig) >= 0.02
    mf = None
    if full:
        mf = _val(ctx, matsumoto_fidelity, rho.copy(), sig.copy())
        if mf is not None:
            want = matsumoto_model(rho, sig)
            ctx.check("O1:matsumoto_fidelity", None, dev=abs(float(mf) - want), tol=T2, sig=sig_, nt=nt, mech="matsumoto_fidelity:definition", detail=dict(det, library=mf, definition=want))
    # ---------------------------------------------------------------- relations on library values
    fns = {"fidelity": fidelity, "trace_distance": trace_distance, "hilbert_schmidt": hilbert_schmidt, "helstrom_holevo": helstrom_holevo, "sub_fidelity": sub_fidelity}
    u = gen.haar(rng, d, real=not cplx)
    for name, fn in fns.items():
        if name not in lib:
            continue
        sw = _val(ctx, fn, sig.copy(), rho.copy())
        if sw is not None:
            ctx.check("O2:symmetric", None, dev=abs(float(np.real(sw)) - lib[name]), tol=T2, sig=(name,) + sig_, nt=nt, mech=f"{name}:not-symmetric", detail=det)
        rot = _val(ctx, fn, ref.herm(u @ rho @ u.conj().T), ref.herm(u @ sig @ u.conj().T))
        if rot is not None:
            ctx.check("O2:unitary-invariant", None, dev=abs(float(np.real(rot)) - lib[name]), tol=T2, sig=(name,) + sig_, nt=nt, mech=f"{name}:not-unitary-invariant", detail=det)
    if "fidelity" in lib and "trace_distance" in lib:
        fl, tl = lib["fidelity"], lib["trace_distance"]
        if abs(tl - m["trace_distance"]) <= T2:  # only meaningful where the value itself is right (else O1 already reported)
            # upper bound compared in squared form: near F = 1 the square root amplifies the 1e-8 error of the computed fidelity
            ctx.check("O2:fuchs-van-de-graaf", 1 - fl <= tl + T2 and tl ** 2 <= 1 - fl ** 2 + T2, sig=sig_, nt=nt,
                      mech="fidelity-trace-distance:fuchs-van-de-graaf-violated", detail=dict(det, F=fl, T=tl))
        if cls.startswith("identical"):
            ctx.check("O2:extremes", abs(fl - 1) <= T2 and abs(tl) <= T2, sig=(cls, d, cplx), nt=True, mech="extremes:identical-states", detail=dict(det, F=fl, T=tl))
        if cls.startswith("orthogonal"):
            ctx.check("O2:extremes", abs(fl) <= 1e-5 and abs(tl - 1) <= T2, sig=(cls, d, cplx), nt=True, mech="extremes:orthogonal-states", detail=dict(det, F=fl, T=tl))
            if "helstrom_holevo" in lib:
                ctx.check("O2:extremes", abs(lib["helstrom_holevo"] - 1) <= T2, sig=("orthogonal-hh", d), nt=True, mech="extremes:helstrom-holevo-orthogonal", detail=det)
        if cls == "pure":
            ov = float(np.sqrt(max(0.0, np.real(np.trace(rho @ sig)))))
            ctx.check("O2:pure-overlap", abs(fl - ov) <= 1e-5 and abs(tl - np.sqrt(max(0.0, 1 - ov ** 2))) <= 1e-5 or abs(tl - m["trace_distance"]) > T2, sig=(d, cplx), nt=True,
                      mech="pure-states:overlap-formula", detail=dict(det, F=fl, T=tl, overlap=ov))
    if "sub_fidelity" in lib and "fidelity" in lib:
        ctx.check("O2:sub<=F^2", lib["sub_fidelity"] <= lib["fidelity"] ** 2 + T2, sig=sig_, nt=nt, mech="sub_fidelity:above-F^2", detail=dict(det, E=lib["sub_fidelity"], F=lib["fidelity"]))
    if mf is not None and "fidelity" in lib:
        ctx.check("O2:matsumoto<=F", float(mf) <= lib["fidelity"] + T2, sig=sig_, nt=nt, mech="matsumoto_fidelity:above-fidelity", detail=dict(det, FM=mf, F=lib["fidelity"]))
    # triangle inequality for the trace distance on a triple
    if spec[1] % 4 == 0:
        tau = gen.density(rng, d, int(rng.integers(1, d + 1)), cplx)
        if not cplx:
            tau = tau.real
        t_rs, t_rt, t_ts = (_val(ctx, trace_distance, a.copy(), b.copy()) for a, b in ((rho, sig), (rho, tau), (tau, sig)))
        if None not in (t_rs, t_rt, t_ts):
            exact = [0.5 * np.abs(np.linalg.eigvalsh(ref.herm(np.asarray(a - b, dtype=complex)))).sum() for a, b in ((rho, sig), (rho, tau), (tau, sig))]
            mech = "trace_distance:triangle-inequality"
            if max(abs(x - y) for x, y in zip((t_rs, t_rt, t_ts), exact)) > T2:
                mech = "trace_distance:triangle-inequality[values-already-wrong]"
            ok = t_rs <= t_rt + t_ts + T2
            if ok or mech.endswith("]"):
                ctx.check("O2:triangle", True, sig=(d, cplx), nt=True)
            else:
                ctx.check("O2:triangle", False, sig=(d, cplx), nt=True, mech=mech, detail=dict(det, T=[t_rs, t_rt, t_ts]))


def _run_reject(ctx, spec, rng):
    from toqito.state_metrics import (bures_angle, bures_distance, fidelity, helstrom_holevo, hilbert_schmidt, matsumoto_fidelity, sub_fidelity,
                                      trace_distance)

    d = int(rng.integers(2, 6))
    rho = gen.density(rng, d)
    kind = spec[1] % 4
    if kind == 0:
        bad, what = rho * 1.05, "trace!=1"
    elif kind == 1:
        w = np.linspace(-0.05, 1, d)
        w = w / w.sum()
        w[0] = -0.05
        w[1:] *= (1.05) / w[1:].sum()
        u = gen.haar(rng, d)
        bad, what = ref.herm((u * w) @ u.conj().T), "not-PSD"
    elif kind == 2:
        bad = rho.astype(complex).copy()
        bad[0, 1] += 0.05
        what = "not-Hermitian"
    else:
        bad, what = gen.density(rng, d + 1), "shape-mismatch"
    fns = [fidelity, trace_distance, hilbert_schmidt, helstrom_holevo, sub_fidelity, matsumoto_fidelity, bures_distance, bures_angle]
    if what == "shape-mismatch":
        fns = [fidelity, sub_fidelity, matsumoto_fidelity, bures_distance, bures_angle]  # the documented shape check
    for fn in fns:
        for args in ((rho.copy(), bad.copy()), (bad.copy(), rho.copy())):
            res = ctx.call(fn, *args, expect=(ValueError,))
            if res is FAILED:
                continue
            ctx.check("O3:rejects-non-density", isinstance(res, ValueError), sig=(fn.__name__, what), nt=True, mech=f"{fn.__name__}:accepts-{what}", detail={"what": what, "returned": res})
        if what != "shape-mismatch":  # the same array object as both arguments
            both = bad.copy()
            res = ctx.call(fn, both, both, expect=(ValueError,), freeze=False)
            if res is not FAILED:
                ctx.check("O3:rejects-non-density", isinstance(res, ValueError), sig=(fn.__name__, what, "same-object"), nt=True, mech=f"{fn.__name__}:accepts-{what}[same-object-twice]",
                          detail={"what": what, "returned": res})
    ctx.sample("O3:rejects-non-density", {"what": what, "d": d})


def _run_fos(ctx, spec, rng):
    from toqito.state_metrics import fidelity_of_separability

    r = spec[1]
    table = [((2, 2), 1), ((2, 3), 1), ((3, 2), 1), ((3, 3), 1), ((2, 2), 2), ((2, 3), 2)]
    if ctx.tier == "thorough":
        table = table + [((3, 2), 2), ((3, 3), 2)]
    if r < len(table) or ctx.tier == "thorough" and r % 4 == 0:
        (da, db), k = table[r % len(table)]
        cplx = bool(r % 2)
        v = np.kron(gen.unit(rng, da, cplx), gen.unit(rng, db, cplx))
        rho = np.outer(v, v.conj())
        ctx.evals["solver-call"] += 1
        mech = "fidelity_of_separability:rejects-product-state[dims-not-forwarded]" if da > db else None
        val = ctx.call(fidelity_of_separability, rho, [da, db], k, solver=True, mech=mech)
        if val is not FAILED:
            ctx.check("O4:fidelity_of_separability", None, dev=abs(float(np.real(val)) - 1), tol=1e-5, sig=((da, db), k, cplx), nt=True, mech="fidelity_of_separability:product-state!=1",
                      detail={"dims": [da, db], "k": k, "value": val})
            ctx.sample("O4:fidelity_of_separability", {"dims": [da, db], "k": k, "value": val})
        return
    # rejections: mixed, non-density, entangled-pure
    kind = r % 3
    if kind == 0:
        rho, what = gen.product_state_mixture(rng, 2, 2, 3), "mixed"
    elif kind == 1:
        rho, what = 1.1 * np.eye(4) / 4, "non-density"
    else:
        psi, _, _ = gen.schmidt_state(rng, 2, 2, [np.sqrt(0.6), np.sqrt(0.4)])
        rho, what = np.outer(psi, psi.conj()), "entangled-pure"
    res = ctx.call(fidelity_of_separability, rho, [2, 2], 1, expect=(ValueError,))
    if res is not FAILED:
        ctx.check("O4:fidelity_of_separability-rejects", isinstance(res, ValueError), sig=(what,), nt=True, mech=f"fidelity_of_separability:accepts-{what}", detail={"what": what})
