"""C02 - partial trace is the index contraction over the traced subsystems."""
from __future__ import annotations

import itertools

import numpy as np

from .. import contracts, gen, ref
from ..core import FAILED

DECIDING = ["contract:partial_trace", "O2:compose", "O2:product", "O2:trace-preserved", "O2:linear", "O3:scalar-dim", "O3:defaults",
            "O4:cvxpy-value", "H1:repeat-call", "O1:many-subsystems"]
RULE = ("cases = (local dims in 1..4, n<=5, N<=144) x every non-empty subset S (all listing orders for |S|<=3, n<=4) x dtype; "
        "entries unique ids; a signature is (monitor, n, |S|, non-uniform dims?) and is non-trivial when S is a proper subset; plus int8..uint32 "
        "inputs with entries near the type limits, 9..13 subsystems, repeat calls with the same index objects, one cvxpy Variable traced under "
        "several factorisations and after a new value")
CASE_TIMEOUT = {"quick": 240, "thorough": 3000}
THOROUGH_REPEAT = 5  # the thorough tier runs its randomised case kinds this many times (new inputs each time)
ASSUMPTIONS = [
    "reference model = einsum contraction of the (d..., d...) tensor; exact for integer dtype, 1e-9 relative otherwise",
    "cvxpy: only Variable operands are accepted by the library; .value of the returned expression is compared on an assigned value",
    "N <= 144 (thorough 256), n <= 5",
]


def cases(tier):
    out = []
    reps = 1 if tier == "quick" else 100
    for n in (1, 2, 3, 4):
        for k in range(1, n + 1):
            for comb in itertools.combinations(range(n), k):
                orders = list(itertools.permutations(comb)) if k <= 3 else [comb, comb[::-1]]
                for s in orders:
                    for r in range(reps):
                        out.append(("num", n, s, r))
    for r in range(60 if tier == "quick" else 25000):
        out.append(("num", 5, None, r))
    for r in range(60 if tier == "quick" else 12000):
        out.append(("meta", r))
    for r in range(40 if tier == "quick" else 6000):
        out.append(("forms", r))
    for r in range(40 if tier == "quick" else 4000):
        out.append(("cvx", r))
    for r in range(40 if tier == "quick" else 3000):
        out.append(("repeat", r))
    for r in range(48 if tier == "quick" else 4000):
        out.append(("many", r))
    if tier == "thorough":
        out.append(("suite", 0))
    return out


def setup(ctx):
    contracts.install(ctx)


def run(ctx, spec, rng):
    globals()["_run_" + spec[0]](ctx, spec, rng)


def _run_num(ctx, spec, rng):
    from toqito.channels import partial_trace

    n = spec[1]
    maxn = 144 if ctx.tier == "quick" else 256
    for _ in range(3):
        d = gen.dims(rng, n, 1, 4 if n <= 4 else 3, max_total=maxn)
        big = int(np.prod(d))
        if spec[2] is None:
            k = int(rng.integers(1, n + 1))
            s = [int(v) for v in rng.permutation(n)[:k]]
        else:
            s = list(spec[2])
        kind = "ifc"[int(rng.integers(0, 3))]
        if rng.random() < 0.25:  # integer types narrower than the platform integer, entries near the type's limits
            x0 = gen.narrow_ints(rng, (big, big), gen.NARROW[int(rng.integers(0, len(gen.NARROW)))])
        else:
            x0 = gen.unique_ids((big, big), kind)
        if x0.dtype.kind in "fc" and rng.random() < 0.3:
            x0 = x0 * x0.dtype.type(10.0 ** float(rng.choice([-16, -8, 8])))  # very small / large operators: the contraction is linear
        elif x0.dtype.kind == "c" and rng.random() < 0.2:
            x0 = x0.real + 1e-15j * x0.imag  # O(1) real parts with imaginary parts at rounding level: still a complex operator
        x = gen.layout(x0, ["C", "F", "ro", "strided"][int(rng.integers(0, 4))])
        sysarg = s[0] if len(s) == 1 and rng.random() < 0.5 else list(s)
        dimarg = list(d) if rng.random() < 0.7 else np.array(d)
        res = ctx.call(partial_trace, x, sysarg, dimarg)  # O1 decided by the attached contract
        if res is FAILED:
            continue
        ctx.sample("contract:partial_trace", {"dims": d, "sys": sysarg, "dtype": str(x.dtype), "out_shape": np.shape(res)})
        keep = [d[i] for i in range(n) if i not in s]
        want = int(np.prod(keep)) if keep else 1
        ctx.check("O1:shape", np.shape(res) == (want, want), mech="partial_trace:shape", detail={"d": d, "s": s, "shape": np.shape(res)})


def _run_many(ctx, spec, rng):
    """Nine to thirteen subsystems (most of local dimension 1 or 2, total size <= 1024): the order of the kept subsystems must still be the original one."""
    from toqito.channels import partial_trace

    d = gen.many_dims(rng, cap=512 if ctx.tier == "quick" else 1024)
    n = len(d)
    big = int(np.prod(d))
    k = int(rng.integers(1, n))
    if rng.random() < 0.5:  # leading block traced: the kept subsystems are the high positions
        s = list(range(k))
        if rng.random() < 0.5:
            s = [int(v) for v in rng.permutation(s)]
    else:
        s = [int(v) for v in rng.permutation(n)[:k]]
    x = gen.unique_ids((big, big), "ifc"[int(rng.integers(0, 3))])
    res = ctx.call(partial_trace, x, list(s), list(d) if rng.random() < 0.7 else np.array(d))
    if res is FAILED:
        return
    want = ref.partial_trace(x, s, d)
    keep = [d[i] for i in range(n) if i not in s]
    ok = np.shape(res) == want.shape and bool(np.allclose(res, want, rtol=1e-12, atol=0))
    ctx.check("O1:many-subsystems", ok, sig=(n, len(s), sum(1 for v in keep if v > 1) > 1), nt=sum(1 for v in keep if v > 1) > 1,
              mech="partial_trace:kept-subsystems-out-of-order[>=9 subsystems]", detail={"d": d, "s": s})
    ctx.sample("O1:many-subsystems", {"dims": d, "sys": s})


def _run_meta(ctx, spec, rng):
    from toqito.channels import partial_trace

    n = int(rng.integers(2, 5))
    d = gen.dims(rng, n, 1, 4, max_total=144)
    big = int(np.prod(d))
    x = gen.rc(rng, big, big)
    y = gen.rc(rng, big, big)
    # compose: trace S then T (re-indexed) = trace S u T
    k = int(rng.integers(1, n))
    perm = [int(v) for v in rng.permutation(n)]
    s, rest = perm[:k], sorted(perm[k:])
    t_sz = int(rng.integers(1, len(rest) + 1))
    t = [int(v) for v in rng.permutation(rest)[:t_sz]]
    first = ctx.call(partial_trace, x, s, list(d))
    if first is not FAILED:
        t_re = [rest.index(v) for v in t]
        second = ctx.call(partial_trace, first, t_re, [d[i] for i in rest])
        both = ctx.call(partial_trace, x, s + t, list(d))
        if second is not FAILED and both is not FAILED:
            dev = float(np.abs(second - both).max()) / (1 + big)
            ctx.check("O2:compose", None, dev=dev, tol=1e-9, sig=(n, len(s), len(t)), mech="partial_trace:composition", detail={"d": d, "s": s, "t": t})
        tr = np.trace(first)
        ctx.check("O2:trace-preserved", None, dev=abs(tr - np.trace(x)) / (1 + big), tol=1e-9, sig=(n, len(s)), mech="partial_trace:trace",
                  detail={"d": d, "s": s})
        a, b = gen.rc(rng), gen.rc(rng)
        lin = ctx.call(partial_trace, a * x + b * y, s, list(d))
        py = ctx.call(partial_trace, y, s, list(d))
        if lin is not FAILED and py is not FAILED:
            dev = float(np.abs(lin - (a * first + b * py)).max()) / (1 + big)
            ctx.check("O2:linear", None, dev=dev, tol=1e-9, sig=(n, len(s)), mech="partial_trace:linearity", detail={"d": d, "s": s})
    # Tr_B(A (x) B) = Tr(B) A on a random position
    facs = [gen.rc(rng, d[i], d[i]) for i in range(n)]
    prod = ref.kron_all(facs)
    sub = ctx.call(partial_trace, prod, s, list(d))
    if sub is not FAILED:
        want = np.prod([np.trace(facs[i]) for i in s]) * ref.kron_all([facs[i] for i in range(n) if i not in s])
        dev = float(np.abs(sub - want).max()) / (1 + float(np.abs(want).max()))
        ctx.check("O2:product", None, dev=dev, tol=1e-9, sig=(n, len(s), len(set(d)) > 1), mech="partial_trace:product-form", detail={"d": d, "s": s})


def _run_forms(ctx, spec, rng):
    from toqito.channels import partial_trace

    d1 = int(rng.integers(1, 5))
    d2 = int(rng.integers(1, 5))
    if d1 * d2 < 2:
        d2 = 2
    big = d1 * d2
    x = gen.unique_ids((big, big), "ic"[int(rng.integers(0, 2))])
    for s in (0, 1, [0], [1], [0, 1], [1, 0]):
        a = ctx.call(partial_trace, x, s, d1)  # scalar d  ==  [d, N/d]
        b = ctx.call(partial_trace, x, s, [d1, d2])
        if a is not FAILED and b is not FAILED:
            ctx.check("O3:scalar-dim", np.shape(a) == np.shape(b) and np.array_equal(a, b), sig=(d1 == d2, str(s)), nt=d1 != d2,
                      mech="partial_trace:scalar-dim", detail={"d1": d1, "d2": d2, "s": s})
            ctx.check("O3:scalar-dim=model", np.array_equal(a, ref.partial_trace(x, [s] if isinstance(s, int) else s, [d1, d2])),
                      mech="partial_trace:scalar-dim-model", detail={"d1": d1, "d2": d2, "s": s})
    dd = int(rng.integers(2, 6))
    z = gen.unique_ids((dd * dd, dd * dd), "i")
    a = ctx.call(partial_trace, z)
    if a is not FAILED:
        ctx.check("O3:defaults", np.array_equal(a, ref.partial_trace(z, [1], [dd, dd])), sig=("none", dd), mech="partial_trace:defaults", detail={"d": dd})
    a = ctx.call(partial_trace, z, 0)
    if a is not FAILED:
        ctx.check("O3:defaults", np.array_equal(a, ref.partial_trace(z, [0], [dd, dd])), sig=("sysonly", dd), mech="partial_trace:default-dim", detail={"d": dd})
    a = ctx.call(partial_trace, z, None, [dd, dd])
    if a is not FAILED:
        ctx.check("O3:defaults", np.array_equal(a, ref.partial_trace(z, [1], [dd, dd])), sig=("dimonly", dd), mech="partial_trace:default-sys", detail={"d": dd})
    nn = int(rng.integers(2, 5))
    dl = gen.dims(rng, nn, 1, 3, max_total=64)
    w = gen.unique_ids((int(np.prod(dl)),) * 2, "ic"[int(rng.integers(0, 2))])
    for how in ("keyword", "positional-none"):
        a = ctx.call(partial_trace, w, dim=list(dl)) if how == "keyword" else ctx.call(partial_trace, w, None, np.array(dl))
        if a is not FAILED:
            want = ref.partial_trace(w, [1], dl)
            ctx.check("O3:defaults", np.shape(a) == want.shape and np.array_equal(a, want), sig=("dim-list-only", nn, how, len(set(dl)) > 1), nt=nn > 2,
                      mech="partial_trace:default-sys[dim-list-given]", detail={"dims": dl, "how": how})


def _run_cvx(ctx, spec, rng):
    import cvxpy

    from toqito.channels import partial_trace

    n = int(rng.integers(2, 4))
    d = gen.dims(rng, n, 1, 3, max_total=27)
    big = int(np.prod(d))
    k = int(rng.integers(1, n + 1))
    s = [int(v) for v in rng.permutation(n)[:k]]
    kind = ["plain", "complex", "symmetric", "hermitian", "PSD"][spec[1] % 5]
    if kind == "plain":
        var, val = cvxpy.Variable((big, big)), rng.normal(size=(big, big))
    elif kind == "complex":
        var, val = cvxpy.Variable((big, big), complex=True), gen.rc(rng, big, big)
    elif kind == "symmetric":
        g = rng.normal(size=(big, big))
        var, val = cvxpy.Variable((big, big), symmetric=True), g + g.T
    elif kind == "hermitian":
        var, val = cvxpy.Variable((big, big), hermitian=True), gen.hermitian(rng, big)
    else:
        var, val = cvxpy.Variable((big, big), PSD=True), gen.psd(rng, big, cplx=False)
    var.value = val
    sysarg = s[0] if len(s) == 1 and rng.random() < 0.5 else s
    expr = ctx.call(partial_trace, var, sysarg, list(d))
    if expr is FAILED:
        return
    want = ref.partial_trace(val, s, d)
    shape_ok = tuple(expr.shape) == want.shape
    got = expr.value
    dev = float(np.abs(np.asarray(got) - want).max()) / (1 + big) if shape_ok and got is not None else float("inf")
    ctx.check("O4:cvxpy-value", None, dev=dev, tol=1e-9, sig=(kind, n, len(s)), nt=len(s) < n, mech="partial_trace:cvxpy-value",
              detail={"kind": kind, "d": d, "s": s, "shape": list(expr.shape)})
    ctx.check("O4:cvxpy-affine", bool(expr.is_affine()), sig=(kind,), mech="partial_trace:cvxpy-not-affine", detail={"kind": kind})
    num = ctx.call(partial_trace, val, sysarg, list(d))
    if num is not FAILED and got is not None:
        ctx.check("O4:cvxpy=numeric", None, dev=float(np.abs(np.asarray(got) - num).max()) / (1 + big), tol=1e-9, sig=(kind,),
                  mech="partial_trace:cvxpy-vs-numeric", detail={"kind": kind, "d": d, "s": s})
    # history: the SAME Variable object traced again on the same subsystems under other factorisations of its size, and with a new value
    for d2 in [f for f in gen.factorisations(big, n) if list(f) != list(d)][:3]:
        if any(i >= len(d2) for i in s):
            continue
        e2 = ctx.call(partial_trace, var, list(s), list(d2))
        if e2 is FAILED:
            continue
        w2 = ref.partial_trace(val, s, d2)
        g2 = e2.value
        dev2 = float(np.abs(np.asarray(g2) - w2).max()) / (1 + big) if tuple(e2.shape) == w2.shape and g2 is not None else float("inf")
        ctx.check("O4:cvxpy-value", None, dev=dev2, tol=1e-9, sig=(kind, "same-variable-other-dims", len(d2)), mech="partial_trace:cvxpy-value[same-variable-other-dims]",
                  detail={"kind": kind, "first_dims": d, "dims": list(d2), "s": s})
    if kind in ("plain", "complex"):
        val2 = val[::-1, ::-1].copy() * 2
        var.value = val2
        e3 = ctx.call(partial_trace, var, list(s), list(d))
        if e3 is not FAILED:
            w3 = ref.partial_trace(val2, s, d)
            dev3 = float(np.abs(np.asarray(e3.value) - w3).max()) / (1 + big) if tuple(e3.shape) == w3.shape and e3.value is not None else float("inf")
            ctx.check("O4:cvxpy-value", None, dev=dev3, tol=1e-9, sig=(kind, "same-variable-new-value"), mech="partial_trace:cvxpy-value[same-variable-new-value]",
                      detail={"kind": kind, "d": d, "s": s})


def _run_suite(ctx, spec, rng):
    """Thorough tier: the repository's own tests executed with this property's contracts attached (internal calls observed)."""
    from ..suiterun import run_suite_under_contract

    run_suite_under_contract(ctx, ['partial_trace', 'permute_systems'], "suite-under-contract")


def _run_repeat(ctx, spec, rng):
    """History monitor: the same argument objects (sys and dim given as ndarrays) used for two consecutive calls."""
    from toqito.channels import partial_trace

    from ..core import repeat_call

    n = int(rng.integers(2, 5))
    d = gen.dims(rng, n, 1, 3, max_total=64)
    big = int(np.prod(d))
    x = gen.unique_ids((big, big), "ic"[spec[1] % 2])
    k = int(rng.integers(1, n + 1))
    s = [int(v) for v in rng.permutation(n)[:k]]
    sys_arg = list(s) if spec[1] % 2 else s  # lists are the documented form; the object is reused either way
    dim_arr = np.array(d)
    res = repeat_call(ctx, "H1:repeat-call", partial_trace, [x, sys_arg, dim_arr], ["input_mat", "sys", "dim"], sig=(n, k))
    if res is not FAILED:
        ctx.check("O1:shape", np.array_equal(res, ref.partial_trace(x, s, d)) if x.dtype.kind == "i" else np.allclose(res, ref.partial_trace(x, s, d)), sig=("repeat", n), mech="partial_trace:contraction[ndarray-dim]",
                  detail={"d": d, "s": s})
    ctx.sample("H1:repeat-call", {"dims": d, "sys": s})
