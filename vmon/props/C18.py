"""C18 - symmetric / antisymmetric projectors and combinatorial enumerators are exact (finite space, enumerated completely)."""
from __future__ import annotations

import itertools
import math
from collections import Counter

import numpy as np

from .. import ref
from ..core import FAILED

DECIDING = ["sym:projector", "sym:rank", "sym:fixed-by-permutations", "anti:projector", "anti:rank", "anti:sign-representation", "sym-anti:orthogonal",
            "sym-anti:p=2-sum-identity", "sym:partial-isometry", "anti:partial-isometry", "perm_sign:inversions", "perm_sign:multiplicative",
            "unique_perms:exact-once", "perfect_matchings:exact-once"]
RULE = ("exhaustive: every (d, p) with d in 1..4, p in 1..4 and d^p <= 256, both values of the partial flag, every subsystem permutation sigma in S_p (model permutation "
        "operators); every permutation of up to 6 elements for the sign (all pairs for n <= 4, all pairs with a generator set beyond); every multiset with up to 6 "
        "elements over up to 3 symbols; every even n <= 10 and odd n <= 9 for the matchings; a signature is the enumerated instance itself; plus, per multiset, an abandoned "
        "enumeration followed by a complete one and two interleaved enumerations")
ASSUMPTIONS = [
    "perm_sign takes 1-indexed permutations (its documented convention)",
    "a single matching (n = 2) may be returned as a flat array",
    "tolerance 1e-10 for projector identities; ranks by numpy matrix_rank with tol 1e-9",
]
EXHAUSTIVE = True


def cases(tier):
    out = []
    big = tier == "thorough"
    for d in range(1, 6 if big else 5):
        for p in range(1, 6 if big else 5):
            if d ** p <= (1024 if big else 256):
                out.append(("proj", d, p))
    for n in range(1, 8 if big else 7):
        out.append(("sign", n))
    for n in range(1, 8 if big else 7):
        for k in range(1, 5 if big else 4):
            out.append(("uperm", n, k))
    for n in range(0, 13 if big else 11):
        out.append(("match", n))
    return out


def run(ctx, spec, rng):
    globals()["_run_" + spec[0]](ctx, spec, rng)


def _call(ctx, fn, *a, **k):
    v = ctx.call(fn, *a, **k)
    return None if v is FAILED else v


def arr(x):
    return x.toarray() if hasattr(x, "toarray") else np.asarray(x)


def _dev(a, b):
    a, b = np.asarray(a), np.asarray(b)
    return float(np.abs(a - b).max()) if a.shape == b.shape else float("inf")


def _run_proj(ctx, spec, rng):
    from toqito.perms import antisymmetric_projection, symmetric_projection

    _, d, p = spec
    big = d ** p
    sig = (d, p)
    det = {"d": d, "p": p}
    crash_s = "crash:symmetric_projection[d=1,p>=2]" if d == 1 and p >= 2 else None
    s = _call(ctx, symmetric_projection, d, p, mech=crash_s)
    a = _call(ctx, antisymmetric_projection, d, p)
    perms = list(itertools.permutations(range(p)))
    pops = {q: ref.perm_matrix([d] * p, q) for q in perms}
    if s is not None:
        s = arr(s)
        ok_shape = s.shape == (big, big)
        ctx.check("sym:projector", ok_shape and _dev(s, s.conj().T) <= 1e-10 and _dev(s @ s, s) <= 1e-10, sig=sig, nt=p > 1, mech="symmetric_projection:not-hermitian-idempotent", detail=det)
        if ok_shape:
            rk = int(np.linalg.matrix_rank(s, tol=1e-9))
            ctx.check("sym:rank", rk == math.comb(d + p - 1, p), sig=sig, nt=p > 1, mech="symmetric_projection:wrong-rank", detail=dict(det, rank=rk, want=math.comb(d + p - 1, p)))
            worst = max(_dev(pops[q] @ s, s) for q in perms)
            ctx.check("sym:fixed-by-permutations", worst <= 1e-10, dev=worst, tol=1e-10, sig=sig, nt=p > 1, mech="symmetric_projection:not-permutation-invariant", detail=det)
            ctx.sample("sym:projector", dict(det, rank=rk, trace=float(np.trace(s).real)))
    if a is not None:
        a = arr(a)
        ok_shape = a.shape == (big, big)
        herm_idem = ok_shape and _dev(a, a.conj().T) <= 1e-10 and _dev(a @ a, a) <= 1e-10
        mech = "antisymmetric_projection:not-hermitian-idempotent"
        if ok_shape and not herm_idem and _dev(a @ a, -a) <= 1e-10:
            mech = "antisymmetric_projection:minus-the-projector[even-p]"
        ctx.check("anti:projector", herm_idem, sig=sig, nt=p > 1, mech=mech, detail=dict(det, trace=float(np.trace(a).real) if ok_shape else None))
        if ok_shape:
            rk = int(np.linalg.matrix_rank(a, tol=1e-9))
            ctx.check("anti:rank", rk == math.comb(d, p), sig=sig, nt=p > 1, mech="antisymmetric_projection:wrong-rank", detail=dict(det, rank=rk, want=math.comb(d, p)))
            worst = max(_dev(pops[q] @ a, ref.inversions_sign(q) * a) for q in perms)
            ctx.check("anti:sign-representation", worst <= 1e-10, dev=worst, tol=1e-10, sig=sig, nt=p > 1, mech="antisymmetric_projection:permutations-do-not-act-as-sign", detail=det)
            ctx.sample("anti:projector", dict(det, rank=rk, trace=float(np.trace(a).real)))
    if s is not None and a is not None and s.shape == a.shape == (big, big) and p > 1:
        ctx.check("sym-anti:orthogonal", _dev(s @ a, np.zeros_like(s)) <= 1e-10, sig=sig, nt=True, mech="projectors:not-orthogonal", detail=det)
        if p == 2:
            mech = "projectors:p=2-do-not-sum-to-identity"
            if _dev(s - a, np.eye(big)) <= 1e-10:
                mech = "antisymmetric_projection:minus-the-projector[even-p]"
            ctx.check("sym-anti:p=2-sum-identity", _dev(s + a, np.eye(big)) <= 1e-10, sig=sig, nt=True, mech=mech, detail=det)
    # isometry (partial) forms
    sp = _call(ctx, symmetric_projection, d, p, True, mech=crash_s)
    if sp is not None and s is not None:
        sp = arr(sp)
        k = math.comb(d + p - 1, p)
        ok = sp.ndim == 2 and sp.shape == (big, k) and _dev(sp.conj().T @ sp, np.eye(k)) <= 1e-9 and _dev(sp @ sp.conj().T, s) <= 1e-9
        ctx.check("sym:partial-isometry", ok, sig=sig, nt=p > 1, mech="symmetric_projection:partial-not-isometry-onto-subspace", detail=dict(det, shape=list(sp.shape)))
    ap = _call(ctx, antisymmetric_projection, d, p, True)
    if ap is not None:
        ap = arr(ap)
        k = math.comb(d, p)
        model = sum(ref.inversions_sign(q) * pops[q] for q in perms) / math.factorial(p)
        ok = ap.ndim == 2 and ap.shape == (big, k) and (k == 0 or (_dev(ap.conj().T @ ap, np.eye(k)) <= 1e-9 and _dev(ap @ ap.conj().T, model) <= 1e-9))
        mech = "antisymmetric_projection:partial-not-isometry-onto-subspace"
        if ap.ndim == 3:
            mech = "antisymmetric_projection:partial-returns-stacked-QR-factors"
        ctx.check("anti:partial-isometry", ok, sig=sig, nt=p > 1, mech=mech, detail=dict(det, shape=list(ap.shape), want=[big, k]))


def _run_sign(ctx, spec, rng):
    from toqito.perms import perm_sign

    n = spec[1]
    perms = list(itertools.permutations(range(n)))
    signs = {}
    for q in perms:
        one = [v + 1 for v in q]
        arg = one if len(signs) % 2 else np.array(one)
        s = _call(ctx, perm_sign, arg)
        if s is None:
            continue
        want = ref.inversions_sign(q)
        signs[q] = want
        ctx.check("perm_sign:inversions", abs(float(s) - want) <= 1e-9, sig=(n, q), nt=n > 1, mech="perm_sign:differs-from-(-1)^inversions", detail={"perm": one, "got": s, "want": want})
    pairs = itertools.product(perms, perms) if n <= 4 else ((a, b) for a in perms for b in perms[1: n + 1])
    cnt = 0
    for a, b in pairs:
        comp = tuple(a[b[i]] for i in range(n))
        sa, sb, sc = (_call(ctx, perm_sign, [v + 1 for v in q]) for q in (a, b, comp))
        if None in (sa, sb, sc):
            continue
        cnt += 1
        ctx.check("perm_sign:multiplicative", abs(float(sa) * float(sb) - float(sc)) <= 1e-9, sig=(n, a, b) if n <= 3 else (n, cnt % 50), nt=n > 1,
                  mech="perm_sign:not-multiplicative", detail={"a": a, "b": b})
    ctx.sample("perm_sign:inversions", {"n": n, "permutations": len(perms)})


def _run_uperm(ctx, spec, rng):
    from toqito.perms import unique_perms

    _, n, k = spec
    for combo in itertools.combinations_with_replacement(range(1, k + 1), n):
        if len(set(combo)) != min(k, n) and k <= n:
            continue  # multisets using exactly k symbols (others are covered by smaller k)
        elems = list(combo)
        res = _call(ctx, unique_perms, list(elems))
        if res is None:
            continue
        got = [tuple(x) for x in res]
        want = set(itertools.permutations(elems))
        ok = len(got) == len(set(got)) and set(got) == want
        ctx.check("unique_perms:exact-once", ok, sig=(n, combo), nt=n > 1, mech="unique_perms:duplicates" if len(got) != len(set(got)) else "unique_perms:wrong-set",
                  detail={"elements": elems, "returned": len(got), "distinct": len(set(got)), "want": len(want)})
        # history monitor: an abandoned enumeration, then two interleaved ones, over the same multiset
        if n >= 2:
            it = _call(ctx, unique_perms, list(elems))
            try:
                first = tuple(next(iter(it))) if it is not None else None
            except StopIteration:
                first = None
            again = _call(ctx, unique_perms, list(elems))
            outer = _call(ctx, unique_perms, list(elems))
            if again is not None and outer is not None:
                got2 = [tuple(x) for x in again]
                nested_ok = True
                seen_outer = []
                for x in outer:
                    seen_outer.append(tuple(x))
                    if len(seen_outer) <= 2:
                        inner = [tuple(y) for y in unique_perms(list(elems))]
                        nested_ok &= len(inner) == len(set(inner)) and set(inner) == want
                ok = first in want and len(got2) == len(set(got2)) and set(got2) == want and nested_ok and len(seen_outer) == len(set(seen_outer)) and set(seen_outer) == want
                ctx.check("unique_perms:exact-once", ok, sig=(n, combo, "history"), nt=True, mech="unique_perms:enumeration-depends-on-earlier-or-concurrent-enumerations",
                          detail={"elements": elems, "after-abandoned": len(got2), "outer": len(seen_outer), "nested_ok": nested_ok, "want": len(want)})
    # the same multisets written with other integer symbols: negative numbers, zero, values far apart
    if n >= 2:
        for symbols in ([-1, 1, 0, 7], [-3, -1, -2, -7], [0, 100, 5, -100]):
            for combo in itertools.combinations_with_replacement(range(k), n):
                if len(set(combo)) != min(k, n):
                    continue
                elems = [symbols[c] for c in combo]
                res = _call(ctx, unique_perms, list(elems))
                if res is None:
                    continue
                got = [tuple(x) for x in res]
                want = set(itertools.permutations(elems))
                ctx.check("unique_perms:exact-once", len(got) == len(set(got)) and set(got) == want, sig=(n, combo, tuple(symbols[:k])), nt=True,
                          mech="unique_perms:wrong-set[symbols-other-than-1..k]", detail={"elements": elems, "returned": len(got), "want": len(want)})
    ctx.sample("unique_perms:exact-once", {"n": n, "symbols": k})


def _run_match(ctx, spec, rng):
    from toqito.perms import perfect_matchings

    n = spec[1]
    if n == 0:
        return
    forms = [n, list(range(n)), np.arange(n)]
    for fi, arg in enumerate(forms):
        res = _call(ctx, perfect_matchings, arg)
        if res is None:
            continue
        m = np.asarray(res)
        if n % 2 == 1:
            ctx.check("perfect_matchings:exact-once", m.size == 0, sig=(n, fi), nt=False, mech="perfect_matchings:odd-n-not-empty", detail={"n": n, "shape": list(m.shape)})
            continue
        rows = m.reshape(1, -1) if m.ndim == 1 else m
        want = ref.double_factorial_odd(n)
        as_sets = []
        good_rows = True
        for row in rows:
            row = [int(v) for v in row]
            good_rows &= sorted(row) == list(range(n))
            as_sets.append(frozenset(frozenset(row[i:i + 2]) for i in range(0, n, 2)))
        ok = good_rows and len(rows) == want and len(set(as_sets)) == want
        ctx.check("perfect_matchings:exact-once", bool(ok), sig=(n, fi), nt=n > 2,
                  mech="perfect_matchings:duplicates-or-missing" if good_rows else "perfect_matchings:row-is-not-a-partition-into-pairs",
                  detail={"n": n, "rows": len(rows), "distinct": len(set(as_sets)), "want": want})
    if n % 2 == 0 and n <= 6:
        labels = [10 * (i + 1) for i in range(n)]
        res = _call(ctx, perfect_matchings, labels)
        if res is not None:
            m = np.asarray(res)
            rows = m.reshape(1, -1) if m.ndim == 1 else m
            ok = all(sorted(int(v) for v in row) == labels for row in rows) and len({frozenset(frozenset(int(v) for v in row[i:i + 2]) for i in range(0, n, 2)) for row in rows}) == ref.double_factorial_odd(n)
            ctx.check("perfect_matchings:exact-once", bool(ok), sig=(n, "labels"), nt=n > 2, mech="perfect_matchings:arbitrary-labels", detail={"n": n})
    if n % 2 == 0 and 4 <= n <= 8:  # labels in descending and in shuffled order (list and array)
        for order_name, lab in (("descending", list(range(n - 1, -1, -1))), ("shuffled", [int(v_) for v_ in rng.permutation(n)]), ("shuffled-offset", [int(v_) + 3 for v_ in rng.permutation(n)])):
            for arg in (list(lab), np.array(lab)):
                res = _call(ctx, perfect_matchings, arg)
                if res is None:
                    continue
                m = np.asarray(res)
                rows = m.reshape(1, -1) if m.ndim == 1 else m
                good = all(sorted(int(v_) for v_ in row) == sorted(lab) for row in rows)
                distinct = len({frozenset(frozenset(int(v_) for v_ in row[i_:i_ + 2]) for i_ in range(0, n, 2)) for row in rows})
                ctx.check("perfect_matchings:exact-once", bool(good and len(rows) == distinct == ref.double_factorial_odd(n)), sig=(n, order_name, isinstance(arg, list)), nt=True,
                          mech="perfect_matchings:labels-not-in-ascending-order", detail={"n": n, "labels": lab, "rows": len(rows), "distinct": distinct, "rows_are_partitions": bool(good)})
    if n % 2 == 0 and 2 <= n <= 8:  # labels that are not integers: the rows must still partition exactly these labels
        flabels = [0.25 + 0.5 * i for i in range(n)]
        for arg in (list(flabels), np.array(flabels)):
            res = _call(ctx, perfect_matchings, arg)
            if res is None:
                continue
            m = np.asarray(res)
            rows = m.reshape(1, -1) if m.ndim == 1 else m
            good = all(sorted(float(v) for v in row) == flabels for row in rows)
            distinct = len({frozenset(frozenset(float(v) for v in row[i:i + 2]) for i in range(0, n, 2)) for row in rows})
            ctx.check("perfect_matchings:exact-once", bool(good and len(rows) == distinct == ref.double_factorial_odd(n)), sig=(n, "float-labels", isinstance(arg, list)), nt=n > 2,
                      mech="perfect_matchings:non-integer-labels", detail={"n": n, "rows": len(rows), "distinct": distinct, "labels_kept": bool(good)})
    ctx.sample("perfect_matchings:exact-once", {"n": n, "expected_count": ref.double_factorial_odd(n) if n % 2 == 0 else 0})
