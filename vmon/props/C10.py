"""C10 - state discrimination values are certified optima."""
from __future__ import annotations

import numpy as np

from .. import certs, gen, ref
from ..core import FAILED

DECIDING = ["O1:povm-valid", "O1:povm-attains-value", "O1:dual-certificate", "O2:primal=dual", "O2:helstrom", "O2:orthogonal=1", "O2:>=max-prior",
            "O2:>=pretty-good", "O2:unitary-invariant", "O2:relabelling-invariant", "O3:unambiguous<=min-error", "O3:dependent=0",
            "O3:two-state-closed-form", "O3:unambiguous-primal=dual", "O3:unambiguous-feasible", "O4:is_distinguishable"]
RULE = ("ensembles of 2..5 states in dimension 2..4 given as 1-D vectors, column vectors or density matrices (pure and mixed), real and complex, uniform / "
        "random / one-tiny priors; spanning ensembles preferred for the primal forms (cvxopt's KKT solver fails on non-spanning ones); signature "
        "(monitor, n, d, input form, field, prior kind, form); non-trivial when complex or mixed or the prior is non-uniform")
ASSUMPTIONS = [
    "solver: cvxopt through picos - the only SDP-capable picos solver installed ('every supported solver' reduces to it)",
    "certificate: the returned POVM's attained value and the dual-feasible operator Y = sum p_i rho_i M_i (repaired by its measured infeasibility) are "
    "evaluated with NumPy; certificate gap tolerance 1e-4, value agreement 1e-5, POVM validity 1e-6",
    "instance-level solver failures (ArithmeticError / ZeroDivisionError / SolutionFailure) are inconclusive instances, counted in the evidence",
    "unambiguous discrimination is defined for pure states (vectors) only",
]
CASE_TIMEOUT = {"quick": 60, "thorough": 120}
TOLV = 1e-5
TOLG = 1e-4
TOLP = 1e-6


def cases(tier):
    out = [("ens", r) for r in range(64 if tier == "quick" else 1600)]
    out += [("special", r) for r in range(24 if tier == "quick" else 400)]
    return out


def run(ctx, spec, rng):
    globals()["_run_" + spec[0]](ctx, spec, rng)


def arr(m):
    """A returned measurement element as a complex ndarray (picos variables / constants, cvxopt dense or sparse matrices, arrays)."""
    v = m.value if hasattr(m, "value") else m
    if type(v).__module__.startswith("cvxopt"):
        import cvxopt

        v = cvxopt.matrix(v)  # sparse -> dense
    return np.array(v, dtype=complex)


def _solve(ctx, fn, *a, **k):
    ctx.evals["solver-call"] += 1
    mech = k.pop("mech", None)
    v = ctx.call(fn, *a, solver=True, mech=mech, **k)
    if v is FAILED:
        return None
    return v


def rotate_input(u, x, form):
    """U applied to a state in whatever form it was given (density matrix, flat / column / row vector)."""
    if form.startswith("dm"):
        return u @ x @ u.conj().T
    if x.ndim == 2 and x.shape[0] == 1:
        return (u @ x.reshape(-1)).reshape(1, -1)
    return u @ x


def make_ensemble(rng, r, n=None, d=None):
    d = d or int(rng.integers(2, 5))
    n = n or int(rng.integers(2, 6))
    cplx = bool(r % 2)
    orbit = False
    form = ["vec1d", "col", "dm"][r % 3]
    if form == "dm":
        rhos = [gen.density(rng, d, int(rng.integers(1, d + 1)), cplx) for _ in range(n)]
        inp = [x.copy() for x in rhos]
        vecs = None
    else:
        vecs = [gen.unit(rng, d, cplx) for _ in range(n)]
        if r % 8 == 5:
            # a structured, non-generic ensemble: the orbit psi, U psi, U^2 psi, ... of one vector under a unitary with U^n != 1 and equal priors.  Its Gram
            # matrix is constant along the diagonals but not circulant, so the pretty-good measurement is NOT optimal (it is for U^n = 1 only)
            from scipy.linalg import expm

            g_ = gen.rmat(rng, (d, d), cplx)
            a_ = g_ - g_.conj().T
            u_ = expm(float(rng.uniform(0.4, 1.5)) * a_ / np.linalg.norm(a_, 2))
            n = max(n, d)
            vecs = [gen.unit(rng, d, cplx)]
            for _ in range(n - 1):
                vecs.append(u_ @ vecs[-1])
            vecs = [v / np.linalg.norm(v) for v in vecs]
            orbit = True
        rhos = [np.outer(v, v.conj()) for v in vecs]
        inp = [v.copy() for v in vecs] if form == "vec1d" else [v.reshape(-1, 1).copy() for v in vecs]
        if (r // 6) % 3 == 1:  # row vectors (1, d): the third vector form accepted by matrix_ops.to_density_matrix
            inp, form = [v.reshape(1, -1).copy() for v in vecs], "row"
        elif (r // 6) % 3 == 2:  # one ensemble, every vector form
            shapes = [(-1,), (-1, 1), (1, -1)]
            inp, form = [v.reshape(shapes[(i + r) % 3]).copy() for i, v in enumerate(vecs)], "mixed-vector-forms"
    if cplx and r % 5 == 4:
        # dtype hostility: an ensemble whose FIRST state has a real dtype while later ones are genuinely complex
        if form == "dm":
            rhos[0] = gen.density(rng, d, int(rng.integers(1, d + 1)), False).real
            inp[0] = rhos[0].copy()
        else:
            vecs[0] = gen.unit(rng, d, False)
            rhos[0] = np.outer(vecs[0], vecs[0])
            inp[0] = vecs[0].copy() if form == "vec1d" else vecs[0].reshape(-1, 1).copy()
        form = form + "+real-first"
    pk = 0 if orbit else (r // 3) % 4
    p = gen.prior(rng, n, pk)
    if orbit:
        form = form + "+orbit"
    if (r // 5) % 4 == 3 and n >= 3 and not orbit:
        # the same state at two list positions with different priors (the ensemble is the one with the two weights added)
        i_, j_ = sorted(int(v) for v in rng.permutation(n)[:2])
        rhos[j_], inp[j_] = rhos[i_].copy(), inp[i_].copy()
        if vecs is not None:
            vecs[j_] = vecs[i_].copy()
        if p[j_] <= p[i_]:
            p[i_], p[j_] = p[j_], p[i_]  # the later copy carries the larger weight
        form = form + "+repeated-state"
    return dict(d=d, n=n, cplx=cplx, form=form, rhos=rhos, inp=inp, vecs=vecs, p=p, pk=pk)


def _fresh(inp):
    return [x.copy() for x in inp]


def check_min_error(ctx, e, pd, label="O1"):
    """Run min-error in form pd; certificate checks; returns value or None."""
    from toqito.state_opt import state_distinguishability

    res = _solve(ctx, state_distinguishability, _fresh(e["inp"]), list(e["p"]), strategy="min_error", primal_dual=pd)
    if res is None:
        return None
    val, meas = res
    val = float(np.real(val))
    ms = [arr(m) for m in meas]
    d, p, rhos = e["d"], e["p"], e["rhos"]
    field = "complex" if e["cplx"] else "real"
    sig = (e["n"], d, e["form"], field, e["pk"], pd)
    nt = e["cplx"] or e["form"].startswith("dm") or e["pk"] != 0
    if e["pk"] == 0:  # the prior omitted means the uniform prior over the n states
        res0 = _solve(ctx, state_distinguishability, _fresh(e["inp"]), strategy="min_error", primal_dual=pd)
        if res0 is not None:
            ctx.check("O2:>=max-prior", abs(float(np.real(res0[0])) - val) <= TOLV, dev=abs(float(np.real(res0[0])) - val), tol=TOLV, sig=sig + ("prior-omitted", e["n"] == d), nt=e["n"] != d,
                      mech="state_distinguishability:prior-omitted-differs-from-uniform-prior", detail={"n": e["n"], "d": d, "omitted": res0[0], "uniform": val})
    neg, comp, hdev = certs.povm_defect(ms, d)
    ctx.check("O1:povm-valid", max(neg, comp, hdev) <= TOLP, dev=max(neg, comp, hdev), tol=TOLP, sig=sig, nt=nt, mech=f"state_distinguishability:invalid-povm[{pd}]",
              detail={"neg": neg, "completeness": comp, "herm": hdev})
    att, upper = certs.min_error_certificate(rhos, p, ms)
    if abs(att - val) > TOLV:
        att_c, upper_c = certs.min_error_certificate(rhos, p, [m.conj() for m in ms])
        mech = f"state_distinguishability:povm-does-not-attain-value[{pd}]"
        if abs(att_c - val) <= TOLV and pd == "dual":
            mech = "dual-form-measurement-is-conjugate-of-optimal-povm"
        ctx.check("O1:povm-attains-value", False, dev=abs(att - val), tol=TOLV, sig=sig, nt=nt, mech=mech,
                  detail={"reported": val, "attained": att, "attained_by_conjugate": att_c, "n": e["n"], "d": d, "field": field, "form": e["form"]})
        ms_c = [m.conj() for m in ms]
        att, upper = att_c, upper_c  # continue the optimality certificate with the conjugated operators (still a POVM)
        ms = ms_c
    else:
        ctx.check("O1:povm-attains-value", True, dev=abs(att - val), tol=TOLV, sig=sig, nt=nt)
    ok = (upper - att) <= TOLG and val <= upper + TOLV and val >= att - TOLV
    ctx.check("O1:dual-certificate", ok, dev=max(0.0, upper - att), tol=TOLG, sig=sig, nt=nt, mech=f"state_distinguishability:not-optimal[{pd}]",
              detail={"reported": val, "attained": att, "upper_bound": upper, "n": e["n"], "d": d})
    ctx.sample("O1:dual-certificate", {"n": e["n"], "d": d, "form": e["form"], "field": field, "prior": e["p"], "primal_dual": pd, "reported": val, "attained": att, "certified_upper": upper})
    return val


def _run_ens(ctx, spec, rng):
    from toqito.state_opt import state_distinguishability

    r = spec[1]
    e = make_ensemble(rng, r)
    n, d, p, rhos = e["n"], e["d"], e["p"], e["rhos"]
    field = "complex" if e["cplx"] else "real"
    sig = (n, d, e["form"], field, e["pk"])
    nt = e["cplx"] or e["form"].startswith("dm") or e["pk"] != 0
    spanning = np.linalg.matrix_rank(sum(rhos), tol=1e-9) == d
    vd = check_min_error(ctx, e, "dual")
    vp = check_min_error(ctx, e, "primal") if spanning or r % 4 == 0 else None
    if vd is not None and vp is not None:
        ctx.check("O2:primal=dual", None, dev=abs(vd - vp), tol=TOLV, sig=sig, nt=nt, mech="state_distinguishability:primal!=dual", detail={"primal": vp, "dual": vd})
    v = vd if vd is not None else vp
    if v is None:
        return
    ctx.check("O2:>=max-prior", v >= max(p) - TOLV and v <= 1 + TOLV, sig=sig, nt=nt, mech="state_distinguishability:below-max-prior-or-above-1", detail={"value": v, "max_prior": max(p)})
    # pretty-good measurement computed by the model
    s = sum(pi * rho for pi, rho in zip(p, rhos))
    w, u = np.linalg.eigh(ref.herm(s))
    inv_sqrt = (u * np.where(w > 1e-12, 1 / np.sqrt(np.clip(w, 1e-12, None)), 0)) @ u.conj().T
    pgm = float(sum(pi * np.trace(rho @ inv_sqrt @ (pi * rho) @ inv_sqrt).real for pi, rho in zip(p, rhos)))
    ctx.check("O2:>=pretty-good", v >= pgm - TOLV, dev=max(0.0, pgm - v), tol=TOLV, sig=sig, nt=nt, mech="state_distinguishability:below-pretty-good-measurement", detail={"value": v, "pgm": pgm})
    if n == 2:
        hel = 0.5 + 0.5 * ref.trace_norm(p[0] * rhos[0] - p[1] * rhos[1])
        ctx.check("O2:helstrom", None, dev=abs(v - hel), tol=TOLV, sig=sig, nt=nt, mech="state_distinguishability:helstrom-mismatch", detail={"value": v, "helstrom": hel})
    # invariance under a common unitary and under relabelling
    u = gen.haar(rng, d, real=not e["cplx"])
    rot = [rotate_input(u, x, e["form"]) for x in e["inp"]]
    res = _solve(ctx, state_distinguishability, rot, list(p))
    if res is not None:
        ctx.check("O2:unitary-invariant", None, dev=abs(float(np.real(res[0])) - v), tol=TOLV, sig=sig, nt=nt, mech="state_distinguishability:not-unitary-invariant", detail={"value": v, "rotated": res[0]})
    perm = rng.permutation(n)
    res = _solve(ctx, state_distinguishability, [e["inp"][i].copy() for i in perm], [float(p[i]) for i in perm])
    if res is not None:
        ctx.check("O2:relabelling-invariant", None, dev=abs(float(np.real(res[0])) - v), tol=TOLV, sig=sig, nt=nt, mech="state_distinguishability:not-relabelling-invariant",
                  detail={"value": v, "permuted": res[0], "perm": perm})
    # unambiguous discrimination (pure states given as vectors of one common shape, flat or column: the strategy builds a Gram matrix with
    # matrix_ops.vectors_to_gram_matrix, which asks for vectors of the same length; row vectors and mixed shapes belong to the min-error path only)
    if e["vecs"] is not None and not e["form"].startswith(("row", "mixed")):
        _unambiguous(ctx, e, v, rng)


def _unambiguous(ctx, e, v_min_error, rng):
    from toqito.state_opt import state_distinguishability

    n, d, p = e["n"], e["d"], e["p"]
    field = "complex" if e["cplx"] else "real"
    sig = (n, d, e["form"], field, e["pk"])
    nt = e["cplx"] or e["pk"] != 0
    gram = np.array([[np.vdot(a, b) for b in e["vecs"]] for a in e["vecs"]])
    rp = _solve(ctx, state_distinguishability, _fresh(e["inp"]), list(p), strategy="unambiguous", primal_dual="primal")
    rd = _solve(ctx, state_distinguishability, _fresh(e["inp"]), list(p), strategy="unambiguous", primal_dual="dual", mech=f"crash:unambiguous-dual[{field}]")
    up = None if rp is None else float(np.real(rp[0]))
    ud = None if rd is None else float(np.real(rd[0]))
    # unambiguous identification of a state is possible iff it lies outside the span of the others: the value is 0 exactly when EVERY state lies in
    # the span of the rest (with a clear numerical margin both ways; with repeated states n > d alone does not imply it)
    mat = np.array([np.asarray(v_).reshape(-1) for v_ in e["vecs"]]).T
    resid = []
    for i_ in range(n):
        others = np.delete(mat, i_, axis=1)
        coef = np.linalg.lstsq(others, mat[:, i_], rcond=None)[0]
        resid.append(float(np.linalg.norm(others @ coef - mat[:, i_])))
    all_in_span = max(resid) <= 1e-9
    if up is not None:
        s = np.real(arr(rp[1][0])).reshape(-1)  # success probabilities, whatever container the library uses (variable, constant, sparse)
        feas = ref.eigmin(gram - np.diag(s)) >= -1e-6 and s.min() >= -1e-6
        ctx.check("O3:unambiguous-feasible", feas and abs(float(np.dot(p, s)) - up) <= TOLV, sig=sig, nt=nt, mech="unambiguous-primal:infeasible-or-not-attaining",
                  detail={"s": s, "value": up, "eigmin": ref.eigmin(gram - np.diag(s))})
        ctx.check("O3:unambiguous<=min-error", up <= v_min_error + TOLV and up >= -TOLV, sig=sig, nt=nt, mech="unambiguous:above-min-error", detail={"unambiguous": up, "min_error": v_min_error})
        if all_in_span:
            ctx.check("O3:dependent=0", abs(up) <= TOLV, dev=abs(up), tol=TOLV, sig=sig + ("primal",), nt=nt, mech="unambiguous-primal:nonzero-on-dependent-states", detail={"value": up, "n": n, "d": d})
    if ud is not None:
        if all_in_span:
            ctx.check("O3:dependent=0", abs(ud) <= TOLV, dev=abs(ud), tol=TOLV, sig=sig + ("dual",), nt=nt, mech=f"unambiguous-dual:nonzero-on-dependent-states[{field}]", detail={"value": ud, "n": n, "d": d})
        if up is not None:
            ctx.check("O3:unambiguous-primal=dual", None, dev=abs(up - ud), tol=TOLV, sig=sig, nt=nt, mech=f"unambiguous:primal!=dual[{field}]", detail={"primal": up, "dual": ud})
    ctx.sample("O3:unambiguous-primal=dual", {"n": n, "d": d, "field": field, "primal": up, "dual": ud, "min_error": v_min_error})


def _run_special(ctx, spec, rng):
    from toqito.state_opt import state_distinguishability
    from toqito.state_props import is_distinguishable

    r = spec[1]
    d = int(rng.integers(2, 5))
    cplx = bool(r % 2)
    kind = r % 4
    if kind in (0, 1):  # mutually orthogonal (pure or mixed with orthogonal supports)
        u = gen.haar(rng, d, real=not cplx)
        n = int(rng.integers(2, d + 1))
        if kind == 0:
            inp = [u[:, i].copy() if r % 3 else u[:, i].reshape(-1, 1).copy() for i in range(n)]
            rhos = [np.outer(u[:, i], u[:, i].conj()) for i in range(n)]
        else:
            cuts = sorted(rng.choice(np.arange(1, d), size=min(n - 1, d - 1), replace=False)) if d > 1 else []
            blocks = np.split(np.arange(d), cuts)
            rhos = []
            for b in blocks:
                w = rng.random(len(b)) + 0.1
                w /= w.sum()
                rhos.append(ref.herm((u[:, b] * w) @ u[:, b].conj().T))
            inp = [x.copy() for x in rhos]
            n = len(rhos)
        p = gen.prior(rng, n)
        for pd in ("dual", "primal") if np.linalg.matrix_rank(sum(rhos), tol=1e-9) == d else ("dual",):
            res = _solve(ctx, state_distinguishability, _fresh(inp), list(p), primal_dual=pd)
            if res is not None:
                ctx.check("O2:orthogonal=1", None, dev=abs(float(np.real(res[0])) - 1), tol=TOLV, sig=(kind, d, cplx, pd), nt=True, mech="state_distinguishability:orthogonal!=1", detail={"value": res[0], "n": n, "d": d})
        ctx.evals["solver-call"] += 1
        ans = ctx.call(is_distinguishable, _fresh(inp), list(p), solver=True)
        if ans is not FAILED:
            ctx.check("O4:is_distinguishable", bool(ans) is True, sig=("orthogonal", kind, d, cplx), nt=True, mech="is_distinguishable:rejects-orthogonal-set", detail={"n": n, "d": d})
    elif kind == 2:  # two equiprobable pure states: closed forms
        a = gen.unit(rng, d, cplx)
        b = gen.unit(rng, d, cplx)
        ov = abs(np.vdot(a, b))
        inp = [a.reshape(-1, 1), b.reshape(-1, 1)] if r % 3 else [a, b]
        field = "complex" if cplx else "real"
        rp = _solve(ctx, state_distinguishability, _fresh(inp), [0.5, 0.5], strategy="unambiguous", primal_dual="primal")
        rd = _solve(ctx, state_distinguishability, _fresh(inp), [0.5, 0.5], strategy="unambiguous", primal_dual="dual", mech=f"crash:unambiguous-dual[{field}]")
        for nm, res in (("primal", rp), ("dual", rd)):
            if res is not None:
                mech = "unambiguous:two-state-closed-form" + (f"[dual,{field}]" if nm == "dual" else "[primal]")
                ctx.check("O3:two-state-closed-form", None, dev=abs(float(np.real(res[0])) - (1 - ov)), tol=TOLV, sig=(nm, d, cplx), nt=True, mech=mech, detail={"value": res[0], "want": 1 - ov})
        res = _solve(ctx, state_distinguishability, _fresh(inp), [0.5, 0.5])
        if res is not None:
            ctx.check("O2:helstrom", None, dev=abs(float(np.real(res[0])) - (0.5 + 0.5 * np.sqrt(1 - ov ** 2))), tol=TOLV, sig=("pure-pair", d, cplx), nt=True,
                      mech="state_distinguishability:helstrom-mismatch", detail={"value": res[0], "overlap": ov})
    elif (r // 4) % 2 == 1 and d >= 3:  # an orthonormal set except for ONE overlapping pair, sitting at arbitrary list positions
        n = int(rng.integers(3, d + 1))
        u = gen.haar(rng, d, real=not cplx)
        vecs = [u[:, i].copy() for i in range(n)]
        i, j = sorted(int(v) for v in rng.permutation(n)[:2])
        vecs[j] = (vecs[i] + vecs[j]) / np.sqrt(2)
        order = [int(v) for v in rng.permutation(n)]
        if (r // 8) % 3 == 0:
            order = sorted(order, key=lambda t: (t == j, t != i))  # the overlapping pair first and last
        vecs = [vecs[t] for t in order]
        pi, pj = order.index(i), order.index(j)
        p = None if r % 3 else list(gen.prior(rng, n))
        form = (lambda v: v.copy()) if (r // 2) % 2 else (lambda v: v.reshape(-1, 1).copy())
        ctx.evals["solver-call"] += 1
        ans = ctx.call(is_distinguishable, [form(v) for v in vecs], p, solver=True)
        if ans is not FAILED:
            ctx.check("O4:is_distinguishable", bool(ans) is False, sig=("one-overlapping-pair", d, cplx, abs(pi - pj) == 1), nt=True,
                      mech="is_distinguishable:accepts-set-with-one-overlapping-pair", detail={"n": n, "d": d, "positions": [pi, pj], "overlap": float(np.sqrt(0.5))})
    else:  # clearly non-orthogonal => not distinguishable
        n = int(rng.integers(2, 5))
        vecs = [gen.unit(rng, d, cplx) for _ in range(n)]
        vecs[1] = vecs[0] * np.sqrt(0.5) + vecs[1] * np.sqrt(0.5)
        vecs[1] /= np.linalg.norm(vecs[1])
        if abs(np.vdot(vecs[0], vecs[1])) < 0.1:
            return ctx.note_inconclusive("overlap-margin")
        ctx.evals["solver-call"] += 1
        ans = ctx.call(is_distinguishable, [v.copy() for v in vecs], None, solver=True)
        if ans is not FAILED:
            ctx.check("O4:is_distinguishable", bool(ans) is False, sig=("overlapping", d, cplx), nt=True, mech="is_distinguishable:accepts-overlapping-set", detail={"overlap": abs(np.vdot(vecs[0], vecs[1]))})
