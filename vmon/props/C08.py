"""C08 - XOR game values are the Tsirelson optimum and agree across formulations; Bell-inequality maximiser."""
from __future__ import annotations

import itertools

import numpy as np

from .. import certs, gen, ref
from ..core import FAILED

DECIDING = ["O1:tsirelson-certificate", "O2:quantum=NPA1", "O2:cl<=quantum", "O2:grothendieck", "O3:classical=bruteforce", "O3:xor=converted",
            "O3:converted-predicate", "O4:repetition-power", "O5:bell=tsirelson", "O5:bell>=deterministic", "O5:bell-affine-relation",
            "O5:bell>=explicit-strategy", "O5:bell=quantum-maximum", "O6:constructor-rejects"]
RULE = ("XOR games with question sets 1..4 x 1..4 (rectangular included), uniform / biased / degenerate (zero-probability rows) distributions, random "
        "0/1 predicates, tol given or defaulted, reps 1..3; Bell functionals with two settings: pure correlators, with marginals, 0/1-valued outcomes; "
        "signature (monitor, X, Y, distribution kind) resp. (monitor, functional kind); non-trivial when the game has a quantum-classical gap or is rectangular")
ASSUMPTIONS = [
    "Tsirelson optimum certified by the monitor: unit vectors extracted from its own Gram SDP give a rigorous lower bound, a dual point repaired by its "
    "measured infeasibility a rigorous upper bound (NumPy eigenvalues only); cvxpy proposes, NumPy verifies",
    "tolerance 2e-4 for cvxpy default-solver values, 5e-4 for bell_inequality_max (SCS)",
    "bell_inequality_max only for two settings per party (three settings cost ~55 s per call and are outside the statement)",
    "Grothendieck constant bounded by Krivine's pi / (2 ln(1 + sqrt 2))",
]
TOL = 2e-4
SOLVER_TIME_LIMIT = 180
TOLB = 5e-4
KG = np.pi / (2 * np.log(1 + np.sqrt(2)))


def cases(tier):
    out = [("xor", r) for r in range(60 if tier == "quick" else 2500)]
    out += [("bell", r) for r in range(24 if tier == "quick" else 400)]
    out += [("reject", r) for r in range(20 if tier == "quick" else 300)]
    out += [("classical", r) for r in range(200 if tier == "quick" else 20000)]
    return out


def run(ctx, spec, rng):
    globals()["_run_" + spec[0]](ctx, spec, rng)


def _run_classical(ctx, spec, rng):
    """The classical value alone (no solver: many cheap instances), XOR game and converted game against the +/-1 brute force; every third
    instance has repeated predicate columns."""
    from toqito.nonlocal_games.xor_game import XORGame

    r = 4 * (1 + spec[1] % 3) + spec[1] % 4 + 12 * (spec[1] // 12)  # walk through (r // 4) % 3 and r % 4 of xor_instance evenly
    prob, pred, kind = xor_instance(rng, r)
    x, y = prob.shape
    game = ctx.call(XORGame, prob.copy(), pred.copy())
    if game is FAILED:
        return
    d_mat = prob * (-1.0) ** pred
    best = max(float(np.abs(np.array([1 - 2 * ((a_ >> i_) & 1) for i_ in range(x)]) @ d_mat).sum()) for a_ in range(2 ** x))
    want = 0.5 + 0.5 * best
    cl = ctx.call(game.classical_value)
    dup = len({tuple(c_) for c_ in pred.T}) < y
    if cl is not FAILED:
        ctx.check("O3:classical=bruteforce", None, dev=abs(float(cl) - want), tol=1e-9, sig=("classical-only", x, y, kind, dup), nt=True, mech="xor:classical-mismatch",
                  detail={"prob": prob, "pred": pred, "library": cl, "bruteforce": want, "repeated_predicate_columns": dup})
    if spec[1] % 5 == 0 and 2 <= x * y <= 6 and max(x, y) <= 3:
        # two parallel repetitions (both copies must be won), also for unequal question counts: brute force on the explicitly built product game
        g2 = ctx.call(XORGame, prob.copy(), pred.copy(), 2)
        if g2 is not FAILED:
            p4 = np.zeros((2, 2, x, y))
            for a_, b_ in itertools.product(range(2), repeat=2):
                p4[a_, b_] = ((a_ ^ b_) == pred).astype(float)
            prob2 = np.einsum("xy,uv->xuyv", prob, prob).reshape(x * x, y * y)
            pred2 = np.einsum("abxy,cduv->acbdxuyv", p4, p4).reshape(4, 4, x * x, y * y)
            if x > y:  # enumerate the player with fewer deterministic strategies
                want2 = ref.classical_value(prob2.T.copy(), pred2.transpose(1, 0, 3, 2).copy())
            else:
                want2 = ref.classical_value(prob2, pred2) if 4 ** (y * y) <= 70000 else ref.classical_value(prob2.T.copy(), pred2.transpose(1, 0, 3, 2).copy())
            cl_r = ctx.call(g2.classical_value)
            if cl_r is not FAILED:
                ctx.check("O3:classical=bruteforce", None, dev=abs(float(cl_r) - want2), tol=1e-9, sig=("two-repetitions", x, y), nt=True, mech="xor:classical-mismatch[reps=2]",
                          detail={"prob": prob, "pred": pred, "library": cl_r, "bruteforce_on_product_game": want2})
    conv = ctx.call(game.to_nonlocal_game)
    if conv is not FAILED:
        cl2 = ctx.call(conv.classical_value)
        if cl2 is not FAILED:
            ctx.check("O3:xor=converted", abs(float(cl2) - want) <= 1e-9, dev=abs(float(cl2) - want), tol=1e-9, sig=("classical-only", x, y, dup), nt=True,
                      mech="xor:converted-classical-differs-from-bruteforce", detail={"library": cl2, "bruteforce": want})


def _solve(ctx, fn, *a, **k):
    ctx.evals["solver-call"] += 1
    v = ctx.call(fn, *a, solver=True, **k)
    if v is FAILED:
        return None
    if v is None or not np.isfinite(v):
        # an infeasible / unbounded program (value None or +-inf) on a valid instance is a wrong answer, not a solver failure
        ctx.fail("solver-call", "non-finite-value:" + getattr(fn, "__name__", "?"), {"value": repr(v), "args": a})
        return None
    return float(v)


def xor_instance(rng, r):
    x, y = int(rng.integers(1, 5)), int(rng.integers(1, 5))
    if (r // 4) % 3 == 2:  # larger dense games: every probability is small
        x, y = int(rng.integers(4, 7)), int(rng.integers(4, 7))
    kind = r % 4
    if kind == 0:
        prob = np.full((x, y), 1.0 / (x * y))
    else:
        prob = rng.random((x, y)) + 0.02
        if kind == 2 and x > 1:
            prob[int(rng.integers(0, x)), :] = 0.0  # degenerate row
        if kind == 3 and x * y > 2:
            prob[rng.random((x, y)) < 0.3] = 0.0
            if prob.sum() == 0:
                prob[0, 0] = 1.0
        prob /= prob.sum()
    pred = rng.integers(0, 2, size=(x, y))
    if (r // 4) % 3 == 1 and y >= 3:
        # several of Bob's questions share one predicate column (and, transposed, Alice's rows) while their probabilities are unrelated
        pool = rng.integers(0, 2, size=(x, 2))
        pred = pool[:, rng.integers(0, 2, size=y)]
        if r % 2:
            pred = pred.copy()
            pred[int(rng.integers(0, x)), int(rng.integers(0, y))] ^= 1
        if x >= 2 and kind != 0:
            # ... strongly non-proportional: each column puts most of its weight on its own row
            skew = np.ones((x, y))
            for j_ in range(y):
                skew[j_ % x, j_] = 6.0
            prob = prob * skew
            prob /= prob.sum()
    return prob, pred, kind


def _run_xor(ctx, spec, rng):
    from toqito.nonlocal_games.xor_game import XORGame

    if spec[1] == 0:  # CHSH anchor
        prob, pred, kind = np.full((2, 2), 0.25), np.array([[0, 0], [0, 1]]), "chsh"
    elif spec[1] == 1:  # odd cycle
        n = 5
        prob, pred = np.zeros((n, n)), np.zeros((n, n), dtype=int)
        for i in range(n):
            prob[i, i] = prob[i, (i + 1) % n] = 1 / (2 * n)
            pred[i, (i + 1) % n] = 1
        kind = "oddcycle"
    elif spec[1] % 10 == 7 or spec[1] == 2:
        # structured, non-generic games: exactly symmetric under exchanging the players (prob and pred symmetric), diagonal of the signed cost
        # matrix zero or positive, cost matrix indefinite.  spec 2: "answers must differ on distinct questions" on three questions (value 1)
        n = 3 if spec[1] == 2 else int(rng.integers(3, 6))
        pred = np.triu(rng.integers(0, 2, size=(n, n)), 1) if spec[1] != 2 else np.triu(np.ones((n, n), dtype=int), 1)
        if spec[1] != 2 and pred.sum() == 0:
            pred[0, 1] = 1
        pred = pred + pred.T
        w_ = np.triu(rng.random((n, n)) + 0.05, 1) if (spec[1] // 10) % 2 else np.triu(np.ones((n, n)), 1)
        prob = w_ + w_.T
        if (spec[1] // 20) % 2 and spec[1] != 2:
            prob = prob + np.diag(rng.random(n) * 0.3)  # some weight on equal questions (answers must agree there)
        prob = prob / prob.sum()
        kind = "symmetric-zero-diagonal" if not np.diag(prob).any() else "symmetric-positive-diagonal"
    else:
        prob, pred, kind = xor_instance(rng, spec[1])
    x, y = prob.shape
    # the validity tolerance of the game object: defaulted, tiny, and of ordinary size (values of a valid game do not depend on it)
    tol_arg = [1e-9, None, 1e-4, None, 1e-6, None][spec[1] % 6]
    game = ctx.call(XORGame, prob.copy(), pred.copy(), 1, tol_arg)
    if game is FAILED:
        return
    d_mat = prob * (-1.0) ** pred
    lower, upper = certs.xor_bias_certificate(d_mat)
    wq = _solve(ctx, game.quantum_value)
    cl_ref = 0.5 + ref.xor_classical_bias(prob, pred) / 2
    gap = (0.5 + lower / 2) - cl_ref
    nt = x != y or gap > 1e-3
    sig = (x, y, str(kind))
    det = {"shape": [x, y], "kind": kind, "prob": prob, "pred": pred, "quantum_value": wq, "certified_lower": 0.5 + lower / 2, "certified_upper": 0.5 + upper / 2,
           "classical_bruteforce": cl_ref}
    if upper - lower > TOL:
        ctx.note_inconclusive("certificate-gap")
        return
    if wq is not None:
        dev = max(0.0, (0.5 + lower / 2) - wq, wq - (0.5 + upper / 2))
        ctx.check("O1:tsirelson-certificate", None, dev=dev, tol=TOL, sig=sig, nt=nt, mech="xor:quantum-value-outside-certificate", detail=det)
        ctx.sample("O1:tsirelson-certificate", det)
        ctx.check("O2:cl<=quantum", cl_ref <= wq + TOL, sig=sig, nt=nt, mech="xor:quantum-below-classical", detail=det)
        ctx.check("O2:grothendieck", (wq - 0.5) <= KG * (cl_ref - 0.5) + TOL, sig=sig, nt=nt, mech="xor:violates-grothendieck", detail=det)
    cl = ctx.call(game.classical_value)
    if cl is not FAILED:
        ctx.check("O3:classical=bruteforce", None, dev=abs(cl - cl_ref), tol=1e-9, sig=sig, nt=nt, mech="xor:classical-mismatch", detail=det)
    nlg = ctx.call(game.to_nonlocal_game)
    if nlg is not FAILED:
        want_pred = np.zeros((2, 2, x, y))
        for a, b in itertools.product(range(2), repeat=2):
            want_pred[a, b] = (pred == (a ^ b)).astype(float)
        ok = np.shape(nlg.pred_mat) == want_pred.shape and np.array_equal(np.asarray(nlg.pred_mat, dtype=float), want_pred) and np.array_equal(nlg.prob_mat, prob)
        ctx.check("O3:converted-predicate", ok, sig=sig, mech="xor:to_nonlocal_game-predicate", detail=det)
        cl2 = ctx.call(nlg.classical_value)
        if cl2 is not FAILED and cl is not FAILED:
            ctx.check("O3:xor=converted", cl2 == cl, sig=sig + ("classical",), nt=nt, mech="xor:classical-differs-from-converted", detail={"xor": cl, "converted": cl2})
        if spec[1] % 3 == 0 or spec[1] < 2:
            ns1 = _solve(ctx, game.nonsignaling_value)
            ns2 = _solve(ctx, nlg.nonsignaling_value)
            if ns1 is not None and ns2 is not None:
                ctx.check("O3:xor=converted", abs(ns1 - ns2) <= TOL, dev=abs(ns1 - ns2), tol=TOL, sig=sig + ("ns",), nt=nt, mech="xor:nonsignaling-differs-from-converted",
                          detail={"xor": ns1, "converted": ns2})
                if wq is not None:
                    ctx.check("O2:quantum<=NS", wq <= ns1 + TOL and ns1 <= 1 + TOL, sig=sig, nt=nt, mech="xor:quantum-above-nonsignaling", detail={"wq": wq, "ns": ns1})
        npa1 = _solve(ctx, nlg.commuting_measurement_value_upper_bound, 1)
        if npa1 is not None and wq is not None:
            ctx.check("O2:quantum=NPA1", None, dev=abs(npa1 - wq), tol=TOL, sig=sig, nt=nt, mech="xor:quantum-differs-from-NPA1", detail=dict(det, npa1=npa1))
    # repetitions
    if wq is not None:
        for reps in (2, 3):
            g_r = ctx.call(XORGame, prob.copy(), pred.copy(), reps, tol_arg)
            if g_r is FAILED:
                continue
            wr = _solve(ctx, g_r.quantum_value)
            if wr is not None:
                ctx.check("O4:repetition-power", None, dev=abs(wr - wq ** reps), tol=TOL, sig=sig + (reps,), nt=nt, mech="xor:repetition-not-power", detail={"wq": wq, "reps": reps, "value": wr})


def _bell_lib(ctx, j, a, b, av, bv):
    from toqito.state_opt import bell_inequality_max

    return _solve(ctx, bell_inequality_max, np.array(j, dtype=float), np.array(a, dtype=float), np.array(b, dtype=float), np.array(av, dtype=float), np.array(bv, dtype=float))


def _bell_deterministic(j, a, b, av, bv):
    best = -np.inf
    for xs in itertools.product(av, repeat=2):
        for ys in itertools.product(bv, repeat=2):
            v = sum(j[x][y] * xs[x] * ys[y] for x in range(2) for y in range(2)) + sum(a[x] * xs[x] for x in range(2)) + sum(b[y] * ys[y] for y in range(2))
            best = max(best, v)
    return float(best)


def _bell_explicit(rng, j, a, b, av, bv, tries=300):
    """Rigorous lower bound on the quantum maximum: largest eigenvalue of the Bell operator for explicit qubit observables."""
    sx, sy, sz = np.array([[0, 1], [1, 0]], complex), np.array([[0, -1j], [1j, 0]]), np.array([[1, 0], [0, -1]], complex)
    eye = np.eye(2)

    def obs(vals):
        n = rng.normal(size=3)
        n /= np.linalg.norm(n)
        pm = n[0] * sx + n[1] * sy + n[2] * sz
        return (vals[0] + vals[1]) / 2 * eye + (vals[0] - vals[1]) / 2 * pm

    best = -np.inf
    for _ in range(tries):
        aa = [obs(av) for _ in range(2)]
        bb = [obs(bv) for _ in range(2)]
        op = sum(j[x][y] * np.kron(aa[x], bb[y]) for x in range(2) for y in range(2))
        op = op + sum(a[x] * np.kron(aa[x], eye) for x in range(2)) + sum(b[y] * np.kron(eye, bb[y]) for y in range(2))
        best = max(best, ref.eigmax(op))
    return float(best)


def _run_bell(ctx, spec, rng):
    r = spec[1]
    pm = [1.0, -1.0]
    if r == 0:  # CHSH
        j, a, b, av, bv, name = [[1, 1], [1, -1]], [0, 0], [0, 0], pm, pm, "chsh"
    elif r == 1:  # Clauser-Horne, 0/1-valued outcomes
        j, a, b, av, bv, name = [[1, 1], [1, -1]], [-1, 0], [-1, 0], [1.0, 0.0], [1.0, 0.0], "CH"
    elif r % 5 == 4:  # the two parties label their outcomes differently (+1/-1 against 0/1, or arbitrary values), marginal terms present
        j, a, b = rng.normal(size=(2, 2)), rng.normal(size=2) * 0.7, rng.normal(size=2) * 0.7
        av, bv = [(pm, [0.0, 1.0]), ([1.0, 0.0], pm), ([2.0, -1.0], [0.5, 3.0]), (pm, [1.0, 0.0])][(r // 5) % 4]
        name = "different-outcome-labels"
    elif r % 4 == 3:  # integer coefficients with exact zeros, marginal terms, either outcome labelling
        j = rng.integers(-2, 3, size=(2, 2)).astype(float)
        j[int(rng.integers(0, 2)), int(rng.integers(0, 2))] = 0.0
        if rng.random() < 0.5:
            j[0, int(rng.integers(0, 2))] = 0.0
        a, b = rng.integers(-1, 2, size=2).astype(float), rng.integers(-1, 2, size=2).astype(float)
        av, bv = (pm, pm) if r % 8 == 3 else ([1.0, 0.0], [1.0, 0.0])
        name = "sparse-integer+marginals" + ("" if r % 8 == 3 else "-01")
    elif r % 3 == 2:
        j = rng.integers(-3, 4, size=(2, 2)).astype(float) if r % 2 else rng.normal(size=(2, 2))
        a, b, av, bv, name = [0, 0], [0, 0], pm, pm, "correlator"
    elif r % 3 == 0:
        j, a, b = rng.normal(size=(2, 2)), rng.normal(size=2) * 0.5, rng.normal(size=2) * 0.5
        av, bv, name = pm, pm, "marginals"
    else:
        j, a, b = rng.normal(size=(2, 2)), rng.normal(size=2) * 0.5, rng.normal(size=2) * 0.5
        av, bv, name = [1.0, 0.0], [1.0, 0.0], "01-valued"
    j = np.asarray(j, dtype=float)
    a, b = np.asarray(a, dtype=float), np.asarray(b, dtype=float)
    val = _bell_lib(ctx, j, a, b, av, bv)
    if val is None:
        return
    scale = 1 + float(np.abs(j).sum() + np.abs(a).sum() + np.abs(b).sum())
    det = {"kind": name, "joint": j, "a_coe": a, "b_coe": b, "a_val": av, "b_val": bv, "library": val}
    sig = (name,)
    det_best = _bell_deterministic(j, a, b, av, bv)
    ctx.check("O5:bell>=deterministic", val >= det_best - TOLB * scale, dev=max(0.0, det_best - val) / scale, tol=TOLB, sig=sig, mech="bell_inequality_max:below-deterministic", detail=dict(det, deterministic=det_best))
    expl = _bell_explicit(rng, j, a, b, av, bv, 200 if ctx.tier == "quick" else 600)
    ctx.check("O5:bell>=explicit-strategy", val >= expl - TOLB * scale, dev=max(0.0, expl - val) / scale, tol=TOLB, sig=sig, mech="bell_inequality_max:below-explicit-quantum-strategy",
              detail=dict(det, explicit=expl))
    # exact quantum maximum for two dichotomic settings per party (Jordan's lemma; NumPy only)
    qmax = certs.bell_222_max(j, a, b, av, bv, 60 if ctx.tier == "quick" else 90)
    ctx.check("O5:bell=quantum-maximum", None, dev=abs(val - qmax) / scale, tol=1e-3, sig=sig, nt=True, mech="bell_inequality_max:differs-from-quantum-maximum" + ("[above]" if val > qmax else "[below]"),
              detail=dict(det, quantum_maximum=qmax))
    if name in ("chsh", "correlator"):
        ts = certs.tsirelson_2x2(j)
        ctx.check("O5:bell=tsirelson", None, dev=abs(val - ts) / scale, tol=TOLB, sig=sig, mech="bell_inequality_max:differs-from-tsirelson", detail=dict(det, tsirelson=ts))
        ctx.sample("O5:bell=tsirelson", dict(det, tsirelson=ts))
        lo, up = certs.xor_bias_certificate(j)
        ctx.check("O5:bell=tsirelson", lo - TOLB * scale <= val <= up + TOLB * scale, sig=sig + ("sdp-certificate",), mech="bell_inequality_max:outside-certificate", detail=dict(det, lower=lo, upper=up))
    if name == "CH":
        ctx.check("O5:bell=tsirelson", None, dev=abs(val - (np.sqrt(2) - 1) / 2), tol=TOLB, sig=("CH-anchor",), mech="bell_inequality_max:CH-anchor", detail=det)
    # affine relation between general two-valued outcomes and +-1-valued outcomes
    al_a, be_a = (av[0] + av[1]) / 2, (av[0] - av[1]) / 2
    al_b, be_b = (bv[0] + bv[1]) / 2, (bv[0] - bv[1]) / 2
    if name in ("01-valued", "CH", "marginals") or name.startswith("sparse"):
        if av[1] == -1.0:  # rewrite +-1 outcomes as outcomes (2, 0): A' = 1 + A  =>  A = A' - 1
            av2, bv2 = [2.0, 0.0], [2.0, 0.0]
            j2 = j
            a2 = a - j.sum(axis=1)
            b2 = b - j.sum(axis=0)
            const = j.sum() - a.sum() - b.sum()
            other = _bell_lib(ctx, j2, a2, b2, av2, bv2)
            if other is not None:
                ctx.check("O5:bell-affine-relation", None, dev=abs(val - (const + other)) / scale, tol=2 * TOLB, sig=sig, mech="bell_inequality_max:affine-relation",
                          detail=dict(det, rewritten=other, const=const))
        else:
            j2 = be_a * be_b * j
            a2 = be_a * (a + al_b * j.sum(axis=1))
            b2 = be_b * (b + al_a * j.sum(axis=0))
            const = al_a * al_b * j.sum() + al_a * a.sum() + al_b * b.sum()
            other = _bell_lib(ctx, j2, a2, b2, pm, pm)
            if other is not None:
                ctx.check("O5:bell-affine-relation", None, dev=abs(val - (const + other)) / scale, tol=2 * TOLB, sig=sig, mech="bell_inequality_max:affine-relation",
                          detail=dict(det, rewritten=other, const=const))


def _run_reject(ctx, spec, rng):
    from toqito.nonlocal_games.xor_game import XORGame

    x, y = int(rng.integers(1, 4)), int(rng.integers(2, 4))
    prob = rng.random((x, y))
    prob /= prob.sum()
    pred = rng.integers(0, 2, size=(x, y))
    k = spec[1] % 3
    if k == 0:
        res = ctx.call(XORGame, prob, pred[:, :-1], expect=(ValueError,))
        what = "shape-mismatch"
    elif k == 1:
        bad = prob.copy()
        bad[0, 0] = -0.1
        bad[0, 1] += prob[0, 0] + 0.1
        res = ctx.call(XORGame, bad, pred, expect=(ValueError,))
        what = "negative-probability"
    else:
        res = ctx.call(XORGame, prob * 1.01, pred, expect=(ValueError,))
        what = "not-normalised"
    if res is not FAILED:
        ctx.check("O6:constructor-rejects", isinstance(res, ValueError), sig=(what,), mech=f"XORGame:accepts-{what}", detail={"what": what})
