"""C17 - named states and standard matrices satisfy their defining identities."""
from __future__ import annotations

import itertools

import numpy as np

from .. import gen, ref
from ..core import FAILED, fresh_result

GROUPS = ["bell", "gen_bell", "max_entangled", "ghz", "w_state", "dicke", "werner", "werner_list", "isotropic", "horodecki", "tile_domino", "mub", "bases",
          "singlet_breuer", "brauer", "misc_states", "pbr", "pauli", "gen_pauli", "clock_shift", "gell_mann", "gen_gell_mann", "hadamard_cnot_cyclic"]
DECIDING = ["id:" + g for g in GROUPS]
RULE = ("every constructor in toqito.states / toqito.matrices on dimensions 2..5 (primes 2,3,5,7 for the unbiased bases), 1..5 qubits, parameter grids including interval "
        "end points and values just outside (+-1e-6, +-0.05), all index pairs, 30 (quick: 6) Haar unitaries per invariance statement; marginals / partial transposes / "
        "subsystem permutations are computed by the reference models, never by the library; signature (group, dimension or qubits, parameter class)")
THOROUGH_REPEAT = 20  # the thorough tier runs its randomised case kinds this many times (new inputs each time)
ASSUMPTIONS = [
    "w_state rounds amplitudes to 4 decimals: normalisation tolerance 1e-3 for that constructor; everything else 1e-9",
    "PPT thresholds decided away from the threshold: alpha <= threshold - 0.02 => lambda_min(PT) >= -1e-12, alpha >= threshold + 0.02 => lambda_min(PT) <= -1e-4",
    "clock / shift: either intertwining convention F X F^dagger = Z or F^dagger X F = Z is accepted",
    "werner scalar form requires a Python float (an int is rejected by the library by design)",
]


def cases(tier):
    out = []
    reps = 6 if tier == "quick" else 800
    for g in GROUPS:
        for r in range(reps):
            out.append((g, r))
    return out


def run(ctx, spec, rng):
    globals()["_g_" + spec[0]](ctx, spec[1], rng)


def arr(x):
    return x.toarray() if hasattr(x, "toarray") else np.asarray(x)


def ok(ctx, group, cond, what, sig=None, detail=None, dev=None, tol=None, nt=True):
    ctx.check("id:" + group, cond, dev=dev, tol=tol, sig=(what,) + tuple(sig or ()), nt=nt, mech=f"{group}:{what}", detail=detail)


def close(a, b, tol=1e-9):
    a, b = np.asarray(a), np.asarray(b)
    return a.shape == b.shape and bool(np.abs(a - b).max(initial=0) <= tol)


def _call(ctx, fn, *a, **k):
    # every constructor call doubles as a history check: the returned array belongs to the caller (overwriting it must not change what the
    # same call returns next, and the two results must not share memory)
    v = fresh_result(ctx, "H1:fresh-result", fn, a, k)
    return None if v is FAILED else v


def _ntries(ctx):
    return 6 if ctx.tier == "quick" else 30


def _g_bell(ctx, r, rng):
    from toqito.states import bell

    vs = [_call(ctx, bell, i) for i in range(4)]
    if any(v is None for v in vs):
        return
    m = np.hstack([arr(v).reshape(-1, 1) for v in vs])
    ok(ctx, "bell", close(m.conj().T @ m, np.eye(4)), "orthonormal-basis")
    for i, v in enumerate(vs):
        rho = np.outer(arr(v).reshape(-1), arr(v).reshape(-1).conj())
        ok(ctx, "bell", close(ref.partial_trace(rho, [r % 2], [2, 2]), np.eye(2) / 2), "maximally-mixed-marginal", (i,))
    res = ctx.call(bell, 4 + r, expect=(ValueError,))
    if res is not FAILED:
        ok(ctx, "bell", isinstance(res, ValueError), "rejects-index>3")
    ctx.sample("id:bell", {"bell(0)": arr(vs[0]).reshape(-1)})


def _g_gen_bell(ctx, r, rng):
    from toqito.states import bell, gen_bell

    d = 2 + r % 4
    bs = [[_call(ctx, gen_bell, a, b, d) for b in range(d)] for a in range(d)]
    flat = [arr(x) for row in bs for x in row if x is not None]
    if len(flat) != d * d:
        return
    gram = np.array([[np.trace(x.conj().T @ y) for y in flat] for x in flat])
    ok(ctx, "gen_bell", close(gram, np.eye(d * d), 1e-9), "orthonormal-projectors", (d,))
    for x in flat:
        ok(ctx, "gen_bell", np.linalg.matrix_rank(x, tol=1e-9) == 1 and abs(np.trace(x) - 1) < 1e-9 and close(x, x.conj().T), "rank-one-density", (d,), nt=False)
        ok(ctx, "gen_bell", close(ref.partial_trace(x, [0], [d, d]), np.eye(d) / d) and close(ref.partial_trace(x, [1], [d, d]), np.eye(d) / d), "maximally-entangled", (d,))
    if d == 2:
        projs = [np.outer(arr(bell(i)).reshape(-1), arr(bell(i)).reshape(-1).conj()) for i in range(4)]
        matched = all(any(close(p, x, 1e-9) for x in flat) for p in projs)
        ok(ctx, "gen_bell", matched, "d=2-recovers-bell-states")
    ctx.sample("id:gen_bell", {"d": d, "count": len(flat)})


def _g_max_entangled(ctx, r, rng):
    from toqito.states import max_entangled, max_mixed

    d = 1 + r % 5
    for sp in (False, True):
        for nm in (True, False):
            v = _call(ctx, max_entangled, d, sp, nm)
            if v is None:
                continue
            v = arr(v).reshape(-1)
            want = np.eye(d).reshape(-1) / (np.sqrt(d) if nm else 1.0)
            ok(ctx, "max_entangled", close(v, want), "definition", (d, sp, nm))
            rho = np.outer(v, v.conj())
            ok(ctx, "max_entangled", close(ref.partial_trace(rho, [1], [d, d]), np.eye(d) * (1 / d if nm else 1.0)), "maximally-mixed-marginal", (d, sp, nm))
    for sp in (False, True):
        m = _call(ctx, max_mixed, d, sp)
        if m is not None:
            ok(ctx, "max_entangled", close(arr(m), np.eye(d) / d), "max_mixed", (d, sp))


def _sym_ok(v, n, dloc):
    v = np.asarray(v).reshape(-1)
    return all(close(ref.permute_vec(v, p, [dloc] * n), v, 1e-6) for p in itertools.permutations(range(n))) if n <= 4 else True


def _g_ghz(ctx, r, rng):
    from toqito.states import ghz

    d, n = 2 + r % 3, 1 + (r // 3) % 4
    coeff = None if r % 2 == 0 else list(rng.random(d) + 0.1)
    v = _call(ctx, ghz, d, n, coeff)
    if v is None:
        return
    v = arr(v).reshape(-1)
    c = np.ones(d) if coeff is None else np.array(coeff)
    c = c / np.linalg.norm(c)
    want = np.zeros(d ** n)
    for i in range(d):
        want[sum(i * d ** k for k in range(n))] = c[i]
    ok(ctx, "ghz", close(v, want), "support-and-amplitudes", (d, n, coeff is None))
    ok(ctx, "ghz", abs(np.linalg.norm(v) - 1) < 1e-9 and _sym_ok(v, n, d), "normalised-and-symmetric", (d, n))
    for bad in ((0, 2), (2, 0)):
        res = ctx.call(ghz, *bad, expect=(ValueError,))
        if res is not FAILED:
            ok(ctx, "ghz", isinstance(res, ValueError), "rejects-nonpositive", bad)
    res = ctx.call(ghz, d, n, [1.0] * (d + 1), expect=(ValueError,))
    if res is not FAILED:
        ok(ctx, "ghz", isinstance(res, ValueError), "rejects-wrong-coeff-length")
    ctx.sample("id:ghz", {"d": d, "n": n, "coeff": coeff})


def _g_w_state(ctx, r, rng):
    from toqito.states import w_state

    n = 2 + r % 4
    coeff = None if r % 2 == 0 else list(rng.random(n) + 0.2)
    v = _call(ctx, w_state, n, coeff)
    if v is None:
        return
    v = arr(v).reshape(-1)
    c = np.ones(n) if coeff is None else np.array(coeff)
    c = c / np.linalg.norm(c)
    want = np.zeros(2 ** n)
    for j in range(n):
        want[2 ** (n - 1 - j)] = c[j]
    ok(ctx, "w_state", close(v, want, 1e-3), "support-and-amplitudes", (n, coeff is None))
    ok(ctx, "w_state", abs(np.linalg.norm(v) - 1) < 1e-3, "normalised", (n,))
    if coeff is None:
        ok(ctx, "w_state", _sym_ok(v, n, 2), "symmetric", (n,))
    res = ctx.call(w_state, 1, expect=(ValueError,))
    if res is not FAILED:
        ok(ctx, "w_state", isinstance(res, ValueError), "rejects-one-qubit")


def _g_dicke(ctx, r, rng):
    from toqito.states import dicke

    n = 1 + r % 5
    k = (r // 5) % (n + 1)
    v = _call(ctx, dicke, n, k)
    if v is None:
        return
    v = arr(v).reshape(-1)
    want = np.array([1.0 if bin(i).count("1") == k else 0.0 for i in range(2 ** n)])
    want /= np.linalg.norm(want)
    ok(ctx, "dicke", close(v, want), "uniform-over-weight-k", (n, k))
    ok(ctx, "dicke", _sym_ok(v, n, 2), "symmetric", (n, k))
    dm = _call(ctx, dicke, n, k, True)
    if dm is not None:
        ok(ctx, "dicke", close(arr(dm), np.outer(want, want)), "density-matrix-form", (n, k))
    res = ctx.call(dicke, n, n + 1, expect=(ValueError,))
    if res is not FAILED:
        ok(ctx, "dicke", isinstance(res, ValueError), "rejects-k>n")


def _param(r, lo, hi, thr=None):
    grid = [lo, hi, (lo + hi) / 2, lo + 1e-6, hi - 1e-6]
    if thr is not None:
        grid += [thr - 0.02, thr + 0.02, thr - 0.3 * (thr - lo), thr + 0.3 * (hi - thr)]
    return float(grid[r % len(grid)])


def _g_werner(ctx, r, rng):
    from toqito.states import werner

    d = 2 + r % 4
    a = _param(r, -1.0, 1.0, 1.0 / d)
    rho = _call(ctx, werner, d, a)
    if rho is None:
        return
    rho = arr(rho)
    sw = ref.perm_matrix([d, d], [1, 0])
    ok(ctx, "werner", close(rho, (np.eye(d * d) - a * sw) / (d * (d - a))), "definition", (d,))
    ok(ctx, "werner", abs(np.trace(rho) - 1) < 1e-9 and ref.eigmin(rho) >= -1e-12, "unit-trace-psd", (d,))
    for _ in range(_ntries(ctx)):
        u = gen.haar(rng, d)
        uu = np.kron(u, u)
        ok(ctx, "werner", close(uu @ rho @ uu.conj().T, rho, 1e-9), "UxU-invariant", (d,))
    lam = ref.eigmin(ref.partial_transpose(rho, [1], [d, d], [d, d]))
    if a <= 1 / d - 0.019:
        ok(ctx, "werner", lam >= -1e-12, "ppt-below-threshold", (d,), {"alpha": a, "lambda_min": lam})
    elif a >= 1 / d + 0.019:
        ok(ctx, "werner", lam <= -1e-4, "npt-above-threshold", (d,), {"alpha": a, "lambda_min": lam})
    ctx.sample("id:werner", {"d": d, "alpha": a, "lambda_min_PT": lam})


def _g_werner_list(ctx, r, rng):
    from toqito.states import werner

    d = 2 + r % 3
    a = float(rng.uniform(-0.9, 0.9))
    one = _call(ctx, werner, d, [a])
    scal = _call(ctx, werner, d, a)
    if one is not None and scal is not None:
        mech = "werner_list:one-parameter-list-differs-from-scalar"
        if close(arr(one), np.eye(d * d) / d ** 2, 1e-9) and not close(arr(scal), np.eye(d * d) / d ** 2, 1e-6):
            mech = "werner_list:list-form-ignores-alpha(off-by-one)"
        ctx.check("id:werner_list", close(arr(one), arr(scal), 1e-9), sig=("list=scalar", d), nt=True, mech=mech, detail={"d": d, "alpha": a})
    if d <= 3 and r % 2 == 0:  # tripartite: 3! - 1 = 5 parameters
        al = list(rng.uniform(-0.1, 0.1, size=5))
        rho = _call(ctx, werner, d, al)
        if rho is not None:
            rho = arr(rho)
            ok(ctx, "werner_list", abs(np.trace(rho) - 1) < 1e-9, "tripartite-unit-trace", (d,))  # (not Hermitian in general: 3-cycles)
            for _ in range(max(2, _ntries(ctx) // 3)):
                u = gen.haar(rng, d)
                uuu = np.kron(np.kron(u, u), u)
                ok(ctx, "werner_list", close(uuu @ rho @ uuu.conj().T, rho, 1e-9), "UxUxU-invariant", (d,))
            for j in range(5):  # the state must depend on every alpha_j
                al2 = list(al)
                al2[j] += 0.05
                rho2 = _call(ctx, werner, d, al2)
                if rho2 is not None:
                    mech = "werner_list:list-form-ignores-alpha(off-by-one)" if j == 0 else f"werner_list:independent-of-alpha_{j}"
                    ctx.check("id:werner_list", not close(arr(rho2), rho, 1e-6), sig=("depends-on-alpha", j), nt=True, mech=mech, detail={"d": d, "j": j})
    res = ctx.call(werner, d, [0.1, 0.2], expect=(ValueError,))
    if res is not FAILED:
        ok(ctx, "werner_list", isinstance(res, ValueError), "rejects-length-not-p!-1")


def _g_isotropic(ctx, r, rng):
    from toqito.states import isotropic

    d = 2 + r % 4
    a = _param(r, -1.0 / (d * d - 1) + 1e-9, 1.0, 1.0 / (d + 1))
    rho = _call(ctx, isotropic, d, a)
    if rho is None:
        return
    rho = arr(rho)
    psi = np.eye(d).reshape(-1)
    ok(ctx, "isotropic", close(rho, (1 - a) * np.eye(d * d) / d ** 2 + a * np.outer(psi, psi) / d), "definition", (d,))
    ok(ctx, "isotropic", abs(np.trace(rho) - 1) < 1e-9 and ref.eigmin(rho) >= -1e-9, "unit-trace-psd", (d,))
    for _ in range(_ntries(ctx)):
        u = gen.haar(rng, d)
        uu = np.kron(u, u.conj())
        ok(ctx, "isotropic", close(uu @ rho @ uu.conj().T, rho, 1e-9), "UxconjU-invariant", (d,))
    lam = ref.eigmin(ref.partial_transpose(rho, [1], [d, d], [d, d]))
    thr = 1 / (d + 1)
    if a <= thr - 0.019:
        ok(ctx, "isotropic", lam >= -1e-12, "ppt-below-threshold", (d,), {"alpha": a, "lambda_min": lam})
    elif a >= thr + 0.019:
        ok(ctx, "isotropic", lam <= -1e-4, "npt-above-threshold", (d,), {"alpha": a, "lambda_min": lam})
    ctx.sample("id:isotropic", {"d": d, "alpha": a, "lambda_min_PT": lam})


def _g_horodecki(ctx, r, rng):
    from toqito.states import horodecki

    a = _param(r, 0.0, 1.0)
    for dims in (None, [3, 3], [2, 4]):
        rho = _call(ctx, horodecki, a) if dims is None else _call(ctx, horodecki, a, dims)
        if rho is None:
            continue
        rho = arr(rho)
        dd = [3, 3] if dims is None else dims
        ok(ctx, "horodecki", abs(np.trace(rho) - 1) < 1e-9 and ref.eigmin(rho) >= -1e-12 and close(rho, rho.conj().T), "density", (tuple(dd),), {"a": a})
        lam = min(ref.eigmin(ref.partial_transpose(rho, [s], dd, dd)) for s in (0, 1))
        ok(ctx, "horodecki", lam >= -1e-12, "ppt", (tuple(dd),), {"a": a, "lambda_min": lam})
    for bad in (-1e-6, -0.05, 1 + 1e-6, 1.05):
        res = ctx.call(horodecki, bad, expect=(ValueError,))
        if res is not FAILED:
            ok(ctx, "horodecki", isinstance(res, ValueError), "rejects-outside-[0,1]", (bad,))
    res = ctx.call(horodecki, 0.5, [2, 3], expect=(ValueError,))
    if res is not FAILED:
        ok(ctx, "horodecki", isinstance(res, ValueError), "rejects-other-dims")
    ctx.sample("id:horodecki", {"a": a})


def _g_tile_domino(ctx, r, rng):
    from toqito.states import domino, tile

    for name, fn, n in (("tile", tile, 5), ("domino", domino, 9)):
        vs = [_call(ctx, fn, i) for i in range(n)]
        if any(v is None for v in vs):
            continue
        m = np.hstack([arr(v).reshape(-1, 1) for v in vs])
        ok(ctx, "tile_domino", close(m.conj().T @ m, np.eye(n)), name + "-orthonormal")
        for i, v in enumerate(vs):
            s = ref.schmidt_coeffs(arr(v).reshape(-1), 3, 3)
            ok(ctx, "tile_domino", s[1] <= 1e-12, name + "-product-vector", (i,))
        res = ctx.call(fn, n, expect=(ValueError,))
        if res is not FAILED:
            ok(ctx, "tile_domino", isinstance(res, ValueError), name + "-rejects-index")
    ctx.sample("id:tile_domino", {"tiles": 5, "dominoes": 9})


def _g_mub(ctx, r, rng):
    from toqito.states import mutually_unbiased_basis

    d = [2, 3, 5, 7][r % 4]
    vs = _call(ctx, mutually_unbiased_basis, d)
    if vs is not None:
        vs = [arr(v).reshape(-1) for v in vs]
        ok(ctx, "mub", len(vs) == d * (d + 1), "count", (d,), {"count": len(vs)})
        good = True
        for b in range(len(vs) // d):
            blk = np.array(vs[b * d:(b + 1) * d])
            good &= close(blk.conj() @ blk.T, np.eye(d), 1e-9)
        ok(ctx, "mub", bool(good), "orthonormal-within-bases", (d,))
        unb = True
        for b1 in range(len(vs) // d):
            for b2 in range(b1 + 1, len(vs) // d):
                for x in vs[b1 * d:(b1 + 1) * d]:
                    for y in vs[b2 * d:(b2 + 1) * d]:
                        unb &= abs(abs(np.vdot(x, y)) ** 2 - 1 / d) < 1e-9
        ok(ctx, "mub", bool(unb), "unbiased-across-bases", (d,))
        ctx.sample("id:mub", {"d": d, "vectors": len(vs)})
    for bad in (4, 6):
        res = ctx.call(mutually_unbiased_basis, bad, expect=(ValueError,))
        if res is not FAILED:
            ok(ctx, "mub", isinstance(res, ValueError), "rejects-non-prime", (bad,))


def _g_bases(ctx, r, rng):
    from toqito.matrices import standard_basis
    from toqito.states import basis, bb84, trine

    d = 1 + r % 5
    sb = _call(ctx, standard_basis, d)
    if sb is not None:
        m = np.hstack([arr(v).reshape(-1, 1) for v in sb])
        ok(ctx, "bases", close(m, np.eye(d)), "standard_basis", (d,))
    sbf = _call(ctx, standard_basis, d, True)
    if sbf is not None:
        ok(ctx, "bases", all(np.ndim(v) == 1 for v in sbf) and close(np.array(sbf), np.eye(d)), "standard_basis-flatten", (d,))
    for pos in range(d):
        v = _call(ctx, basis, d, pos)
        if v is not None:
            ok(ctx, "bases", close(arr(v).reshape(-1), np.eye(d)[pos]) and np.shape(v) == (d, 1), "basis", (d,), nt=False)
    res = ctx.call(basis, d, d, expect=(ValueError,))
    if res is not FAILED:
        ok(ctx, "bases", isinstance(res, ValueError), "basis-rejects-pos>=dim")
    tr = _call(ctx, trine)
    if tr is not None:
        vs = [arr(v).reshape(-1) for v in tr]
        ok(ctx, "bases", len(vs) == 3 and all(abs(np.linalg.norm(v) - 1) < 1e-12 for v in vs) and all(abs(abs(np.vdot(vs[i], vs[j])) - 0.5) < 1e-12 for i in range(3) for j in range(i)),
           "trine-symmetric")
        ok(ctx, "bases", close(sum(np.outer(v, v.conj()) for v in vs), 1.5 * np.eye(2)), "trine-resolves-identity")
    bb = _call(ctx, bb84)
    if bb is not None:
        b0 = [arr(v).reshape(-1) for v in bb[0]]
        b1 = [arr(v).reshape(-1) for v in bb[1]]
        ok(ctx, "bases", abs(np.vdot(b0[0], b0[1])) < 1e-12 and abs(np.vdot(b1[0], b1[1])) < 1e-12 and all(abs(abs(np.vdot(x, y)) ** 2 - 0.5) < 1e-12 for x in b0 for y in b1), "bb84-unbiased")


def _g_singlet_breuer(ctx, r, rng):
    from toqito.states import breuer, singlet

    d = 2 + r % 4
    s = _call(ctx, singlet, d)
    if s is not None:
        s = arr(s)
        sw = ref.perm_matrix([d, d], [1, 0])
        ok(ctx, "singlet_breuer", abs(np.trace(s) - 1) < 1e-9 and ref.eigmin(s) >= -1e-12, "singlet-density", (d,))
        ok(ctx, "singlet_breuer", close(sw @ s, -s), "singlet-antisymmetric", (d,))
        u = gen.haar(rng, d)
        ok(ctx, "singlet_breuer", close(np.kron(u, u) @ s @ np.kron(u, u).conj().T, s, 1e-9), "singlet-UxU-invariant", (d,))
    de = [2, 4][r % 2]
    lam = _param(r, 0.0, 1.0)
    b = _call(ctx, breuer, de, lam)
    if b is not None:
        b = arr(b)
        ok(ctx, "singlet_breuer", abs(np.trace(b) - 1) < 1e-9 and ref.eigmin(b) >= -1e-9 and close(b, b.conj().T), "breuer-density", (de,), {"lam": lam})
    res = ctx.call(breuer, 3, 0.1, expect=(ValueError,))
    if res is not FAILED:
        ok(ctx, "singlet_breuer", isinstance(res, ValueError), "breuer-rejects-odd-dimension")


def _g_brauer(ctx, r, rng):
    from toqito.states import brauer

    d, p = [(2, 1), (2, 2), (3, 1), (3, 2), (2, 3), (4, 1)][r % 6]
    m = _call(ctx, brauer, d, p)
    if m is None:
        return
    m = arr(m)
    ok(ctx, "brauer", m.shape == (d ** (2 * p), ref.double_factorial_odd(2 * p)), "shape", (d, p), {"shape": m.shape})
    ok(ctx, "brauer", all(abs(np.linalg.norm(m[:, i]) ** 2 - d ** p) < 1e-9 for i in range(m.shape[1])), "column-norms", (d, p))
    phi = np.eye(d).reshape(-1)
    base = phi
    for _ in range(p - 1):
        base = np.kron(base, phi)
    # every column is a subsystem permutation of the p-fold product of maximally entangled vectors
    cols_ok = all(any(close(ref.permute_vec(base, perm, [d] * (2 * p)), m[:, i]) for perm in itertools.permutations(range(2 * p))) for i in range(m.shape[1])) if 2 * p <= 4 else True
    ok(ctx, "brauer", cols_ok and len({tuple(np.round(m[:, i], 9)) for i in range(m.shape[1])}) == m.shape[1], "columns-are-distinct-pairings", (d, p))


def _g_misc_states(ctx, r, rng):
    from toqito.states import chessboard, gisin

    lam, theta = _param(r, 0.0, 1.0), float(rng.uniform(0, np.pi))
    g = _call(ctx, gisin, lam, theta)
    if g is not None:
        g = arr(g)
        ok(ctx, "misc_states", abs(np.trace(g) - 1) < 1e-9 and ref.eigmin(g) >= -1e-12 and close(g, g.conj().T), "gisin-density", (), {"lam": lam, "theta": theta})
    for bad in (-0.05, 1.05, -1e-6, 1 + 1e-6):
        res = ctx.call(gisin, bad, theta, expect=(ValueError,))
        if res is not FAILED:
            ok(ctx, "misc_states", isinstance(res, ValueError), "gisin-rejects-lambda-outside", (bad,))
    params = list(rng.uniform(0.5, 2.0, size=6)) if r % 2 == 0 else list(rng.uniform(0.5, 2.0, size=6) + 1j * rng.uniform(-1, 1, size=6))
    c = _call(ctx, chessboard, params) if r % 3 else _call(ctx, chessboard, params, 0.7, 0.3)
    if c is not None:
        c = arr(c)
        ok(ctx, "misc_states", abs(np.trace(c) - 1) < 1e-9 and ref.eigmin(c) >= -1e-12 and close(c, c.conj().T) and c.shape == (9, 9), "chessboard-density", (r % 2,))


def _g_pbr(ctx, r, rng):
    from toqito.states import pusey_barrett_rudolph

    n = 1 + r % 3
    theta = float(rng.uniform(0.05, np.pi / 2))
    vs = _call(ctx, pusey_barrett_rudolph, n, theta)
    if vs is None:
        return
    vs = [arr(v).reshape(-1) for v in vs]
    ok(ctx, "pbr", len(vs) == 2 ** n and all(v.size == 2 ** n for v in vs), "count", (n,))
    gram = np.array([[np.vdot(a, b) for b in vs] for a in vs])
    want = np.array([[np.cos(theta) ** bin(i ^ j).count("1") for j in range(2 ** n)] for i in range(2 ** n)])
    ok(ctx, "pbr", close(gram, want, 1e-9), "gram-matrix=cos(theta)^hamming", (n,), {"theta": theta})
    ctx.sample("id:pbr", {"n": n, "theta": theta})


PAULI = [np.eye(2), np.array([[0, 1], [1, 0]]), np.array([[0, -1j], [1j, 0]]), np.array([[1, 0], [0, -1]])]


def _g_pauli(ctx, r, rng):
    from toqito.matrices import pauli

    for i, names in enumerate([(0, "I", "i"), (1, "X", "x"), (2, "Y", "y"), (3, "Z", "z")]):
        for nm in names:
            for sp in (False, True):
                m = _call(ctx, pauli, nm, sp)
                if m is not None:
                    ok(ctx, "pauli", close(arr(m), PAULI[i]), "single-qubit", (str(nm), sp), nt=i > 0)
    n = 1 + r % 3
    idx = [int(v) for v in rng.integers(0, 4, size=n)]
    m = _call(ctx, pauli, idx)
    if m is not None:
        ok(ctx, "pauli", close(arr(m), ref.kron_all([PAULI[i] for i in idx])), "tensor-product-list", (n,))
    ms = _call(ctx, pauli, ["IXYZ"[i] for i in idx])
    if ms is not None:
        ok(ctx, "pauli", close(arr(ms), ref.kron_all([PAULI[i] for i in idx])), "tensor-product-string-list", (n,))
    fam = [arr(pauli(i)) for i in range(4)]
    gram = np.array([[np.trace(a.conj().T @ b) for b in fam] for a in fam])
    ok(ctx, "pauli", close(gram, 2 * np.eye(4)), "trace-orthogonal-basis")


def _g_gen_pauli(ctx, r, rng):
    from toqito.matrices import gen_pauli

    d = 2 + r % 4
    fam = [[_call(ctx, gen_pauli, a, b, d) for b in range(d)] for a in range(d)]
    flat = [arr(x) for row in fam for x in row if x is not None]
    if len(flat) != d * d:
        return
    gram = np.array([[np.trace(a.conj().T @ b) for b in flat] for a in flat])
    ok(ctx, "gen_pauli", close(gram, d * np.eye(d * d), 1e-9), "trace-orthogonal-basis", (d,))
    ok(ctx, "gen_pauli", all(close(x.conj().T @ x, np.eye(d), 1e-9) for x in flat), "unitary", (d,))
    x1, z1 = flat[d], flat[1]
    a, b = int(rng.integers(0, d)), int(rng.integers(0, d))
    ok(ctx, "gen_pauli", close(flat[a * d + b], np.linalg.matrix_power(x1, a) @ np.linalg.matrix_power(z1, b), 1e-9), "X^a Z^b", (d,))
    ctx.sample("id:gen_pauli", {"d": d, "count": len(flat)})


def _g_clock_shift(ctx, r, rng):
    from toqito.matrices import fourier, gen_pauli_x, gen_pauli_z

    d = 2 + r % 5
    x, z, f = _call(ctx, gen_pauli_x, d), _call(ctx, gen_pauli_z, d), _call(ctx, fourier, d)
    if x is None or z is None or f is None:
        return
    x, z, f = arr(x), arr(z), arr(f)
    w = np.exp(2j * np.pi / d)
    # documented matrices: X|j> = |j+1 mod d> (Sigma_{1,d} of the docstring), Z = diag(1, w, ..., w^{d-1})
    ok(ctx, "clock_shift", all(close(x @ np.eye(d)[j], np.eye(d)[(j + 1) % d]) for j in range(d)), "shift-is-documented-matrix", (d,))
    ok(ctx, "clock_shift", close(z, np.diag([w ** k for k in range(d)]), 1e-9), "clock-is-documented-matrix", (d,))
    ok(ctx, "clock_shift", close(z @ x, w * x @ z, 1e-9), "weyl-relation", (d,))
    ok(ctx, "clock_shift", close(f.conj().T @ f, np.eye(d), 1e-9), "fourier-unitary", (d,))
    ok(ctx, "clock_shift", close(f, np.array([[w ** (j * k) for k in range(d)] for j in range(d)]) / np.sqrt(d), 1e-9), "fourier-entries", (d,))
    ok(ctx, "clock_shift", close(f @ x @ f.conj().T, z, 1e-9) or close(f.conj().T @ x @ f, z, 1e-9), "fourier-intertwines", (d,))
    ok(ctx, "clock_shift", close(np.linalg.matrix_power(x, d), np.eye(d)) and close(np.linalg.matrix_power(z, d), np.eye(d), 1e-9) and close(np.diag(np.diag(z)), z), "order-d", (d,))
    ok(ctx, "clock_shift", set(np.unique(x)) <= {0, 1} and close(x.sum(axis=0), np.ones(d)) and close(x.sum(axis=1), np.ones(d)) and not close(x, np.eye(d)), "shift-is-cyclic-permutation", (d,))


def _g_gell_mann(ctx, r, rng):
    from toqito.matrices import gell_mann

    fam = [_call(ctx, gell_mann, i, bool(r % 2)) for i in range(9)]
    if any(x is None for x in fam):
        return
    fam = [arr(x) for x in fam]
    gram = np.array([[np.trace(a.conj().T @ b) for b in fam] for a in fam])
    want = 2 * np.eye(9)
    want[0, 0] = 3
    ok(ctx, "gell_mann", close(gram, want, 1e-9), "trace-orthogonal", (r % 2,))
    ok(ctx, "gell_mann", all(close(x, x.conj().T) for x in fam) and all(abs(np.trace(x)) < 1e-12 for x in fam[1:]) and close(fam[0], np.eye(3)), "hermitian-traceless", (r % 2,))
    res = ctx.call(gell_mann, 9, expect=(ValueError,))
    if res is not FAILED:
        ok(ctx, "gell_mann", isinstance(res, ValueError), "rejects-index-9")


def _g_gen_gell_mann(ctx, r, rng):
    from toqito.matrices import gell_mann, gen_gell_mann

    d = 2 + r % 4
    fam = [arr(_call(ctx, gen_gell_mann, a, b, d)) for a in range(d) for b in range(d)]
    gram = np.array([[np.trace(a.conj().T @ b) for b in fam] for a in fam])
    want = 2 * np.eye(d * d)
    want[0, 0] = d
    ok(ctx, "gen_gell_mann", close(gram, want, 1e-9), "trace-orthogonal-basis", (d,))
    ok(ctx, "gen_gell_mann", all(close(x, x.conj().T) for x in fam) and all(abs(np.trace(x)) < 1e-12 for x in fam[1:]), "hermitian-traceless", (d,))
    if d == 3:
        gm = [arr(gell_mann(i)) for i in range(9)]
        ok(ctx, "gen_gell_mann", all(any(close(x, g) for g in gm) for x in fam), "d=3-recovers-gell-mann")
    ctx.sample("id:gen_gell_mann", {"d": d, "count": len(fam)})


def _g_hadamard_cnot_cyclic(ctx, r, rng):
    from toqito.matrices import cnot, cyclic_permutation_matrix, hadamard

    n = r % 7  # 0..6 qubits (the property names 1..5)
    h = _call(ctx, hadamard, n)
    if h is not None:
        h = arr(h)
        h1 = np.array([[1, 1], [1, -1]]) / np.sqrt(2)
        want = np.eye(1)
        for _ in range(n):
            want = np.kron(want, h1)
        ok(ctx, "hadamard_cnot_cyclic", close(h, want, 1e-12), "hadamard=H^(x)n", (n,))
        ok(ctx, "hadamard_cnot_cyclic", close(h @ h.T, np.eye(2 ** n), 1e-12), "hadamard-unitary", (n,))
    c = _call(ctx, cnot)
    if c is not None:
        c = arr(c)
        act = all(close(c @ np.eye(4)[2 * a + b], np.eye(4)[2 * a + (a ^ b)]) for a in range(2) for b in range(2))
        ok(ctx, "hadamard_cnot_cyclic", act and close(c @ c.T, np.eye(4)), "cnot-action")
    m = 1 + r % 6
    k = int(rng.integers(0, 2 * m + 1))
    p = _call(ctx, cyclic_permutation_matrix, m, k)
    if p is not None:
        p = arr(p)
        act = all(close(p @ np.eye(m)[j], np.eye(m)[(j + k) % m]) for j in range(m))
        ok(ctx, "hadamard_cnot_cyclic", act, "cyclic-shift-action", (m,), {"n": m, "k": k})
    p1 = _call(ctx, cyclic_permutation_matrix, m)
    if p1 is not None:
        ok(ctx, "hadamard_cnot_cyclic", close(np.linalg.matrix_power(arr(p1), m), np.eye(m)) and (m == 1 or not close(arr(p1), np.eye(m))), "cyclic-order-n", (m,))
