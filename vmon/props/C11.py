"""C11 - state exclusion values are certified optima and decide antidistinguishability."""
from __future__ import annotations

import itertools

import numpy as np

from .. import certs, gen, ref
from ..core import FAILED
from .C10 import arr, make_ensemble, rotate_input

DECIDING = ["O1:povm-valid", "O1:povm-attains-value", "O1:dual-certificate", "O2:primal=dual", "O2:range", "O2:unitary-invariant", "O2:two-state-closed-form",
            "O3:antidistinguishable=>0", "O3:positive=>not-antidistinguishable", "O3:common-quantum-overlap", "O4:unambiguous-primal=dual"]
RULE = ("ensembles as in C10 (2..5 states, d = 2..4, 1-D / column / density-matrix inputs, real and complex, three prior kinds) for the minimum-error strategy in "
        "primal and dual form; known antidistinguishable sets (trine, BB84 quadruple, PBR states at and beyond the threshold angle, rotated by a common unitary) "
        "and sets whose certified exclusion value is >= 1e-3; signature (monitor, n, d, form, field, prior kind, primal/dual)")
ASSUMPTIONS = [
    "solver: cvxopt through picos (the only SDP-capable picos solver installed)",
    "certificate: attained value of the returned POVM and the dual-feasible Y = sum p_i rho_i M_i repaired to Y <= p_i rho_i, NumPy only; gap tolerance 1e-4",
    "'zero' means <= 1e-6 for constructed antidistinguishable sets, 'positive' means a certified lower bound >= 1e-3",
    "unambiguous variant: only primal/dual agreement on instances where the solver returns a solution",
]
TOLV = 1e-5
TOLG = 1e-4
TOLP = 1e-6
CASE_TIMEOUT = {"quick": 90, "thorough": 180}


def cases(tier):
    out = [("ens", r) for r in range(64 if tier == "quick" else 1600)]
    out += [("anti", r) for r in range(24 if tier == "quick" else 400)]
    out += [("unamb", r) for r in range(64 if tier == "quick" else 1500)]
    return out


def run(ctx, spec, rng):
    globals()["_run_" + spec[0]](ctx, spec, rng)


def _solve(ctx, fn, *a, **k):
    ctx.evals["solver-call"] += 1
    mech = k.pop("mech", None)
    v = ctx.call(fn, *a, solver=True, mech=mech, **k)
    return None if v is FAILED else v


def _fresh(inp):
    return [x.copy() for x in inp]


def check_exclusion(ctx, e, pd):
    from toqito.state_opt import state_exclusion

    field = "complex" if e["cplx"] else "real"
    res = _solve(ctx, state_exclusion, _fresh(e["inp"]), list(e["p"]), strategy="min_error", primal_dual=pd,
                 mech=f"crash:state_exclusion-min_error-{pd}[{field}]")
    if res is None:
        return None
    val, meas = res
    val = float(np.real(val))
    ms = [arr(m) for m in meas]
    d, p, rhos = e["d"], e["p"], e["rhos"]
    sig = (e["n"], d, e["form"], field, e["pk"], pd)
    nt = e["cplx"] or e["form"].startswith("dm") or e["pk"] != 0
    if e["pk"] == 0:  # the prior omitted means the uniform prior over the n states (n and the dimension differ in most ensembles)
        res0 = _solve(ctx, state_exclusion, _fresh(e["inp"]), strategy="min_error", primal_dual=pd, mech=f"crash:state_exclusion-min_error-{pd}[{field}]")
        if res0 is not None:
            ctx.check("O2:range", abs(float(np.real(res0[0])) - val) <= TOLV, dev=abs(float(np.real(res0[0])) - val), tol=TOLV, sig=sig + ("prior-omitted", e["n"] == d), nt=e["n"] != d,
                      mech="state_exclusion:prior-omitted-differs-from-uniform-prior", detail={"n": e["n"], "d": d, "omitted": res0[0], "uniform": val})
    neg, comp, hdev = certs.povm_defect(ms, d)
    ctx.check("O1:povm-valid", max(neg, comp, hdev) <= TOLP, dev=max(neg, comp, hdev), tol=TOLP, sig=sig, nt=nt, mech=f"state_exclusion:invalid-povm[{pd}]",
              detail={"neg": neg, "completeness": comp, "herm": hdev})
    att, lower = certs.exclusion_certificate(rhos, p, ms)
    if abs(att - val) > TOLV:
        att_c, lower_c = certs.exclusion_certificate(rhos, p, [m.conj() for m in ms])
        mech = f"state_exclusion:povm-does-not-attain-value[{pd}]"
        if abs(att_c - val) <= TOLV and pd == "dual":
            mech = "dual-form-measurement-is-conjugate-of-optimal-povm"
        ctx.check("O1:povm-attains-value", False, dev=abs(att - val), tol=TOLV, sig=sig, nt=nt, mech=mech,
                  detail={"reported": val, "attained": att, "attained_by_conjugate": att_c, "n": e["n"], "d": d, "field": field})
        att, lower = att_c, lower_c
    else:
        ctx.check("O1:povm-attains-value", True, dev=abs(att - val), tol=TOLV, sig=sig, nt=nt)
    ok = (att - lower) <= TOLG and val >= lower - TOLV and val <= att + TOLV
    ctx.check("O1:dual-certificate", ok, dev=max(0.0, att - lower), tol=TOLG, sig=sig, nt=nt, mech=f"state_exclusion:not-optimal[{pd}]",
              detail={"reported": val, "attained": att, "lower_bound": lower})
    ctx.sample("O1:dual-certificate", {"n": e["n"], "d": d, "form": e["form"], "field": field, "primal_dual": pd, "reported": val, "attained": att, "certified_lower": lower})
    return val


def _run_ens(ctx, spec, rng):
    from toqito.state_opt import state_exclusion

    r = spec[1]
    e = make_ensemble(rng, r)
    n, d, p, rhos = e["n"], e["d"], e["p"], e["rhos"]
    field = "complex" if e["cplx"] else "real"
    sig = (n, d, e["form"], field, e["pk"])
    nt = e["cplx"] or e["form"].startswith("dm") or e["pk"] != 0
    vd = check_exclusion(ctx, e, "dual")
    vp = check_exclusion(ctx, e, "primal")
    if vd is not None and vp is not None:
        ctx.check("O2:primal=dual", None, dev=abs(vd - vp), tol=TOLV, sig=sig, nt=nt, mech="state_exclusion:primal!=dual", detail={"primal": vp, "dual": vd})
    v = vd if vd is not None else vp
    if v is None:
        return
    ctx.check("O2:range", -TOLV <= v <= min(p) + TOLV, sig=sig, nt=nt, mech="state_exclusion:out-of-range", detail={"value": v, "min_prior": min(p)})
    if n == 2:
        want = 0.5 * (1 - ref.trace_norm(p[0] * rhos[0] - p[1] * rhos[1]))
        ctx.check("O2:two-state-closed-form", None, dev=abs(v - want), tol=TOLV, sig=sig, nt=nt, mech="state_exclusion:two-state-mismatch", detail={"value": v, "want": want})
    u = gen.haar(rng, d, real=not e["cplx"])
    rot = [rotate_input(u, x, e["form"]) for x in e["inp"]]
    res = _solve(ctx, state_exclusion, rot, list(p))
    if res is not None:
        ctx.check("O2:unitary-invariant", None, dev=abs(float(np.real(res[0])) - v), tol=TOLV, sig=sig, nt=nt, mech="state_exclusion:not-unitary-invariant", detail={"value": v, "rotated": res[0]})
    # unambiguous variant: agreement only where the solver returns
    if r % 2 == 0 and not e["form"].startswith(("row", "mixed")):
        up = _solve(ctx, state_exclusion, _fresh(e["inp"]), list(p), strategy="unambiguous", primal_dual="primal", mech=f"crash:state_exclusion-unambiguous-primal[{field}]")
        ud = _solve(ctx, state_exclusion, _fresh(e["inp"]), list(p), strategy="unambiguous", primal_dual="dual", mech=f"crash:state_exclusion-unambiguous-dual[{field}]")
        if up is not None and ud is not None and up[0] is not None and ud[0] is not None:
            a, b = float(np.real(up[0])), float(np.real(ud[0]))
            if np.isfinite(a) and np.isfinite(b):
                ctx.check("O4:unambiguous-primal=dual", None, dev=abs(a - b), tol=1e-4, sig=sig, nt=nt, mech=f"state_exclusion-unambiguous:primal!=dual[{field}]", detail={"primal": a, "dual": b})


def _anti_sets(rng, r):
    """(states, name, expected) with expected True (antidistinguishable) or False."""
    k = r % 6
    e0, e1 = np.array([1.0, 0]), np.array([0, 1.0])
    if k == 0:
        sts = [e0, -0.5 * (e0 + np.sqrt(3) * e1), -0.5 * (e0 - np.sqrt(3) * e1)]
        return sts, "trine", True
    if k == 1:
        return [e0, e1, (e0 + e1) / np.sqrt(2), (e0 - e1) / np.sqrt(2)], "bb84", True
    if k in (2, 3):
        thr = 2 * np.arctan(2 ** 0.5 - 1)
        theta = thr if k == 2 else thr * (1.2 + 0.5 * rng.random())
        a = np.cos(theta / 2) * e0 + np.sin(theta / 2) * e1
        b = np.cos(theta / 2) * e0 - np.sin(theta / 2) * e1
        return [np.kron(x, y) for x in (a, b) for y in (a, b)], "pbr-at-threshold" if k == 2 else "pbr-beyond-threshold", True
    if k == 4:
        d = int(rng.integers(2, 4))
        a = gen.unit(rng, d)
        b = gen.unit(rng, d)
        b = (a + b) / np.linalg.norm(a + b)
        return [a, b], "two-nonorthogonal", False
    thr = 2 * np.arctan(2 ** 0.5 - 1)
    theta = thr * 0.5
    a = np.cos(theta / 2) * e0 + np.sin(theta / 2) * e1
    b = np.cos(theta / 2) * e0 - np.sin(theta / 2) * e1
    return [np.kron(x, y) for x in (a, b) for y in (a, b)], "pbr-below-threshold", False


def _pbr_constructor(ctx, r, rng):
    """The library's constructor of the PBR states (the anchor sets above are built by the harness itself): 2^n product states psi_{b1} x .. x psi_{bn}
    in lexicographic order of the bit strings, psi_0/1 = cos(theta/2)|0> +/- sin(theta/2)|1>; and antidistinguishable exactly from the known angle on."""
    from toqito.state_props import is_antidistinguishable
    from toqito.states import pusey_barrett_rudolph

    n = 1 + r % 3
    theta = float(rng.uniform(0.1, 1.5)) if r % 2 else [np.pi / 4, np.pi / 2, 2 * np.arctan(2 ** 0.5 - 1)][r % 3]
    states = ctx.call(pusey_barrett_rudolph, n, theta)
    if states is FAILED:
        return
    c, s_ = np.cos(theta / 2), np.sin(theta / 2)
    psi = [np.array([c, s_]), np.array([c, -s_])]
    want = [ref.kron_all([psi[b_].reshape(-1, 1) for b_ in bits]).reshape(-1) for bits in itertools.product([0, 1], repeat=n)]
    ok = len(states) == len(want) and all(np.asarray(g_).reshape(-1).shape == w_.shape and np.allclose(np.asarray(g_).reshape(-1), w_, atol=1e-12) for g_, w_ in zip(states, want))
    ctx.check("O3:antidistinguishable=>0", bool(ok), sig=("pbr-constructor", n, r % 2), nt=n > 1, mech="pusey_barrett_rudolph:states-differ-from-definition", detail={"n": n, "theta": theta})
    if n == 2 and ok is not None:
        thr = 2 * np.arctan(2 ** 0.5 - 1)
        if abs(theta - thr) > 0.05:
            ctx.evals["solver-call"] += 1
            ans = ctx.call(is_antidistinguishable, [np.asarray(g_).copy() for g_ in states], solver=True)
            if ans is not FAILED:
                ctx.check("O3:antidistinguishable=>0" if theta > thr else "O3:positive=>not-antidistinguishable", bool(ans) == (theta > thr), sig=("pbr-constructor-verdict", theta > thr), nt=True,
                          mech="is_antidistinguishable:wrong-verdict[library-pbr-states]", detail={"theta": theta, "threshold": thr, "answer": bool(ans)})


def _run_anti(ctx, spec, rng):
    from toqito.state_opt import state_exclusion
    from toqito.state_props import common_quantum_overlap, is_antidistinguishable

    _pbr_constructor(ctx, spec[1], rng)
    r = spec[1]
    sts, name, expected = _anti_sets(rng, r)
    d = len(sts[0])
    cplx = bool((r // 6) % 2)
    u = gen.haar(rng, d, real=not cplx) if r >= 6 else np.eye(d)
    sts = [u @ s for s in sts]
    n = len(sts)
    rhos = [np.outer(s, s.conj()) for s in sts]
    field = "complex" if cplx and r >= 6 else "real"
    form = ["vec1d", "col", "dm"][(r // 6 + r) % 3]
    inp = [s.reshape(-1, 1).copy() for s in sts] if form == "col" else ([s.copy() for s in sts] if form == "vec1d" else [x.copy() for x in rhos])
    e = dict(d=d, n=n, cplx=field == "complex", form=form, rhos=rhos, inp=inp, vecs=sts, p=np.full(n, 1.0 / n), pk=0)
    v = check_exclusion(ctx, e, "dual")
    sig = (name, field, form)
    if v is not None:
        if expected:
            ctx.check("O3:antidistinguishable=>0", abs(v) <= TOLP * 10, dev=abs(v), tol=TOLP * 10, sig=sig, nt=True, mech="state_exclusion:nonzero-on-antidistinguishable-set", detail={"set": name, "value": v})
        else:
            ctx.check("O3:positive-on-non-antidistinguishable", v >= 1e-3, sig=sig, nt=True, mech="state_exclusion:zero-on-non-antidistinguishable-set", detail={"set": name, "value": v})
    ctx.evals["solver-call"] += 1
    ans = ctx.call(is_antidistinguishable, _fresh(inp), solver=True)
    if ans is not FAILED:
        mon = "O3:antidistinguishable=>0" if expected else "O3:positive=>not-antidistinguishable"
        ctx.check(mon, bool(ans) == expected, sig=sig + ("predicate",), nt=True, mech=f"is_antidistinguishable:wrong-verdict[{name}]", detail={"set": name, "answer": bool(ans), "expected": expected})
        ctx.sample(mon, {"set": name, "field": field, "exclusion_value": v, "is_antidistinguishable": bool(ans)})
    ctx.evals["solver-call"] += 1
    cqo = ctx.call(common_quantum_overlap, _fresh(inp), solver=True)
    if cqo is not FAILED and v is not None:
        ctx.check("O3:common-quantum-overlap", None, dev=abs(float(np.real(cqo)) - n * v), tol=1e-4, sig=sig, nt=True, mech="common_quantum_overlap:differs-from-n*exclusion-value",
                  detail={"cqo": cqo, "n*value": n * v})
        if n == 2:
            want = 1 - 0.5 * ref.trace_norm(rhos[0] - rhos[1])
            ctx.check("O3:common-quantum-overlap", None, dev=abs(float(np.real(cqo)) - want), tol=1e-4, sig=sig + ("pair",), nt=True, mech="common_quantum_overlap:pair-closed-form", detail={"cqo": cqo, "want": want})
    # two mixed states in dimension 3..5 (the difference has several eigenvalues of either sign): overlap = 1 - |rho_0 - rho_1|_1 / 2
    if r % 4 == 1:
        dd = int(rng.integers(3, 6))
        pair = [gen.density(rng, dd, int(rng.integers(2, dd + 1)), bool(r % 8 == 1)) for _ in range(2)]
        if r % 8 == 5:  # commuting block-structured pair
            w0, w1 = np.sort(rng.random(dd))[::-1], np.sort(rng.random(dd))
            pair = [np.diag(w0 / w0.sum()), np.diag(w1 / w1.sum())]
        ctx.evals["solver-call"] += 1
        cq2 = ctx.call(common_quantum_overlap, [x.copy() for x in pair], solver=True)
        if cq2 is not FAILED:
            want2 = 1 - 0.5 * ref.trace_norm(pair[0] - pair[1])
            ctx.check("O3:common-quantum-overlap", None, dev=abs(float(np.real(cq2)) - want2), tol=1e-4, sig=("mixed-pair", dd), nt=True, mech="common_quantum_overlap:pair-closed-form[mixed]",
                      detail={"d": dd, "cqo": cq2, "want": want2})
    # a generic random set: decide by the certified lower bound
    if r % 3 == 0:
        dd = int(rng.integers(2, 4))
        m = int(rng.integers(2, 4))
        vecs = [gen.unit(rng, dd, bool(r % 2)) for _ in range(m)]
        rh = [np.outer(x, x.conj()) for x in vecs]
        if (r // 3) % 2:  # density-matrix inputs: the same pure states as matrices, or slightly mixed ones
            lam = 0.0 if (r // 6) % 2 else 0.1
            rh = [(1 - lam) * x + lam * np.eye(dd) / dd for x in rh]
            vecs = [x.copy() for x in rh]
        res = _solve(ctx, state_exclusion, [x.copy() for x in vecs], [1.0 / m] * m)
        if res is not None:
            ms = [arr(x) for x in res[1]]
            lo = max(certs.exclusion_certificate(rh, [1.0 / m] * m, ms)[1], certs.exclusion_certificate(rh, [1.0 / m] * m, [x.conj() for x in ms])[1])
            if lo >= 1e-3:
                ctx.evals["solver-call"] += 1
                ans = ctx.call(is_antidistinguishable, [x.copy() for x in vecs], solver=True)
                if ans is not FAILED:
                    ctx.check("O3:positive=>not-antidistinguishable", bool(ans) is False, sig=("random", dd, m, np.ndim(vecs[0])), nt=True, mech="is_antidistinguishable:accepts-set-with-positive-exclusion-value",
                              detail={"certified_lower": lo})


def _run_unamb(ctx, spec, rng):
    """Unambiguous exclusion: primal/dual agreement on small pure ensembles with NON-uniform priors (only where both solves return;
    cvxopt fails on most of these instances on the unchanged tree too, so many cheap instances are drawn)."""
    from toqito.state_opt import state_exclusion

    r = spec[1]
    d = 2 + r % 2
    n = int(rng.integers(2, d + 2))
    cplx = bool((r // 2) % 2)
    field = "complex" if cplx else "real"
    vecs = [gen.unit(rng, d, cplx) for _ in range(n)]
    p = gen.prior(rng, n, [1, 2, 3][r % 3])
    inp = [v.reshape(-1, 1).copy() for v in vecs] if r % 3 else [v.copy() for v in vecs]
    # solver configuration: cvxopt's default accuracy makes its KKT solver break down (ZeroDivisionError) on most of these programs;
    # with the documented pass-through option abs_ipm_opt_tol = 1e-5 both forms return non-trivial values
    kw = {"abs_ipm_opt_tol": 1e-5} if r % 4 else {}
    tol = 2e-3 if kw else 1e-4
    up = _solve(ctx, state_exclusion, _fresh(inp), list(p), strategy="unambiguous", primal_dual="primal", mech=f"crash:state_exclusion-unambiguous-primal[{field}]", **kw)
    ud = _solve(ctx, state_exclusion, _fresh(inp), list(p), strategy="unambiguous", primal_dual="dual", mech=f"crash:state_exclusion-unambiguous-dual[{field}]", **kw)
    if up is None or ud is None or up[0] is None or ud[0] is None:
        return
    a, b = float(np.real(up[0])), float(np.real(ud[0]))
    if np.isfinite(a) and np.isfinite(b):
        ctx.check("O4:unambiguous-primal=dual", None, dev=abs(a - b), tol=tol, sig=(n, d, field, "non-uniform-prior", bool(kw), 0.01 < a < 0.99), nt=True, mech=f"state_exclusion-unambiguous:primal!=dual[{field}]",
                  detail={"primal": a, "dual": b, "prior": p, "n": n, "d": d})
        ctx.sample("O4:unambiguous-primal=dual", {"n": n, "d": d, "field": field, "prior": p, "primal": a, "dual": b})
