"""C09 - extended nonlocal games, quantum hedging, optimal cloning: closed forms, ordering, strong duality."""
from __future__ import annotations

import itertools

import numpy as np

from .. import gen, ref, snap
from ..core import FAILED

DECIDING = ["O1:unentangled=bruteforce", "O2:unent<=NPA", "O2:qlb<=NPA", "O2:NPA<=NS", "O2:cglmp-anchor", "O3:hedging-duality", "O3:hedging-max>=min",
            "O3:hedging-closed-form", "O3:hedging-feasible-point", "O3:hedging-repetition", "O4:clone-duality", "O4:clone-closed-form",
            "O4:clone-repetition", "O4:clone-invariance", "O4:clone>=explicit-strategy"]
RULE = ("extended games: referee dimension 2..3, answer/question counts 1..3 drawn independently, PSD predicate operators (real and complex) not symmetric "
        "under exchange of the players, plus the BB84 extended game as anchor; hedging: random real-symmetric / complex-Hermitian PSD Q with lambda_max 1 "
        "and the Molina-Watrous example, n = 1, 2; cloning: ensembles of 1..4 qubit states, real and complex amplitudes, any prior, n = 1, 2; signature "
        "(monitor, d, A, B, X, Y, field) etc.; non-trivial when A != B or X != Y or the field is complex or d != B")
ASSUMPTIONS = [
    "unentangled value compared with a brute force over all pairs of deterministic answer functions of lambda_max (eigvalsh), tolerance 2e-4 (library solves an SDP)",
    "orderings one-sided with tolerance 2e-4 (cvxpy default solver); see-saw values are lower bounds only",
    "hedging: rigorous one-sided bounds from explicit feasible points X = (U x 1)|Omega><Omega|(U x 1)^dagger and sigma x 1 evaluated with NumPy",
    "optimal_clone acts on qubit states given as column vectors (its SDP hard-codes local dimension 2)",
]
TOL = 2e-4
SOLVER_TIME_LIMIT = 300
CASE_TIMEOUT = {"quick": 900, "thorough": 2400}


def cases(tier):
    out = [("unent", r) for r in range(80 if tier == "quick" else 4000)]
    out += [("ext", r) for r in range(14 if tier == "quick" else 150)]
    out += [("cglmp", r) for r in range(3 if tier == "quick" else 6)]
    out += [("hedge", r) for r in range(16 if tier == "quick" else 300)]
    out += [("clone", r) for r in range(16 if tier == "quick" else 200)]
    return out


_BOX = {"seed": 0, "n": 0}


def setup(ctx):
    import toqito.nonlocal_games.extended_nonlocal_game as mod

    orig = mod.random_unitary
    if getattr(orig, "__vmon_shim__", False):
        return

    def seeded_random_unitary(dim, is_real=False, seed=None):
        _BOX["n"] += 1
        return orig(dim, is_real, seed=_BOX["seed"] * 1000 + _BOX["n"] if seed is None else seed)

    seeded_random_unitary.__vmon_shim__ = True
    mod.random_unitary = seeded_random_unitary


def run(ctx, spec, rng):
    globals()["_run_" + spec[0]](ctx, spec, rng)


def _solve(ctx, fn, *a, **k):
    ctx.evals["solver-call"] += 1
    v = ctx.call(fn, *a, solver=True, **k)
    if v is FAILED:
        return None
    if v is None or not np.isfinite(v):
        # an infeasible / unbounded program (value None or +-inf) on a valid instance is a wrong answer, not a solver failure
        ctx.fail("solver-call", "non-finite-value:" + getattr(fn, "__name__", "?"), {"value": repr(v), "args": a})
        return None
    return float(np.real(v))


def ext_game(rng, d, a, b, x, y, cplx):
    prob = rng.random((x, y)) + 0.05
    prob /= prob.sum()
    pred = np.zeros((d, d, a, b, x, y), dtype=complex if cplx else float)
    for ia, ib, ix, iy in itertools.product(range(a), range(b), range(x), range(y)):
        if rng.random() < 0.7:
            p = gen.psd(rng, d, int(rng.integers(1, d + 1)), cplx)
            pred[:, :, ia, ib, ix, iy] = p / np.linalg.eigvalsh(p).max()
    return prob, pred


def bb84_game():
    e0, e1 = np.array([1.0, 0]), np.array([0, 1.0])
    ep, em = (e0 + e1) / np.sqrt(2), (e0 - e1) / np.sqrt(2)
    pred = np.zeros((2, 2, 2, 2, 2, 2))
    pred[:, :, 0, 0, 0, 0] = np.outer(e0, e0)
    pred[:, :, 1, 1, 0, 0] = np.outer(e1, e1)
    pred[:, :, 0, 0, 1, 1] = np.outer(ep, ep)
    pred[:, :, 1, 1, 1, 1] = np.outer(em, em)
    return np.array([[0.5, 0], [0, 0.5]]), pred


def disguise(rng, prob, pred, pad_a, pad_b):
    """The same extended game with relabelled answers: every answer alphabet is permuted per question and padded with answers whose
    predicate operator is zero.  All values are invariant; useful answers end up at arbitrary (also the highest) indices."""
    d, _, a, b, x, y = pred.shape
    out = np.zeros((d, d, a + pad_a, b + pad_b, x, y), dtype=pred.dtype)
    pas = [rng.permutation(a + pad_a) for _ in range(x)]
    pbs = [rng.permutation(b + pad_b) for _ in range(y)]
    for ix in range(x):
        for iy in range(y):
            for ia in range(a):
                for ib in range(b):
                    out[:, :, pas[ix][ia], pbs[iy][ib], ix, iy] = pred[:, :, ia, ib, ix, iy]
    return prob.copy(), out


def _constant_only(prob, pred):
    _, _, a, b, x, y = pred.shape
    return max(ref.eigmax(sum(prob[i, j] * pred[:, :, ia, ib, i, j] for i in range(x) for j in range(y))) for ia in range(a) for ib in range(b))


def _check_unent(ctx, game, prob, pred, sig, nt):
    val = _solve(ctx, game.unentangled_value)
    if val is None:
        return None
    want = ref.unentangled_value(prob, pred)
    mech = "unentangled_value:mismatch"
    if val < want - TOL and abs(val - _constant_only(prob, pred)) <= TOL:
        mech = "unentangled_value:constant-answers-only"
    ctx.check("O1:unentangled=bruteforce", None, dev=abs(val - want), tol=TOL, sig=sig, nt=nt, mech=mech,
              detail={"shape": list(pred.shape), "library": val, "bruteforce": want, "constant_answers_only": _constant_only(prob, pred)})
    ctx.sample("O1:unentangled=bruteforce", {"shape": list(pred.shape), "library": val, "bruteforce": want})
    return want


def _run_unent(ctx, spec, rng):
    from toqito.nonlocal_games.extended_nonlocal_game import ExtendedNonlocalGame

    d = int(rng.integers(2, 4))
    a, b, x, y = (int(v) for v in rng.integers(1, 3 if spec[1] % 4 else 4, size=4))
    cplx = bool(rng.integers(0, 2))
    prob, pred = ext_game(rng, d, a, b, x, y, cplx)
    game = ctx.call(ExtendedNonlocalGame, prob.copy(), pred.copy())
    if game is FAILED:
        return
    before = snap.digest((game.prob_mat, game.pred_mat))
    _check_unent(ctx, game, prob, pred, (d, a, b, x, y, cplx), a != b or x != y or cplx)
    ctx.check("O5:game-unchanged", snap.digest((game.prob_mat, game.pred_mat)) == before, sig=("unent",), mech="extended-game:mutated", detail={"shape": list(pred.shape)})


def cglmp3():
    """CGLMP inequality for three outcomes as a game with predicate (c + 1) / 2 in {0, 1/2, 1} and uniform questions; its quantum (= commuting
    operator) value is (I_3 + 4) / 8 with I_3 = 1 + sqrt(11 / 3) (Acin et al. 2002; Navascues-Pironio-Acin 2008), attained by an explicit strategy
    on a partially entangled two-qutrit state, which is evaluated here with NumPy."""
    dd = 3
    coef = np.zeros((dd, dd, 2, 2))
    for a, b in itertools.product(range(dd), repeat=2):
        coef[a, b, 0, 0] += (a == b) - (a == (b - 1) % dd)
        coef[a, b, 1, 1] += (a == b) - (a == (b - 1) % dd)
        coef[a, b, 1, 0] += (b == (a + 1) % dd) - (b == a)
        coef[a, b, 0, 1] += (b == a) - (b == (a - 1) % dd)
    weights = (coef + 1) / 2
    prob = np.ones((2, 2)) / 4
    gamma = (np.sqrt(11) - np.sqrt(3)) / 2
    psi = np.zeros(dd * dd, dtype=complex)
    psi[0], psi[4], psi[8] = 1, gamma, 1
    psi /= np.linalg.norm(psi)
    om = np.exp(2j * np.pi / dd)

    def bvec(k, shift, sign):
        return np.array([om ** (j * (sign * k + shift)) for j in range(dd)]) / np.sqrt(dd)

    best = 0.0
    for al, be, sa, sb in itertools.product(((0, 0.5), (0.5, 0)), ((0.25, -0.25), (-0.25, 0.25)), (1, -1), (1, -1)):
        val = sum(prob[x, y] * weights[a, b, x, y] * abs(np.vdot(np.kron(bvec(a, al[x], sa), bvec(b, be[y], sb)), psi)) ** 2
                  for x, y, a, b in itertools.product(range(2), range(2), range(dd), range(dd)))
        best = max(best, float(val))
    return prob, weights, best, (5 + np.sqrt(11 / 3)) / 8


def _run_cglmp(ctx, spec, rng):
    """A known value on a non-standard instance: levels 1 and 1+ab are not tight for CGLMP-3, the level with all words of two of Alice's and one of
    Bob's operators is.  A bound that is slightly looser than the level asked for (a dropped word class, a mis-read level string) still satisfies every
    ordering; only the exact value shows it.  The same level in its three spellings (the library's tests write 'baa') and on the relabelled game."""
    from toqito.nonlocal_games.extended_nonlocal_game import ExtendedNonlocalGame

    r = spec[1]
    prob, weights, achieved, closed = cglmp3()
    level = ["1+ab+baa", "1+ab+aab", "1+ab+aba"][r % 3]
    if r >= 3:  # the two players exchanged: all words of one of Alice's and two of Bob's operators
        weights = weights.transpose(1, 0, 3, 2)
        prob = prob.T
        level = ["1+ab+abb", "1+ab+bba", "1+ab+bab"][r % 3]
    pred = np.zeros((1, 1, 3, 3, 2, 2))
    pred[0, 0] = weights
    game = ctx.call(ExtendedNonlocalGame, prob.copy(), pred.copy())
    if game is FAILED:
        return
    ctx.check("O2:cglmp-anchor", abs(achieved - closed) <= 1e-6, sig=("self-check",), nt=False, mech="harness:cglmp-strategy", detail={"achieved": achieved, "closed": closed})
    v = _solve(ctx, game.commuting_measurement_value_upper_bound, level)
    if v is None:
        return
    det = {"level": level, "bound": v, "explicit_strategy": achieved, "closed_form": closed, "players_exchanged": r >= 3}
    ctx.check("O2:qlb<=NPA", achieved <= v + TOL, dev=max(0.0, achieved - v), tol=TOL, sig=("cglmp3", level), nt=True, mech="ext-npa:below-quantum-lower-bound", detail=det)
    ctx.check("O2:cglmp-anchor", None, dev=abs(v - closed), tol=5e-4, sig=("cglmp3", level), nt=True, mech="ext-npa:intermediate-level-looser-than-its-known-value", detail=det)
    ctx.sample("O2:cglmp-anchor", det)


def _run_ext(ctx, spec, rng):
    from toqito.nonlocal_games.extended_nonlocal_game import ExtendedNonlocalGame

    r = spec[1]
    if r == 0:
        prob, pred = bb84_game()
        name, cplx = "bb84", False
        d, a, b, x, y = 2, 2, 2, 2, 2
    else:
        d = 2 if r % 5 else 3
        shapes = [(2, 2, 2, 2), (2, 2, 2, 1), (2, 3, 2, 2), (3, 2, 1, 2), (2, 2, 1, 2), (2, 2, 2, 2), (2, 3, 2, 1)]
        a, b, x, y = shapes[r % len(shapes)] if d == 2 else (2, 2, 2, 1)
        cplx = bool(r % 2)
        prob, pred = ext_game(rng, d, a, b, x, y, cplx)
        name = "random"
    base_vals = None
    if r % 2 == 1 or (r == 0 and ctx.seed % 2 == 1):
        # the same game in disguise (answers relabelled per question, padded with zero-predicate answers): values must not change
        g0 = ExtendedNonlocalGame(prob.copy(), pred.copy())
        base_vals = (_solve(ctx, g0.nonsignaling_value), _solve(ctx, g0.commuting_measurement_value_upper_bound, 1))
        pad_a, pad_b = [(1, 0), (0, 1), (1, 1), (2, 0)][(r // 2) % 4]
        if (a + pad_a) * x + (b + pad_b) * y <= 10:
            prob, pred = disguise(rng, prob, pred, pad_a, pad_b)
            a, b = a + pad_a, b + pad_b
            name = name + f"+disguised-pad{pad_a}{pad_b}"
        else:
            base_vals = None
    game = ctx.call(ExtendedNonlocalGame, prob.copy(), pred.copy())
    if game is FAILED:
        return
    before = snap.digest((game.prob_mat, game.pred_mat))
    sig = (name, d, a, b, x, y, cplx)
    nt = a != b or x != y or cplx or d != b
    unent_ref = ref.unentangled_value(prob, pred)
    _check_unent(ctx, game, prob, pred, sig, nt)
    _BOX["seed"], _BOX["n"] = r, 0
    cls = "d!=B" if d != b else "d==B"
    ctx.evals["solver-call"] += 1
    qlb = ctx.call(game.quantum_value_lower_bound, iters=1 if ctx.tier == "quick" else 2, solver=True, mech=f"crash:ext-qlb[{cls}]")
    qlb = None if qlb is FAILED or qlb is None or not np.isfinite(qlb) else float(np.real(qlb))
    ns = _solve(ctx, game.nonsignaling_value)
    npa = {}
    levels = [1] if (a * x + b * y) > 8 or ctx.tier == "quick" and d == 3 else [1, "1+ab"]
    for k in levels:
        ctx.evals["solver-call"] += 1
        cls2 = "A!=B" if a != b else "A==B"
        v = ctx.call(game.commuting_measurement_value_upper_bound, k, solver=True, mech=f"crash:ext-npa[{cls2}]")
        npa[k] = None if v is FAILED or v is None or not np.isfinite(v) else float(np.real(v))
    det = {"game": name, "shape": [d, a, b, x, y], "complex": cplx, "unentangled_bruteforce": unent_ref, "qlb": qlb, "npa": {str(k): v for k, v in npa.items()}, "ns": ns}
    ctx.sample("O2:unent<=NPA", det)
    for k, v in npa.items():
        if v is None:
            continue
        ctx.check("O2:unent<=NPA", unent_ref <= v + TOL, dev=max(0.0, unent_ref - v), tol=TOL, sig=sig + (str(k),), nt=nt, mech="ext-npa:below-unentangled-value", detail=det)
        if qlb is not None:
            ctx.check("O2:qlb<=NPA", qlb <= v + TOL, dev=max(0.0, qlb - v), tol=TOL, sig=sig + (str(k),), nt=nt, mech="ext-npa:below-quantum-lower-bound", detail=det)
        if ns is not None:
            ctx.check("O2:NPA<=NS", v <= ns + TOL, dev=max(0.0, v - ns), tol=TOL, sig=sig + (str(k),), nt=nt, mech="ext-npa:above-nonsignaling", detail=det)
    if base_vals is not None:
        if base_vals[0] is not None and ns is not None:
            ctx.check("O2:values-invariant-under-relabelling", abs(ns - base_vals[0]) <= TOL, dev=abs(ns - base_vals[0]), tol=TOL, sig=sig + ("ns",), nt=True,
                      mech="ext-ns:changes-under-answer-relabelling-or-padding", detail=dict(det, original_game_value=base_vals[0]))
        if base_vals[1] is not None and npa.get(1) is not None:
            ctx.check("O2:values-invariant-under-relabelling", abs(npa[1] - base_vals[1]) <= TOL, dev=abs(npa[1] - base_vals[1]), tol=TOL, sig=sig + ("npa1",), nt=True,
                      mech="ext-npa:changes-under-answer-relabelling-or-padding", detail=dict(det, original_game_value=base_vals[1]))
    if npa.get(1) is not None and npa.get("1+ab") is not None:
        ctx.check("O2:NPA-monotone", npa["1+ab"] <= npa[1] + TOL, sig=sig, nt=nt, mech="ext-npa:not-monotone", detail=det)
    if ns is not None:
        ctx.check("O2:unent<=NS", unent_ref <= ns + TOL, sig=sig, nt=nt, mech="ext-ns:below-unentangled", detail=det)
        if qlb is not None:
            ctx.check("O2:qlb<=NS", qlb <= ns + TOL, sig=sig, nt=nt, mech="ext-ns:below-quantum-lower-bound", detail=det)
    if name.startswith("bb84"):
        c = np.cos(np.pi / 8) ** 2
        for nm, v in (("qlb", qlb), ("npa1", npa.get(1)), ("ns", ns)):
            if v is not None:
                ctx.check("O2:bb84-anchor", abs(v - c) <= TOL, dev=abs(v - c), tol=TOL, sig=("bb84", nm), mech=f"ext-game:bb84-anchor[{nm}]", detail=det)
    ctx.check("O5:game-unchanged", snap.digest((game.prob_mat, game.pred_mat)) == before, sig=("all",), mech="extended-game:mutated", detail={"game": name})


# ------------------------------------------------------------------------------------------- hedging
def molina_watrous():
    e0, e1 = np.array([1.0, 0]), np.array([0, 1.0])
    e00, e01, e10, e11 = np.kron(e0, e0), np.kron(e0, e1), np.kron(e1, e0), np.kron(e1, e1)
    al, th = 1 / np.sqrt(2), np.pi / 8
    w = al * np.cos(th) * e00 + np.sqrt(1 - al ** 2) * np.sin(th) * e11
    l1 = -al * np.sin(th) * e00 + np.sqrt(1 - al ** 2) * np.cos(th) * e11
    l2 = al * np.sin(th) * e10
    l3 = np.sqrt(1 - al ** 2) * np.cos(th) * e01
    q1 = np.outer(w, w)
    q0 = np.outer(l1, l1) + np.outer(l2, l2) + np.outer(l3, l3)
    return q0, q1


def _hedge_points(rng, q, n, tries=60):
    """Values Tr(Q X) at explicit feasible X (Tr_Y X = 1 on the X-spaces): rigorous lower bound for max, upper bound for min."""
    vals = []
    dimx = 2 ** n
    # systems alternate Y1 X1 Y2 X2 ...; build X on that ordering
    from .. import ref as _r

    for _ in range(tries):
        if rng.random() < 0.5:
            # sigma on the Y-spaces (x) identity on the X-spaces
            sig = gen.density(rng, dimx, int(rng.integers(1, dimx + 1)))
            big = np.kron(sig, np.eye(dimx))  # ordering Y1..Yn X1..Xn
        else:
            u = gen.haar(rng, dimx)
            omega = np.eye(dimx).reshape(-1)  # sum |i>_Y |i>_X, unnormalised
            v = np.kron(u, np.eye(dimx)) @ omega
            big = np.outer(v, v.conj())
        if n == 2:  # reorder (Y1 Y2 X1 X2) -> (Y1 X1 Y2 X2)
            big = _r.permute(big, [0, 2, 1, 3], [2] * 4, [2] * 4)
        vals.append(float(np.real(np.trace(q.conj().T @ big))))
    return vals


def _run_hedge(ctx, spec, rng):
    from toqito.nonlocal_games.quantum_hedging import QuantumHedging

    r = spec[1]
    q0, q1 = molina_watrous()
    c2 = np.cos(np.pi / 8) ** 2
    if r < 4:
        which, n = [("q1", 1), ("q0", 1), ("q1", 2), ("q0", 2)][r]
        base = q1 if which == "q1" else q0
        q = base if n == 1 else np.kron(base, base)
        name, field = "molina-watrous-" + which, "real"
    else:
        n = 1 if r % 3 else 2
        field = "complex" if r % 2 else "real"
        base = gen.psd(rng, 4, int(rng.integers(1, 5)), field == "complex")
        base = base / np.linalg.eigvalsh(base).max()
        q = base if n == 1 else np.kron(base, base)
        name = "random"
    h = ctx.call(QuantumHedging, q.copy(), n)
    if h is FAILED:
        return
    vals = {}
    for m in ("max_prob_outcome_a_primal", "max_prob_outcome_a_dual", "min_prob_outcome_a_primal", "min_prob_outcome_a_dual"):
        vals[m] = _solve(ctx, getattr(h, m))
    mp, md, np_, nd = (vals[k] for k in ("max_prob_outcome_a_primal", "max_prob_outcome_a_dual", "min_prob_outcome_a_primal", "min_prob_outcome_a_dual"))
    sig = (name, n, field)
    det = {"instance": name, "n": n, "field": field, **vals}
    ctx.sample("O3:hedging-duality", det)
    nt = field == "complex" or n == 2
    if mp is not None and md is not None:
        ctx.check("O3:hedging-duality", None, dev=abs(mp - md), tol=TOL, sig=sig + ("max",), nt=nt, mech=f"hedging:max-primal!=dual[{field}]", detail=det)
    if np_ is not None and nd is not None:
        ctx.check("O3:hedging-duality", None, dev=abs(np_ - nd), tol=TOL, sig=sig + ("min",), nt=nt, mech=f"hedging:min-primal!=dual[{field}]", detail=det)
    if mp is not None and np_ is not None:
        ctx.check("O3:hedging-max>=min", mp >= np_ - TOL and np_ >= -TOL, sig=sig, nt=nt, mech="hedging:max<min", detail=det)
    pts = _hedge_points(rng, q, n)
    if mp is not None:
        ctx.check("O3:hedging-feasible-point", mp >= max(pts) - TOL, dev=max(0.0, max(pts) - mp), tol=TOL, sig=sig + ("max",), nt=nt, mech="hedging:max-below-feasible-point", detail=dict(det, best_point=max(pts)))
    if np_ is not None:
        ctx.check("O3:hedging-feasible-point", np_ <= min(pts) + TOL, dev=max(0.0, np_ - min(pts)), tol=TOL, sig=sig + ("min",), nt=nt, mech="hedging:min-above-feasible-point", detail=dict(det, best_point=min(pts)))
    if name.startswith("molina"):
        want = {("q1", 1): (c2, None), ("q0", 1): (None, 1 - c2), ("q1", 2): (c2 ** 2, None), ("q0", 2): (None, 0.0)}[(name[-2:], n)]
        if want[0] is not None and mp is not None:
            ctx.check("O3:hedging-closed-form", None, dev=abs(mp - want[0]), tol=TOL, sig=sig + ("max",), mech="hedging:closed-form-max", detail=dict(det, want=want[0]))
        if want[1] is not None and np_ is not None:
            ctx.check("O3:hedging-closed-form", None, dev=abs(np_ - want[1]), tol=TOL, sig=sig + ("min",), mech="hedging:closed-form-min", detail=dict(det, want=want[1]))
    if n == 2:  # consistency with the single-shot optimum: the product strategy is feasible
        h1 = ctx.call(QuantumHedging, base.copy(), 1)
        if h1 is not FAILED:
            m1, n1 = _solve(ctx, h1.max_prob_outcome_a_primal), _solve(ctx, h1.min_prob_outcome_a_primal)
            if m1 is not None and mp is not None:
                ctx.check("O3:hedging-repetition", mp >= m1 ** 2 - TOL, sig=sig + ("max",), nt=True, mech="hedging:max(QxQ)<max(Q)^2", detail=dict(det, single=m1))
            if n1 is not None and np_ is not None:
                ctx.check("O3:hedging-repetition", np_ <= n1 ** 2 + TOL, sig=sig + ("min",), nt=True, mech="hedging:min(QxQ)>min(Q)^2", detail=dict(det, single=n1))


# ------------------------------------------------------------------------------------------- cloning
def _run_clone(ctx, spec, rng):
    from toqito.state_opt import optimal_clone

    r = spec[1]
    e0, e1 = np.array([[1.0], [0]]), np.array([[0], [1.0]])
    if r == 0:
        states, probs, name, field = [e0, e1, (e0 + e1) / np.sqrt(2), (e0 - e1) / np.sqrt(2)], [0.25] * 4, "bb84", "real"
    elif r == 1:
        states, probs, name, field = [gen.unit(rng, 2, False).reshape(2, 1)], [1.0], "single", "real"
    else:
        k = int(rng.integers(2, 5))
        field = "complex" if r % 3 == 0 else "real"
        states = [gen.unit(rng, 2, field == "complex").reshape(2, 1) for _ in range(k)]
        probs = list(gen.prior(rng, k))
        name = "random"
    sig = (name, len(states), field)
    mech_crash = f"crash:optimal_clone[{field}-amplitudes]"
    ctx.evals["solver-call"] += 2
    dual1 = ctx.call(optimal_clone, [s.copy() for s in states], list(probs), 1, False, solver=True, mech=mech_crash)
    prim1 = ctx.call(optimal_clone, [s.copy() for s in states], list(probs), 1, True, solver=True, mech=mech_crash)
    dual1 = None if dual1 is FAILED or dual1 is None else float(np.real(dual1))
    prim1 = None if prim1 is FAILED or prim1 is None else float(np.real(prim1))
    det = {"ensemble": name, "k": len(states), "field": field, "primal1": prim1, "dual1": dual1}
    ctx.sample("O4:clone-duality", det)
    if dual1 is not None and prim1 is not None:
        ctx.check("O4:clone-duality", None, dev=abs(dual1 - prim1), tol=TOL, sig=sig + (1,), nt=name == "random", mech="optimal_clone:primal!=dual", detail=det)
    if dual1 is not None:
        ctx.check("O4:clone-range", -TOL <= dual1 <= 1 + TOL, sig=sig, mech="optimal_clone:out-of-range", detail=det)
        if name == "bb84":
            ctx.check("O4:clone-closed-form", None, dev=abs(dual1 - 0.75), tol=TOL, sig=("bb84", 1), mech="optimal_clone:bb84!=3/4", detail=det)
        if name == "single":
            ctx.check("O4:clone-closed-form", None, dev=abs(dual1 - 1.0), tol=TOL, sig=("single", 1), mech="optimal_clone:single-state!=1", detail=det)
        # explicit counterfeiting strategy: keep the note and prepare a fixed |phi> as the copy; succeeds with sum_i p_i |<psi_i|phi>|^2, best phi = top eigenvector
        avg = sum(p * (s @ s.conj().T) for p, s in zip(probs, states))
        explicit = float(np.linalg.eigvalsh(ref.herm(avg)).max())
        ctx.check("O4:clone>=explicit-strategy", dual1 >= explicit - TOL, dev=max(0.0, explicit - dual1), tol=TOL, sig=sig, nt=name == "random", mech="optimal_clone:below-explicit-strategy",
                  detail=dict(det, explicit_strategy=explicit))
        # a state that is never issued (prior 0), inserted anywhere in the list, changes nothing; neither does the listing order
        if name != "single" and field == "real":
            pos = int(rng.integers(0, len(states) + 1))
            extra = gen.unit(rng, 2, False).reshape(2, 1)
            st0, pr0 = [x.copy() for x in states], list(probs)
            st0.insert(pos, extra)
            pr0.insert(pos, 0.0)
            ctx.evals["solver-call"] += 1
            v0 = ctx.call(optimal_clone, st0, pr0, 1, False, solver=True, mech=mech_crash)
            if v0 is not FAILED and v0 is not None:
                ctx.check("O4:clone-invariance", None, dev=abs(float(np.real(v0)) - dual1), tol=TOL, sig=sig + ("zero-prior-state", pos == len(states)), nt=True,
                          mech="optimal_clone:changes-when-a-zero-prior-state-is-inserted", detail=dict(det, position=pos, value=v0))
            order = [int(t) for t in rng.permutation(len(states))]
            ctx.evals["solver-call"] += 1
            vp = ctx.call(optimal_clone, [states[t].copy() for t in order], [probs[t] for t in order], 1, False, solver=True, mech=mech_crash)
            if vp is not FAILED and vp is not None:
                ctx.check("O4:clone-invariance", None, dev=abs(float(np.real(vp)) - dual1), tol=TOL, sig=sig + ("reordered",), nt=True,
                          mech="optimal_clone:depends-on-listing-order", detail=dict(det, order=order, value=vp))
        # invariance under a common (real orthogonal, so the ensemble stays in the same field) unitary
        u = gen.haar(rng, 2, real=field == "real")
        ctx.evals["solver-call"] += 1
        rot = ctx.call(optimal_clone, [u @ s for s in states], list(probs), 1, False, solver=True, mech=mech_crash)
        if rot is not FAILED and rot is not None:
            ctx.check("O4:clone-invariance", None, dev=abs(float(np.real(rot)) - dual1), tol=TOL, sig=sig, nt=name == "random", mech="optimal_clone:not-unitary-invariant", detail=dict(det, rotated=rot))
    if r % 2 == 0 or r < 2:
        ctx.evals["solver-call"] += 1
        dual2 = ctx.call(optimal_clone, [s.copy() for s in states], list(probs), 2, False, solver=True, mech=mech_crash)
        if dual2 is not FAILED and dual2 is not None and dual1 is not None:
            dual2 = float(np.real(dual2))
            # the n = 2 programs (64 x 64) are solved by SCS at its default accuracy: observed error 2.9e-4 (exact with Clarabel / tight SCS)
            ctx.check("O4:clone-repetition", dual2 >= dual1 ** 2 - 2e-3 and dual2 <= dual1 + 2e-3, sig=sig + (2,), nt=True, mech="optimal_clone:n=2-inconsistent-with-single-shot",
                      detail=dict(det, dual2=dual2))
            if name == "bb84":
                ctx.check("O4:clone-closed-form", None, dev=abs(dual2 - 0.75 ** 2), tol=2e-3, sig=("bb84", 2), mech="optimal_clone:bb84-n=2!=(3/4)^2", detail=dict(det, dual2=dual2))
            if name == "single":
                ctx.check("O4:clone-closed-form", None, dev=abs(dual2 - 1.0), tol=2e-3, sig=("single", 2), mech="optimal_clone:single-state-n=2!=1", detail=dict(det, dual2=dual2))
            if r < 2 and ctx.tier == "thorough":
                ctx.evals["solver-call"] += 1
                prim2 = ctx.call(optimal_clone, [s.copy() for s in states], list(probs), 2, True, solver=True, mech=mech_crash)
                if prim2 is not FAILED and prim2 is not None:
                    ctx.check("O4:clone-duality", None, dev=abs(float(np.real(prim2)) - dual2), tol=2e-3, sig=sig + (2,), nt=True, mech="optimal_clone:primal!=dual[n=2]", detail=dict(det, prim2=prim2))
