"""C04 - one linear map, many representations: all of them act identically."""
from __future__ import annotations

import numpy as np

from .. import contracts, gen, ref
from ..core import FAILED

DECIDING = ["O1:apply", "O1:apply-choi", "O2:kraus_to_choi", "O3:choi_to_kraus-action", "O3:choi_to_kraus-rebuilds", "O4:chain",
            "O5:partial_channel", "O6:natural_representation", "O1:apply-rectangular-pairs", "O7:channel_dim"]
RULE = ("cases = random maps (d_in, d_out in 1..4, Kraus rank 1..d_in*d_out, real/complex, CP / Hermiticity-preserving non-CP / general) "
        "in every accepted representation form; a signature is (monitor, form, d_in, d_out, rank class, field, class) and is non-trivial "
        "when d_in != d_out or entries are complex or the map is not CP")
THOROUGH_REPEAT = 8  # the thorough tier runs its randomised case kinds this many times (new inputs each time)
ASSUMPTIONS = [
    "reference = explicit loop sum_i A_i X B_i^dagger and J = sum_ij E_ij (x) Phi(E_ij) built from it",
    "a nested list [[K1, K2]] is read by the library as one (A, B) pair, so the one-row nested form is probed only with r > 2",
    "tolerance 1e-9 relative (1e-6 where an eigen/SVD factorisation of J is involved)",
]


def cases(tier):
    out = []
    n = 260 if tier == "quick" else 60000
    for r in range(n):
        out.append(("map", r))
    for r in range(120 if tier == "quick" else 30000):
        out.append(("partial", r))
    for r in range(60 if tier == "quick" else 10000):
        out.append(("rect", r))
    for r in range(60 if tier == "quick" else 10000):
        out.append(("chdim", r))
    for r in range(60 if tier == "quick" else 10000):
        out.append(("spectrum", r))
    return out


def setup(ctx):
    contracts.install(ctx, contracts.INDEX_CONTRACTS + contracts.CHANNEL_CONTRACTS)


def run(ctx, spec, rng):
    _FLOOR[0] = 1.0
    globals()["_run_" + spec[0]](ctx, spec, rng)


_FLOOR = [1.0]  # natural magnitude of the map of the running case (maps are also probed at magnitudes 1e-6 and 1e6)


def _rel(a, b):
    a = np.asarray(a)
    b = np.asarray(b)
    if a.shape != b.shape:
        return float("inf")
    return float(np.abs(a - b).max()) / (_FLOOR[0] + float(np.abs(b).max()))


def _make_map(rng, din, dout, r, cls, cplx):
    a_ops = [gen.rmat(rng, (dout, din), cplx) for _ in range(r)]
    # dtype hostility: operators of one family with different dtypes, the first one the narrowest (float or int before complex)
    pat = int(rng.integers(0, 4))
    if pat == 1 and cplx:
        a_ops[0] = np.ascontiguousarray(a_ops[0].real)
    elif pat == 2:
        a_ops[0] = np.round(2 * a_ops[0].real).astype(np.int64)
    if cls == "cp":
        b_ops = a_ops
    elif cls == "hp":  # Hermiticity preserving, not CP: signs
        signs = [1 if i % 2 == 0 else -1 for i in range(r)]
        b_ops = [s * a for s, a in zip(signs, a_ops)]
    elif cls == "near":
        # left and right operators that agree up to a relative 1e-4 .. 1e-6 per entry: not a CP form, and sum_i A_i X B_i^dagger means the B_i that were given
        eps = [1e-4, 1e-5, 3e-6, 1e-6][int(rng.integers(0, 4))]
        b_ops = [a * (1 + eps * (rng.normal(size=a.shape) + (1j * rng.normal(size=a.shape) if cplx else 0))) for a in a_ops]
    else:
        b_ops = [gen.rmat(rng, (dout, din), cplx) for _ in range(r)]
    return a_ops, b_ops


def _run_map(ctx, spec, rng):
    from toqito.channel_ops import apply_channel, choi_to_kraus, kraus_to_choi, natural_representation

    din, dout = int(rng.integers(1, 5)), int(rng.integers(1, 5))
    r = int(rng.integers(1, din * dout + 1)) if rng.random() < 0.7 else int(rng.integers(1, 4))
    cls = ["cp", "cp", "hp", "gen", "near"][int(rng.integers(0, 5))] if spec[1] % 9 != 8 else "near"
    cplx = bool(rng.integers(0, 2))
    if spec[1] % 13 == 6:
        # long operator lists (more operators than d_in * d_out: an overcomplete but perfectly valid Kraus family, e.g. the 36 Heisenberg-Weyl
        # unitaries of a six-level depolarizing channel): lengths around and beyond powers of two, not multiples of any block size
        r = [33, 36, 40, 65, 70, 100, 129][(spec[1] // 13) % 7]
    a_ops, b_ops = _make_map(rng, din, dout, r, cls, cplx)
    if spec[1] % 7 == 4 and len(a_ops) >= 1:
        # an operator pair listed twice (each copy scaled by 1/sqrt 2): the same map, written with a repeated entry
        same = b_ops is a_ops
        t_ = int(rng.integers(0, len(a_ops)))
        a_half, b_half = a_ops[t_] / np.sqrt(2), b_ops[t_] / np.sqrt(2)
        a_ops = [k_ for i_, k_ in enumerate(a_ops) if i_ != t_] + [a_half, a_half]
        b_ops = a_ops if same else [k_ for i_, k_ in enumerate(b_ops) if i_ != t_] + [b_half, b_half]
        r = len(a_ops)
    mag = [1.0, 1.0, 1e-3, 1.0, 1e3, 1.0, 1e-9, 1.0, 1e-6][spec[1] % 9]  # operators scaled by mag: the map has magnitude mag^2
    if mag != 1.0:
        same = b_ops is a_ops
        a_ops = [mag * a for a in a_ops]
        b_ops = a_ops if same else [mag * b for b in b_ops]
    _FLOOR[0] = mag ** 2
    x = gen.rc(rng, din, din)
    want = ref.apply_kraus(x, a_ops, b_ops)
    j_ref = ref.choi_of(a_ops, b_ops, din)
    nt = din != dout or cplx or cls != "cp"
    rk = "1" if r == 1 else ("long" if r > 32 else ("full" if r >= din * dout else "mid"))
    forms = {}
    if cls == "cp":
        forms["flat"] = list(a_ops)
        forms["col"] = [[a] for a in a_ops]
        if r > 2:
            forms["row"] = [list(a_ops)]
    forms["pairs"] = [[a, b] for a, b in zip(a_ops, b_ops)]
    for name, f in forms.items():
        sig = (name, din, dout, rk, cplx, cls)
        y = ctx.call(apply_channel, x, f)
        if y is not FAILED:
            ctx.check("O1:apply", None, dev=_rel(y, want), tol=1e-9, sig=sig, nt=nt, mech="apply_channel:kraus-action", detail={"form": name, "din": din, "dout": dout, "r": r, "cls": cls})
        j_lib = ctx.call(kraus_to_choi, f)
        if j_lib is FAILED:
            continue
        ctx.check("O2:kraus_to_choi", None, dev=_rel(j_lib, j_ref), tol=1e-9, sig=sig, nt=nt, mech="kraus_to_choi:definition", detail={"form": name, "din": din, "dout": dout, "r": r, "cls": cls})
        j_first = ctx.call(kraus_to_choi, f, 1)  # sys = 1: the map applied to the FIRST half of the maximally entangled operator
        if j_first is not FAILED:
            units = [np.zeros((din, din)) for _ in range(din * din)]
            for t_, e_ in enumerate(units):
                e_[t_ // din, t_ % din] = 1
            j_first_ref = sum(np.kron(ref.apply_kraus(e_, a_ops, b_ops), e_) for e_ in units)
            ctx.check("O2:kraus_to_choi", None, dev=_rel(j_first, j_first_ref), tol=1e-9, sig=sig + ("sys=1",), nt=nt, mech="kraus_to_choi:definition[sys=1]",
                      detail={"form": name, "din": din, "dout": dout, "r": r, "cls": cls})
    # Choi matrix (model-built) as the representation
    y = ctx.call(apply_channel, x, j_ref.copy())
    if y is not FAILED:
        ctx.check("O1:apply-choi", None, dev=_rel(y, want), tol=1e-9, sig=(din, dout, cplx, cls), nt=nt, mech="apply_channel:choi-action",
                  detail={"din": din, "dout": dout, "r": r, "cls": cls})
        ctx.sample("O1:apply-choi", {"din": din, "dout": dout, "rank": r, "class": cls, "complex": cplx})
    # Choi -> Kraus on Hermitian-PSD (cp), Hermitian indefinite (hp), non-Hermitian (gen) J
    # choi_to_kraus works with absolute thresholds (its eigenvalue cut-off tol = 1e-9, and the 1e-8 of the Hermitian / PSD predicates it
    # branches on, which cannot be passed through): a map of magnitude 1e-6 is legitimately truncated, so the conversions are probed at magnitude >= 1
    tol_kw = {}
    # a Choi matrix that is not Hermitian but lies inside the library's Hermiticity tolerance (allclose, rtol 1e-5 / atol 1e-8) is treated as
    # Hermitian by choi_to_kraus: the anti-Hermitian part (at most that tolerance) may be dropped, and is admitted here
    asym = float(np.abs(j_ref - j_ref.conj().T).max())
    ctk_tol = act_tol = 1e-6
    if 0 < asym and bool(np.allclose(j_ref, j_ref.conj().T)):
        ctk_tol += 2 * asym / (_FLOOR[0] + float(np.abs(j_ref).max()))
        # an entry of Phi(X) sums d_in^2 products x_ij J_(ik),(jl): each Choi entry may be off by the asymmetry
        act_tol += 2 * asym * din * din * float(np.abs(x).max()) / (_FLOOR[0] + float(np.abs(want).max()))
    k_lib = ctx.call(choi_to_kraus, j_ref.copy(), dim=[din, dout]) if mag >= 1 else FAILED
    if k_lib is not FAILED:
        if len(k_lib) and isinstance(k_lib[0], (list, tuple)):
            ka, kb = [p[0] for p in k_lib], [p[1] for p in k_lib]
        else:
            ka = kb = list(k_lib)
        if len(ka) == 0:
            got, j_back = np.zeros_like(want), np.zeros_like(j_ref)
        else:
            got = ref.apply_kraus(x, ka, kb)
            j_back = ref.choi_of(ka, kb, din)
        ctx.check("O3:choi_to_kraus-action", None, dev=_rel(got, want), tol=act_tol, sig=(din, dout, cplx, cls, rk), nt=nt, mech="choi_to_kraus:action",
                  detail={"din": din, "dout": dout, "r": r, "cls": cls})
        ctx.check("O3:choi_to_kraus-rebuilds", None, dev=_rel(j_back, j_ref), tol=ctk_tol, sig=(din, dout, cplx, cls, rk), nt=nt, mech="choi_to_kraus:rebuild",
                  detail={"din": din, "dout": dout, "r": r, "cls": cls})
        # chain K -> J -> K' -> J' -> K'' -> J''
        j1 = ctx.call(kraus_to_choi, k_lib) if len(ka) else FAILED
        if j1 is not FAILED:
            ctx.check("O4:chain", None, dev=_rel(j1, j_ref), tol=ctk_tol, sig=(din, dout, cls, 1), nt=nt, mech="chain:J'!=J", detail={"din": din, "dout": dout, "cls": cls})
            k2 = ctx.call(choi_to_kraus, j1, dim=[din, dout], **tol_kw)
            if k2 is not FAILED and len(k2):
                j2 = ctx.call(kraus_to_choi, k2)
                if j2 is not FAILED:
                    ctx.check("O4:chain", None, dev=_rel(j2, j_ref), tol=ctk_tol, sig=(din, dout, cls, 2), nt=nt, mech="chain:J''!=J", detail={"din": din, "dout": dout, "cls": cls})
                y2 = ctx.call(apply_channel, x, k2)
                if y2 is not FAILED:
                    ctx.check("O4:chain-action", None, dev=_rel(y2, want), tol=act_tol, sig=(din, dout, cls), nt=nt, mech="chain:action", detail={"din": din, "dout": dout, "cls": cls})
    if cls == "cp":
        nat = ctx.call(natural_representation, list(a_ops))
        if nat is not FAILED:
            ctx.check("O6:natural_representation", None, dev=_rel(np.asarray(nat) @ x.reshape(-1), want.reshape(-1)), tol=1e-9, sig=(din, dout, cplx), nt=nt,
                      mech="natural_representation:row-major-vec", detail={"din": din, "dout": dout, "r": r})


def _run_spectrum(ctx, spec, rng):
    """choi_to_kraus on Hermitian Choi matrices with a DESIGNED spectrum: clearly non-zero eigenvalues of both signs together with eigenvalues of
    either sign well below the documented cut-off tol = 1e-9 (legitimately dropped; their total weight bounds the admissible error), exact zeros and
    degenerate eigenvalues.  The returned pairs must reproduce the map and rebuild J up to that dropped weight."""
    from toqito.channel_ops import choi_to_kraus, kraus_to_choi

    r = spec[1]
    din, dout = int(rng.integers(1, 4)), int(rng.integers(2, 4))
    n = din * dout
    cplx = bool(r % 2)
    kind = ["psd", "indefinite", "indefinite-degenerate"][r % 3]
    big = list(rng.uniform(0.3, 2.0, size=int(rng.integers(1, max(2, n - 1)))))
    if kind != "psd":
        big[0] = -big[0]
    if kind == "indefinite-degenerate" and len(big) >= 2:
        big[-1] = abs(big[-2]) if len(big) > 2 else big[-1]
    tiny = [float(s_) * float(10.0 ** rng.uniform(-13, -10)) for s_ in rng.choice([-1.0, 1.0], size=int(rng.integers(0, 3)))]
    # weak but genuine components: far above the documented cut-off 1e-9, far below the strong ones - they must be kept
    weak = [float(s_) * float(10.0 ** rng.uniform(-7, -4)) for s_ in rng.choice([-1.0, 1.0], size=int(rng.integers(0, 3)))]
    if kind == "psd":
        tiny, weak = [abs(t_) for t_ in tiny], [abs(t_) for t_ in weak]
    spec_ = (big + weak + tiny + [0.0] * n)[:n]
    spec_ = [spec_[int(i_)] for i_ in rng.permutation(n)]
    u = gen.haar(rng, n, real=not cplx)
    j = ref.herm(u @ np.diag(spec_) @ u.conj().T)
    if not cplx:
        j = j.real
    dropped = float(sum(abs(s_) for s_ in spec_ if abs(s_) < 1e-9))
    x = gen.rc(rng, din, din)
    want = ref.apply_choi(x, j, din, dout)
    k_lib = ctx.call(choi_to_kraus, j.copy(), dim=[din, dout])
    if k_lib is FAILED:
        return
    if len(k_lib) and isinstance(k_lib[0], (list, tuple)):
        ka, kb = [p_[0] for p_ in k_lib], [p_[1] for p_ in k_lib]
    else:
        ka = kb = list(k_lib)
    got = ref.apply_kraus(x, ka, kb) if ka else np.zeros_like(want)
    j_back = ref.choi_of(ka, kb, din) if ka else np.zeros_like(j)
    tol = 1e-9 + 10 * dropped  # an eigendecomposition of a designed spectrum is accurate to rounding; only the dropped weight is admitted
    sig = (kind, cplx, len(tiny), len(weak), din, dout)
    det = {"din": din, "dout": dout, "kind": kind, "spectrum": spec_, "weight_below_cutoff": dropped, "pairs_returned": len(ka)}
    ctx.check("O3:choi_to_kraus-action", None, dev=_rel(got, want), tol=tol, sig=sig, nt=True, mech="choi_to_kraus:action[designed-spectrum]", detail=det)
    ctx.check("O3:choi_to_kraus-rebuilds", None, dev=_rel(j_back, j), tol=tol, sig=sig, nt=True, mech="choi_to_kraus:rebuild[designed-spectrum]", detail=det)
    if ka:
        j1 = ctx.call(kraus_to_choi, k_lib)
        if j1 is not FAILED:
            ctx.check("O4:chain", None, dev=_rel(j1, j), tol=tol, sig=sig + ("spectrum",), nt=True, mech="chain:J'!=J[designed-spectrum]", detail=det)


def _run_partial(ctx, spec, rng):
    from toqito.channel_ops import partial_channel

    nsys = int(rng.integers(2, 4))
    pos = int(rng.integers(0, nsys))
    dims = [int(v) for v in rng.integers(1, 4, size=nsys)]
    din = int(rng.integers(2, 4))
    dims[pos] = din
    square_only = rng.random() < 0.5
    dout = din if square_only else int(rng.integers(1, 4))
    r = int(rng.integers(1, 4))
    if spec[1] % 11 == 7:
        r = [34, 47, 66, 97][(spec[1] // 11) % 4]  # long operator lists (see _run_map)
    cls = ["cp", "cp", "gen", "near"][int(rng.integers(0, 4))]
    cplx = bool(rng.integers(0, 2))
    a_ops, b_ops = _make_map(rng, din, dout, r, cls, cplx)
    mag = [1.0, 1e-9, 1.0, 1.0, 1e-5, 1e4][spec[1] % 6]  # operators scaled by mag: the map has magnitude mag^2
    if mag != 1.0:
        same = b_ops is a_ops
        a_ops = [mag * a for a in a_ops]
        b_ops = a_ops if same else [mag * b for b in b_ops]
    _FLOOR[0] = mag ** 2
    big = int(np.prod(dims))
    x = gen.rc(rng, big, big)
    want = ref.partial_channel_kraus(x, a_ops, b_ops, dims, pos)
    sigbase = (nsys, pos, din, dout, cls)
    nt = True
    if cls == "cp":
        y = ctx.call(partial_channel, x, list(a_ops), pos + 1, list(dims))
        if y is not FAILED:
            ctx.check("O5:partial_channel", None, dev=_rel(y, want), tol=1e-9, sig=("flat",) + sigbase, nt=nt, mech="partial_channel:kraus",
                      detail={"dims": dims, "pos": pos, "dout": dout})
    y = ctx.call(partial_channel, x, [[a, b] for a, b in zip(a_ops, b_ops)], pos + 1, list(dims))
    if y is not FAILED:
        ctx.check("O5:partial_channel", None, dev=_rel(y, want), tol=1e-9, sig=("pairs",) + sigbase, nt=nt, mech="partial_channel:pairs",
                  detail={"dims": dims, "pos": pos, "dout": dout})
    j_ref = ref.choi_of(a_ops, b_ops, din)
    y = ctx.call(partial_channel, x, j_ref, pos + 1, list(dims))
    if y is not FAILED:
        ctx.check("O5:partial_channel", None, dev=_rel(y, want), tol=1e-9, sig=("choi",) + sigbase, nt=nt, mech="partial_channel:choi",
                  detail={"dims": dims, "pos": pos, "dout": dout})
        ctx.sample("O5:partial_channel", {"dims": dims, "target": pos + 1, "d_out": dout, "class": cls})
    if nsys == 2 and pos == 1 and dims[0] == dims[1]:
        y = ctx.call(partial_channel, x, [[a, b] for a, b in zip(a_ops, b_ops)])  # defaults: second of two equal systems
        if y is not FAILED:
            ctx.check("O5:partial_channel", None, dev=_rel(y, want), tol=1e-9, sig=("defaults",) + sigbase, nt=nt, mech="partial_channel:defaults",
                      detail={"dims": dims})


def _run_rect(ctx, spec, rng):
    """(A, B) pairs with different left and right shapes acting on a rectangular X."""
    from toqito.channel_ops import apply_channel, kraus_to_choi

    from toqito.channel_ops import choi_to_kraus
    from toqito.helper import channel_dim

    ai, ao, bi, bo = (int(v) for v in rng.integers(1, 4, size=4))
    omitted = spec[1] % 3 == 1
    if omitted:  # left and right factors act on spaces of different size, each square: the dimensions can be inferred from a non-square Choi matrix
        ai = ao = int(rng.integers(1, 4))
        bi = bo = 1 + (ai + int(rng.integers(0, 2))) % 3
    r = int(rng.integers(1, 4))
    a_ops = [gen.rc(rng, ao, ai) for _ in range(r)]
    b_ops = [gen.rc(rng, bo, bi) for _ in range(r)]
    x = gen.rc(rng, ai, bi)
    want = ref.apply_kraus(x, a_ops, b_ops)
    pairs = [[a, b] for a, b in zip(a_ops, b_ops)]
    y = ctx.call(apply_channel, x, pairs)
    if y is not FAILED:
        ctx.check("O1:apply-rectangular-pairs", None, dev=_rel(y, want), tol=1e-9, sig=(ai != bi, ao != bo), nt=(ai, ao) != (bi, bo),
                  mech="apply_channel:rectangular-pairs", detail={"shapes": [ai, ao, bi, bo]})
    j_lib = ctx.call(kraus_to_choi, pairs)
    if j_lib is not FAILED:
        j_ref = ref.choi_of(a_ops, b_ops, ai, bi)
        ctx.check("O2:kraus_to_choi-rectangular", None, dev=_rel(j_lib, j_ref), tol=1e-9, sig=(ai != bi, ao != bo), nt=(ai, ao) != (bi, bo),
                  mech="kraus_to_choi:rectangular-pairs", detail={"shapes": [ai, ao, bi, bo]})
    if omitted and ai != bi:
        j_ref = ref.choi_of(a_ops, b_ops, ai, bi)
        res = ctx.call(channel_dim, j_ref.copy())
        if res is not FAILED:
            ok = list(np.asarray(res[0]).reshape(-1)) == [ai, bi] and list(np.asarray(res[1]).reshape(-1)) == [ao, bo]
            ctx.check("O7:channel_dim", ok, sig=("non-square-choi-default", ai, bi), nt=True, mech="channel_dim:non-square-choi-default", detail={"got": res[:2], "want": [[ai, bi], [ao, bo]]})
        ks = ctx.call(choi_to_kraus, j_ref.copy())
        if ks is not FAILED and len(ks):
            ka, kb = ([p_[0] for p_ in ks], [p_[1] for p_ in ks]) if isinstance(ks[0], (list, tuple)) else (list(ks), list(ks))
            try:
                got = ref.apply_kraus(x, ka, kb)
            except ValueError:
                got = np.full_like(want, np.inf)
            ctx.check("O3:choi_to_kraus-action", None, dev=_rel(got, want), tol=1e-6, sig=("non-square-choi-default", ai, bi), nt=True, mech="choi_to_kraus:action[non-square-choi,dim-omitted]",
                      detail={"shapes": [ai, ao, bi, bo], "pairs": len(ka)})


def _run_chdim(ctx, spec, rng):
    """channel_dim: the dimension bookkeeping every representation-dependent function relies on."""
    from toqito.helper import channel_dim

    din, dout = int(rng.integers(1, 5)), int(rng.integers(1, 5))
    r = int(rng.integers(1, 5))
    a_ops = [gen.rc(rng, dout, din) for _ in range(r)]
    rect = spec[1] % 3 == 0
    bi, bo = (int(rng.integers(1, 4)), int(rng.integers(1, 4))) if rect else (din, dout)
    b_ops = [gen.rc(rng, bo, bi) for _ in range(r)]
    forms = {"pairs": [[a, b] for a, b in zip(a_ops, b_ops)]}
    if not rect:
        forms["flat"] = list(a_ops)
        forms["col"] = [[a] for a in a_ops]
        if r > 2:
            forms["row"] = [list(a_ops)]
    for name, f in forms.items():
        res = ctx.call(channel_dim, f)
        if res is FAILED:
            continue
        d_in, d_out, d_e = res
        cp_form = name != "pairs"
        want_in = [din, din] if cp_form else [din, bi]
        want_out = [dout, dout] if cp_form else [dout, bo]
        ok = list(np.asarray(d_in).reshape(-1)) == want_in and list(np.asarray(d_out).reshape(-1)) == want_out and int(d_e) == r
        ctx.check("O7:channel_dim", ok, sig=(name, rect, din != dout), nt=din != dout or rect, mech=f"channel_dim:kraus[{name}]",
                  detail={"form": name, "got": [d_in, d_out, d_e], "want": [want_in, want_out, r]})
    j = ref.choi_of(a_ops, a_ops, din)
    res = ctx.call(channel_dim, j, dim=[din, dout])
    if res is not FAILED:
        d_in, d_out, d_e = res
        rank = int(np.linalg.matrix_rank(j))
        ok = list(np.asarray(d_in).reshape(-1)) == [din, din] and list(np.asarray(d_out).reshape(-1)) == [dout, dout] and int(d_e) == rank
        ctx.check("O7:channel_dim", ok, sig=("choi+dim", din != dout), nt=din != dout, mech="channel_dim:choi-with-dim", detail={"got": [d_in, d_out, d_e], "want": [din, dout, rank]})
        ctx.sample("O7:channel_dim", {"d_in": din, "d_out": dout, "rank": rank})
    if din == dout:
        res = ctx.call(channel_dim, j)
        if res is not FAILED:
            ok = list(np.asarray(res[0]).reshape(-1)) == [din, din] and list(np.asarray(res[1]).reshape(-1)) == [din, din]
            ctx.check("O7:channel_dim", ok, sig=("choi-default",), mech="channel_dim:choi-default", detail={"got": res[:2], "d": din})
        res = ctx.call(channel_dim, j, allow_rect=False, compute_env_dim=False)
        if res is not FAILED:
            ctx.check("O7:channel_dim", int(res[0]) == din and int(res[1]) == din and res[2] is None, sig=("choi-square-scalar",), mech="channel_dim:allow_rect=False", detail={"got": res, "d": din})
    elif din * dout not in (1, 4, 9, 16) or int(round(np.sqrt(din * dout))) ** 2 != din * dout:
        res = ctx.call(channel_dim, j, expect=(ValueError,))
        if res is not FAILED:
            ctx.check("O7:channel_dim", isinstance(res, ValueError), sig=("choi-unequal-needs-dim",), mech="channel_dim:accepts-ambiguous-choi", detail={"din": din, "dout": dout})
    if r >= 2 and dout > 1:
        bad = [a_ops[0], a_ops[1][:-1, :]]
        res = ctx.call(channel_dim, bad, expect=(ValueError,))
        if res is not FAILED:
            ctx.check("O7:channel_dim", isinstance(res, ValueError), sig=("mismatched-kraus-sizes",), mech="channel_dim:accepts-mismatched-kraus", detail={})
