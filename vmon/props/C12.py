"""C12 - PPT / symmetric-extension discrimination values: ordered, dual-consistent, caller's list untouched."""
from __future__ import annotations

import numpy as np

from .. import certs, gen, ref, snap
from ..core import FAILED
from .C10 import arr

DECIDING = ["O1:product-measurement<=PPT", "O1:PPT<=global", "O2:primal=dual", "O2:bell=1/2", "O2:local-unitary-invariant", "O2:party-choice",
            "O3:level1=PPT", "O3:level-monotone", "O3:separable-measurement<=hierarchy", "O4:states-list-unchanged"]
RULE = ("bipartite ensembles of 2..4 states on 2x2 and 2x3, column kets and density matrices, real and complex, uniform/random priors, the four Bell states as "
        "anchor; explicit product (LOCC) measurements = random local orthonormal bases with the best guess per outcome, evaluated with NumPy; signature "
        "(monitor, dims, n, form, field, prior kind); non-trivial when complex, mixed, 2x3 or non-uniform prior")
ASSUMPTIONS = [
    "picos/cvxopt for the PPT SDPs (tolerance 1e-5 between primal and dual), cvxpy default solver for the hierarchy (2e-4)",
    "global optimum bounded from above by the certificate of C10 (dual-feasible operator built from the library's POVM, NumPy only)",
    "hierarchy level 2 on 2x3 costs several seconds: few instances in the quick tier",
]
TOLA = 1e-5
TOLB = 2e-4
SOLVER_TIME_LIMIT = 240
CASE_TIMEOUT = {"quick": 600, "thorough": 1200}


def cases(tier):
    out = [("ppt", r) for r in range(40 if tier == "quick" else 1200)]
    out += [("hier", r) for r in range(12 if tier == "quick" else 150)]
    out += [("immut", r) for r in range(12 if tier == "quick" else 100)]
    out += [("locc", r) for r in range(4 if tier == "quick" else 60)]
    return out


def run(ctx, spec, rng):
    globals()["_run_" + spec[0]](ctx, spec, rng)


def _solve(ctx, fn, *a, **k):
    ctx.evals["solver-call"] += 1
    v = ctx.call(fn, *a, solver=True, **k)
    return None if v is FAILED else v


def ensemble(rng, r):
    dims = [2, 2] if r % 3 else [2, 3]
    big = dims[0] * dims[1]
    n = int(rng.integers(2, 5))
    cplx = bool(r % 2)
    form = "ket" if (r // 2) % 2 == 0 else "dm"
    if form == "ket":
        inp = [gen.unit(rng, big, cplx).reshape(-1, 1) for _ in range(n)]
        rhos = [v @ v.conj().T for v in inp]
    else:
        rhos = [gen.density(rng, big, int(rng.integers(1, 4)), cplx) for _ in range(n)]
        inp = [x.copy() for x in rhos]
    pk = [0, 1, 3, 1][(r // 4) % 4]
    p = gen.prior(rng, n, pk)
    dup = None
    if n >= 3 and r % 5 == 3:
        # one state listed twice, the heavier copy later in the list
        i, j = sorted(int(v) for v in rng.choice(n, size=2, replace=False))
        inp[j], rhos[j] = inp[i].copy(), rhos[i].copy()
        if p[j] < p[i]:
            p = np.array(p, dtype=float)
            p[i], p[j] = p[j], p[i]
        dup = (i, j)
    return dict(dims=dims, n=n, cplx=cplx, form=form, inp=inp, rhos=rhos, p=p, pk=pk, dup=dup)


def shared_support_pair(rng, r):
    """Two states given as density matrices that live in one common two-dimensional subspace, at least one of them mixed (the sum of the two has
    rank two although the states are not both pure): a structured instance on which formulas for pure pairs do not apply."""
    dims = [2, 2] if r % 3 else [2, 3]
    big = dims[0] * dims[1]
    cplx = bool(r % 2)
    q, _ = np.linalg.qr(gen.rmat(rng, (big, 2), cplx))
    if (r // 2) % 3 == 0 and dims == [2, 2]:  # the span of |00> and |11>: a Bell state against the classically correlated state
        q = np.zeros((4, 2), dtype=complex)
        q[0, 0] = q[3, 1] = 1
    def inside(rank):
        m = gen.density(rng, 2, rank, cplx)
        return ref.herm(q @ m @ q.conj().T)
    rhos = [inside(1), inside(2)] if (r // 4) % 2 == 0 else [inside(2), inside(2)]
    if not cplx:
        rhos = [x.real for x in rhos]
    p = gen.prior(rng, 2, [0, 1][(r // 8) % 2])
    return dict(dims=dims, n=2, cplx=cplx, form="dm", inp=[x.copy() for x in rhos], rhos=rhos, p=p, pk=int((r // 8) % 2), dup=None)


def bell_ensemble(subset=(0, 1, 2, 3), rng=None):
    """k Bell states with uniform prior (optionally rotated by a local unitary): PPT value min(1, 2/k) (k = 4: 1/2, k = 3: 2/3, k = 2: 1)."""
    s = 1 / np.sqrt(2)
    kets = [np.array([s, 0, 0, s]), np.array([s, 0, 0, -s]), np.array([0, s, s, 0]), np.array([0, s, -s, 0])]
    kets = [kets[i].astype(complex) for i in subset]
    cplx = False
    if rng is not None:
        uu = np.kron(gen.haar(rng, 2), gen.haar(rng, 2))
        kets = [uu @ k for k in kets]
        cplx = True
    inp = [k.reshape(-1, 1) for k in kets]
    n = len(kets)
    return dict(dims=[2, 2], n=n, cplx=cplx, form="ket", inp=inp, rhos=[v @ v.conj().T for v in inp], p=np.full(n, 1.0 / n), pk=0)


BELL_SUBSETS = [(0, 1, 2, 3), (0, 1, 2), (0, 1, 3), (0, 2, 3), (1, 2, 3), (0, 1), (2, 3), (0, 1, 2, 3), (1, 2, 3)]


def product_measurement_value(rng, e, tries=60):
    """Success probability of explicit product projective measurements (an LOCC, hence separable and PPT, strategy)."""
    da, db = e["dims"]
    best = 0.0
    for t in range(tries):
        ua = np.eye(da) if t == 0 else gen.haar(rng, da)
        ub = np.eye(db) if t == 0 else gen.haar(rng, db)
        val = 0.0
        for i in range(da):
            for j in range(db):
                v = np.kron(ua[:, i], ub[:, j])
                val += max(float(pk * np.real(v.conj() @ rho @ v)) for pk, rho in zip(e["p"], e["rhos"]))
        best = max(best, val)
    return best


def global_upper(ctx, e):
    from toqito.state_opt import state_distinguishability

    res = _solve(ctx, state_distinguishability, [x.copy() for x in e["inp"]], list(e["p"]))
    if res is None:
        return None
    ms = [arr(m) for m in res[1]]
    ups = []
    for cand in (ms, [m.conj() for m in ms]):
        neg, comp, hdev = certs.povm_defect(cand, e["rhos"][0].shape[0])
        if max(neg, comp, hdev) < 1e-5:
            ups.append(certs.min_error_certificate(e["rhos"], e["p"], cand)[1])
    return min(ups) if ups else None


def _fresh(e):
    return [x.copy() for x in e["inp"]]


def _run_ppt(ctx, spec, rng):
    from toqito.state_opt import ppt_distinguishability

    r = spec[1]
    anchor = r < len(BELL_SUBSETS)
    e = bell_ensemble(BELL_SUBSETS[r], rng if r >= 7 else None) if anchor else ensemble(rng, r)
    dims, n, p = e["dims"], e["n"], e["p"]
    field = "complex" if e["cplx"] else "real"
    sig = (tuple(dims), n, e["form"], field, e["pk"])
    nt = e["cplx"] or e["form"] == "dm" or dims != [2, 2] or e["pk"] != 0
    spanning = np.linalg.matrix_rank(sum(e["rhos"]), tol=1e-9) == dims[0] * dims[1]
    vals = {}
    for sub in ([0], [1]):
        for pd in ("dual", "primal"):
            if pd == "primal" and not spanning and r % 4:
                continue
            res = _solve(ctx, ppt_distinguishability, _fresh(e), sub, list(dims), list(p), primal_dual=pd)
            if res is not None:
                vals[(sub[0], pd)] = float(np.real(res[0]))
    if not vals:
        return
    det = {"dims": dims, "n": n, "form": e["form"], "field": field, "prior": p, "values": {f"sub{k[0]}-{k[1]}": v for k, v in vals.items()}}
    ctx.sample("O2:primal=dual", det)
    for s in (0, 1):
        if (s, "dual") in vals and (s, "primal") in vals:
            ctx.check("O2:primal=dual", None, dev=abs(vals[(s, "dual")] - vals[(s, "primal")]), tol=TOLA, sig=sig + (s,), nt=nt, mech="ppt_distinguishability:primal!=dual", detail=det)
    for pd in ("dual", "primal"):
        if (0, pd) in vals and (1, pd) in vals:
            ctx.check("O2:party-choice", None, dev=abs(vals[(0, pd)] - vals[(1, pd)]), tol=TOLA, sig=sig + (pd,), nt=nt, mech="ppt_distinguishability:depends-on-transposed-party", detail=det)
    v = vals.get((0, "dual"), next(iter(vals.values())))
    prod = product_measurement_value(rng, e)
    ctx.check("O1:product-measurement<=PPT", prod <= v + TOLA, dev=max(0.0, prod - v), tol=TOLA, sig=sig, nt=nt, mech="ppt_distinguishability:below-explicit-product-measurement",
              detail=dict(det, product_measurement=prod))
    gu = global_upper(ctx, e)
    if gu is not None:
        ctx.check("O1:PPT<=global", v <= gu + 2e-4, dev=max(0.0, v - gu), tol=2e-4, sig=sig, nt=nt, mech="ppt_distinguishability:above-global-optimum", detail=dict(det, global_upper=gu))
    if e.get("dup"):
        # success means naming the *index*: of two copies of one state the lighter one (here the earlier) is never worth guessing, its outcome can be
        # merged into the heavier copy's (a sum of PPT operators is PPT), so the value is (1 - p_light) times the value of the ensemble without it
        i, j = e["dup"]
        keep = [k for k in range(n) if k != i]
        scale = 1.0 - float(p[i])
        for pd in ("dual", "primal"):
            if (0, pd) not in vals:
                continue
            res = _solve(ctx, ppt_distinguishability, [e["inp"][k].copy() for k in keep], [0], list(dims), [float(p[k]) / scale for k in keep], primal_dual=pd)
            if res is not None:
                want = scale * float(np.real(res[0]))
                ctx.check("O2:repeated-state=lighter-copy-dropped", None, dev=abs(want - vals[(0, pd)]), tol=TOLA, sig=sig + (pd, "dup"), nt=True,
                          mech=f"ppt_distinguishability:repeated-state-differs-from-ensemble-without-the-lighter-copy[{pd}]",
                          detail=dict(det, duplicate=[i, j], value_without_lighter_copy_times_remaining_weight=want))
    if anchor:
        want = min(1.0, 2.0 / n)
        ctx.check("O2:bell=1/2", None, dev=abs(v - want), tol=TOLA, sig=("bell", n, field), nt=True, mech=f"ppt_distinguishability:{n}-bell-states!=min(1,2/k)", detail=dict(det, want=want))
    # local unitary invariance
    ua, ub = gen.haar(rng, dims[0], real=not e["cplx"]), gen.haar(rng, dims[1], real=not e["cplx"])
    uu = np.kron(ua, ub)
    rot = [uu @ x @ uu.conj().T for x in e["inp"]] if e["form"] == "dm" else [uu @ x for x in e["inp"]]
    res = _solve(ctx, ppt_distinguishability, rot, [0], list(dims), list(p))
    if res is not None:
        ctx.check("O2:local-unitary-invariant", None, dev=abs(float(np.real(res[0])) - v), tol=TOLA, sig=sig, nt=nt, mech="ppt_distinguishability:not-local-unitary-invariant",
                  detail=dict(det, rotated=res[0]))


def _run_hier(ctx, spec, rng):
    from toqito.state_opt import ppt_distinguishability, symmetric_extension_hierarchy

    r = spec[1]
    e = bell_ensemble() if r == 0 else (shared_support_pair(rng, r) if r % 4 == 2 else ensemble(rng, r * 7 + 1))
    dims, n, p = e["dims"], e["n"], e["p"]
    field = "complex" if e["cplx"] else "real"
    sig = (tuple(dims), n, e["form"] + ("+shared-support" if r % 4 == 2 else ""), field, e["pk"], (r // 3) % 2 == 1)
    nt = e["cplx"] or e["form"] == "dm" or dims != [2, 2] or e["pk"] != 0
    res = _solve(ctx, ppt_distinguishability, _fresh(e), [1], list(dims), list(p))
    ppt = None if res is None else float(np.real(res[0]))
    # the dimension argument in its documented forms: the pair, a single integer d (meaning [d, N/d]), or omitted for equal dimensions
    dimarg = int(dims[0]) if (r // 3) % 2 == 1 else list(dims)
    if (dims[0] == dims[1] or dims == [2, 3]) and r % 4 == 3:
        dimarg = None  # omitted: equal dimensions, or - for a total of 6 - the first dimension round(sqrt(6)) = 2
    dimform = "pair" if isinstance(dimarg, list) else ("int" if dimarg is not None else "omitted")
    l1 = _solve(ctx, symmetric_extension_hierarchy, _fresh(e), list(p), 1, dimarg)
    do2 = dims == [2, 2] or r % 3 == 0 or ctx.tier == "thorough"
    l2 = _solve(ctx, symmetric_extension_hierarchy, _fresh(e), list(p), 2, dimarg) if do2 else None
    prod = product_measurement_value(rng, e)
    det = {"dims": dims, "dim_argument": dimform, "n": n, "form": e["form"], "field": field, "ppt": ppt, "level1": l1, "level2": l2, "product_measurement": prod}
    ctx.sample("O3:level1=PPT", det)
    if l1 is not None and ppt is not None:
        ctx.check("O3:level1=PPT", None, dev=abs(l1 - ppt), tol=TOLB, sig=sig, nt=nt, mech="symmetric_extension_hierarchy:level1!=PPT", detail=det)
    if l1 is not None and l2 is not None:
        ctx.check("O3:level-monotone", l2 <= l1 + TOLB, dev=max(0.0, l2 - l1), tol=TOLB, sig=sig, nt=nt, mech="symmetric_extension_hierarchy:level2>level1", detail=det)
    for lv, v in ((1, l1), (2, l2)):
        if v is not None:
            ctx.check("O3:separable-measurement<=hierarchy", prod <= v + TOLB, dev=max(0.0, prod - v), tol=TOLB, sig=sig + (lv,), nt=nt,
                      mech=f"symmetric_extension_hierarchy:below-explicit-separable-measurement[level={lv}]", detail=det)
    if r == 0 and l1 is not None:
        ctx.check("O2:bell=1/2", None, dev=abs(l1 - 0.5), tol=TOLB, sig=("bell", "level1"), nt=True, mech="symmetric_extension_hierarchy:bell-level1!=1/2", detail=det)


def _run_locc(ctx, spec, rng):
    """Anchor with a known value at every level: orthogonal product states |a_i>|b_j> in locally rotated bases are perfectly distinguished by a
    product measurement, so the PPT value and every level of the hierarchy equal 1 - for any prior, either order of the unequal dimensions."""
    from toqito.state_opt import ppt_distinguishability, symmetric_extension_hierarchy

    r = spec[1]
    dims = [[2, 3], [3, 2], [2, 2], [2, 3]][r % 4]
    cplx = bool((r // 4) % 2) or r % 2 == 1
    ua, ub = gen.haar(rng, dims[0], real=not cplx), gen.haar(rng, dims[1], real=not cplx)
    pairs = [(i_, j_) for i_ in range(dims[0]) for j_ in range(dims[1])]
    n = int(rng.integers(3, min(5, len(pairs)) + 1))
    chosen = [pairs[int(t_)] for t_ in rng.permutation(len(pairs))[:n]]
    kets = [np.kron(ua[:, i_], ub[:, j_]).reshape(-1, 1) for i_, j_ in chosen]
    form = "ket" if r % 2 == 0 else "dm"
    inp = kets if form == "ket" else [k_ @ k_.conj().T for k_ in kets]
    p = gen.prior(rng, n, 1)
    sig = (tuple(dims), n, form, cplx)
    det = {"dims": dims, "n": n, "form": form, "complex": cplx, "prior": p}
    res = _solve(ctx, ppt_distinguishability, [x.copy() for x in inp], [1], list(dims), list(p))
    if res is not None:
        ctx.check("O1:product-measurement<=PPT", None, dev=abs(float(np.real(res[0])) - 1), tol=TOLB, sig=sig + ("ppt",), nt=True, mech="ppt_distinguishability:orthogonal-product-states!=1", detail=dict(det, value=res[0]))
    for level in (1, 2):
        v = _solve(ctx, symmetric_extension_hierarchy, [x.copy() for x in inp], list(p), level, list(dims))
        if v is not None:
            ctx.check("O3:separable-measurement<=hierarchy", None, dev=abs(float(np.real(v)) - 1), tol=TOLB, sig=sig + (level,), nt=True,
                      mech=f"symmetric_extension_hierarchy:orthogonal-product-states!=1[level={level}]", detail=dict(det, level=level, value=v))
    ctx.sample("O3:separable-measurement<=hierarchy", det)


def _run_immut(ctx, spec, rng):
    """The call must not modify the caller's list of states (element identities and array bytes)."""
    from toqito.state_opt import ppt_distinguishability, symmetric_extension_hierarchy

    r = spec[1]
    e = ensemble(rng, r)
    states = _fresh(e)
    if r % 3 == 0:
        for s in states:
            s.setflags(write=False)
    before = snap.digest(states, ids=True)
    probs = list(e["p"])
    pb = snap.digest(probs)
    level = 1 if r % 2 else 2
    if level == 2 and e["dims"] != [2, 2] and ctx.tier == "quick":
        level = 1
    _solve(ctx, symmetric_extension_hierarchy, states, probs, level, list(e["dims"]))
    after = snap.digest(states, ids=True)
    replaced = [i for i, (s, o) in enumerate(zip(states, e["inp"])) if s.shape != o.shape]
    mech = "symmetric_extension_hierarchy:overwrites-caller-list[kets->density-matrices]" if (e["form"] == "ket" and replaced) else "symmetric_extension_hierarchy:modifies-caller-arguments"
    ctx.check("O4:states-list-unchanged", before == after and snap.digest(probs) == pb, sig=("hierarchy", e["form"], level), nt=e["form"] == "ket", mech=mech,
              detail={"form": e["form"], "level": level, "shapes_after": [list(s.shape) for s in states], "replaced_indices": replaced})
    ctx.sample("O4:states-list-unchanged", {"form": e["form"], "level": level, "shapes_before": [list(s.shape) for s in e["inp"]], "shapes_after": [list(s.shape) for s in states]})
    states2 = _fresh(e)
    b2 = snap.digest(states2, ids=True)
    _solve(ctx, ppt_distinguishability, states2, [0], list(e["dims"]), probs)
    ctx.check("O4:states-list-unchanged", snap.digest(states2, ids=True) == b2, sig=("ppt", e["form"]), nt=True, mech="ppt_distinguishability:modifies-caller-arguments", detail={"form": e["form"]})
