"""C05 - dual and complementary maps satisfy their defining identities."""
from __future__ import annotations

import numpy as np

from .. import contracts, gen, ref
from ..core import FAILED

DECIDING = ["O1:adjoint-identity", "O2:dual-dual", "O3:unital<=>dual-TP", "O4:complementary-entries", "O4:complementary-trace",
            "O4:complementary-spectrum", "O4:complementary-rejects"]
RULE = ("cases = random maps (CP and non-CP, d_in, d_out in 1..4, real/complex) as flat Kraus / [[K1],..] / [[K1,..,Kr]] / (A,B) pairs / Choi matrix; complementary: "
        "Stinespring-generated square channels d in 2..4, rank 1..6; the returned dual is applied by the *model* (explicit Kraus loop or "
        "Choi contraction), never by the library's apply_channel; signature (monitor, form, d_in, d_out, class), non-trivial when d_in != d_out, "
        "complex or non-CP")
THOROUGH_REPEAT = 10  # the thorough tier runs its randomised case kinds this many times (new inputs each time)
ASSUMPTIONS = [
    "Hilbert-Schmidt inner product <A,B> = Tr(A^dagger B); tolerance 1e-9 relative",
    "complementary_channel accepts square Kraus operators only (documented ValueError otherwise)",
]


def cases(tier):
    out = [("dual", r) for r in range(300 if tier == "quick" else 60000)]
    out += [("comp", r) for r in range(150 if tier == "quick" else 30000)]
    out += [("unital", r) for r in range(100 if tier == "quick" else 20000)]
    out += [("rectdual", r) for r in range(150 if tier == "quick" else 30000)]
    return out


def setup(ctx):
    # internal calls of apply_channel / kraus_to_choi (made by the predicates, dual / partial channels ...) are observed as well
    contracts.install(ctx, contracts.CHANNEL_CONTRACTS)


def run(ctx, spec, rng):
    globals()["_run_" + spec[0]](ctx, spec, rng)


def hs(a, b):
    return np.trace(a.conj().T @ b)


def _apply_any(rep, x, din, dout):
    """Model application of a representation returned by the library."""
    if isinstance(rep, np.ndarray):
        return ref.apply_choi(x, rep, din, dout)
    if isinstance(rep[0], (list, tuple)):
        # the library's reading of nested lists (helper.channel_dim): [[K1], .., [Kr]] and [[K1, .., Kr]] with r > 2 are CP maps
        if all(len(p) == 1 for p in rep) or (len(rep) == 1 and len(rep[0]) > 2):
            return ref.apply_kraus(x, [k for p in rep for k in p])
        return ref.apply_kraus(x, [p[0] for p in rep], [p[1] for p in rep])
    return ref.apply_kraus(x, list(rep))


def _run_dual(ctx, spec, rng):
    from toqito.channel_ops import dual_channel

    din, dout = int(rng.integers(1, 5)), int(rng.integers(1, 5))
    if spec[1] % 17 == 9:
        # Choi matrices larger than 64 x 64 (more than 4096 entries) with unequal input / output dimensions: beyond any size threshold at which the
        # library or a helper it uses (swap / permute_systems) might switch to another algorithm
        din, dout = [(5, 13), (8, 9), (13, 5), (2, 33), (7, 11), (33, 2), (9, 8), (3, 23)][(spec[1] // 17) % 8]
    r = int(rng.integers(1, 5))
    cls = ["cp", "gen", "hp"][int(rng.integers(0, 3))]
    cplx = bool(rng.integers(0, 2))
    a_ops = [gen.rmat(rng, (dout, din), cplx) for _ in range(r)]
    b_ops = a_ops if cls == "cp" else ([(-1) ** i * a for i, a in enumerate(a_ops)] if cls == "hp" else [gen.rmat(rng, (dout, din), cplx) for _ in range(r)])
    if spec[1] % 8 == 3 and cls == "cp":
        # classical channel: Kraus operators sqrt(P[j|i]) |j><i| for a random stochastic matrix P - the Choi matrix is exactly diagonal
        pm = rng.random((dout, din)) + 0.05
        pm /= pm.sum(axis=0, keepdims=True)
        a_ops = []
        for j_ in range(dout):
            for i_ in range(din):
                k_ = np.zeros((dout, din), dtype=complex if cplx else float)
                k_[j_, i_] = np.sqrt(pm[j_, i_])
                a_ops.append(k_)
        b_ops, r, cls = a_ops, len(a_ops), "cp-classical"
    if spec[1] % 8 == 5 and din == dout and din > 1:
        # nearly (but not) Hermitian Kraus operators: H + eps N, eps far above rounding and far below any "is it Hermitian" tolerance
        eps = float(rng.choice([1e-6, 1e-7]))
        a_ops = [gen.hermitian(rng, din, cplx) + eps * gen.rmat(rng, (din, din), cplx) for _ in range(r)]
        b_ops = a_ops if cls == "cp" else [gen.hermitian(rng, din, cplx) + eps * gen.rmat(rng, (din, din), cplx) for _ in range(r)]
        cls = cls + "-near-hermitian"
    mag = float([1.0, 1.0, 1e-6, 1e3, 1e-3, 1.0][spec[1] % 6])  # maps of very small / large magnitude are maps too
    if mag != 1.0:
        same = b_ops is a_ops
        a_ops = [mag * a for a in a_ops]
        b_ops = a_ops if same else [mag * b for b in b_ops]
    x, y = gen.rc(rng, din, din), gen.rc(rng, dout, dout)
    phi_x = ref.apply_kraus(x, a_ops, b_ops)
    lhs = hs(y, phi_x)
    nt = din != dout or cplx or not cls.startswith("cp")
    natural = float(np.linalg.norm(x) * np.linalg.norm(y) * sum(np.linalg.norm(a) * np.linalg.norm(b) for a, b in zip(a_ops, b_ops)))  # magnitude of <Y, Phi(X)>
    forms = {"pairs": [[a, b] for a, b in zip(a_ops, b_ops)], "choi": ref.choi_of(a_ops, b_ops, din)}
    if cls.startswith("cp"):
        forms["flat"] = list(a_ops)
        forms["column"] = [[a] for a in a_ops]
        if r != 2:  # [[K1, K2]] would be read as the pair map X -> K1 X K2^*
            forms["row"] = [list(a_ops)]
    if din * dout == 1:
        del forms["choi"]  # a 1x1 "Choi matrix" is a scalar; the library's swap treats it as a vector - degenerate, not probed
    for name, f in forms.items():
        d = ctx.call(dual_channel, f, dims=[din, dout]) if name == "choi" else ctx.call(dual_channel, f)
        if d is FAILED:
            continue
        dual_y = _apply_any(d, y, dout, din)
        scale = natural
        ctx.check("O1:adjoint-identity", None, dev=abs(lhs - hs(dual_y, x)) / scale, tol=1e-9, sig=(name, din, dout, cls, cplx, mag), nt=nt,
                  mech="dual_channel:adjoint-identity", detail={"form": name, "din": din, "dout": dout, "cls": cls})
        if name == "choi":
            ctx.sample("O1:adjoint-identity", {"form": name, "d_in": din, "d_out": dout, "class": cls, "lhs": lhs, "rhs": hs(dual_y, x)})
        dd = ctx.call(dual_channel, d, dims=[dout, din]) if name == "choi" else ctx.call(dual_channel, d)
        if dd is not FAILED:
            back = _apply_any(dd, x, din, dout)
            dev = float(np.abs(back - phi_x).max()) / (natural / max(np.linalg.norm(y), 1e-300))
            ctx.check("O2:dual-dual", None, dev=dev, tol=1e-9, sig=(name, din, dout, cls, mag), nt=nt, mech="dual_channel:involution",
                      detail={"form": name, "din": din, "dout": dout, "cls": cls})
    if din == dout and din > 1:  # Choi form with dims omitted (square map)
        d = ctx.call(dual_channel, forms["choi"])
        if d is not FAILED:
            dual_y = _apply_any(d, y, dout, din)
            ctx.check("O1:adjoint-identity", None, dev=abs(lhs - hs(dual_y, x)) / natural, tol=1e-9, sig=("choi-nodims", din, cls, cplx), nt=nt,
                      mech="dual_channel:adjoint-identity-default-dims", detail={"din": din, "cls": cls})


def _run_unital(ctx, spec, rng):
    """Phi(I) = I  <=>  Phi* trace-preserving, decided by the model with a margin, and cross-read through the predicates."""
    from toqito.channel_ops import dual_channel, kraus_to_choi
    from toqito.channel_props import is_trace_preserving, is_unital

    d = int(rng.integers(2, 5))
    mode = spec[1] % 3
    if mode == 0:  # unital: mixture of unitaries
        k = int(rng.integers(1, 4))
        w = rng.random(k) + 0.1
        w /= w.sum()
        a_ops = [np.sqrt(w[i]) * gen.haar(rng, d) for i in range(k)]
    elif mode == 1:  # trace preserving, generically not unital
        a_ops = gen.stinespring_kraus(rng, d, d, int(rng.integers(2, 4)))
    else:  # neither
        a_ops = [gen.rc(rng, d, d) for _ in range(2)]
    phi_i = ref.apply_kraus(np.eye(d), a_ops)
    unital_gap = float(np.abs(phi_i - np.eye(d)).max())
    dual = ctx.call(dual_channel, list(a_ops))
    if dual is FAILED:
        return
    # model: the dual is TP iff sum_k D_k^dagger D_k = I
    s = sum(k.conj().T @ k for k in dual)
    tp_gap = float(np.abs(s - np.eye(d)).max())
    if unital_gap < 1e-10 or unital_gap > 1e-3:
        agree = (unital_gap < 1e-10) == (tp_gap < 1e-10)
        ctx.check("O3:unital<=>dual-TP", agree, sig=(mode, d), mech="dual_channel:unital-vs-TP", detail={"unital_gap": unital_gap, "dual_tp_gap": tp_gap})
        lib_unital = ctx.call(is_unital, list(a_ops))
        lib_tp = ctx.call(is_trace_preserving, [[k, k] for k in dual])
        if lib_unital is not FAILED and lib_tp is not FAILED:
            ctx.check("O3:predicates-agree", bool(lib_unital) == bool(lib_tp) == (unital_gap < 1e-10), sig=(mode, d), mech="dual_channel:predicate-cross-read",
                      detail={"is_unital": bool(lib_unital), "dual_is_tp": bool(lib_tp), "unital_gap": unital_gap})
        j_dual = ctx.call(dual_channel, ref.choi_of(a_ops, a_ops, d), dims=[d, d])
        if j_dual is not FAILED:
            lib_tp2 = ctx.call(is_trace_preserving, j_dual)
            if lib_tp2 is not FAILED:
                ctx.check("O3:predicates-agree", bool(lib_tp2) == (unital_gap < 1e-10), sig=("choi", mode, d), mech="dual_channel:predicate-cross-read-choi",
                          detail={"dual_choi_is_tp": bool(lib_tp2), "unital_gap": unital_gap})


def _run_comp(ctx, spec, rng):
    from toqito.channel_ops import complementary_channel

    d = int(rng.integers(2, 5))
    r = int(rng.integers(1, 7))
    cplx = rng.random() < 0.7
    pattern = ["uniform", "uniform", "real-then-complex", "int-then-float"][spec[1] % 4]
    if pattern == "uniform":
        k_ops = gen.stinespring_kraus(rng, d, d, r, cplx)
    else:  # operators of different dtypes in one family (narrowest first)
        k_ops = gen.mixed_dtype_channel(rng, d, pattern)
        r, cplx = len(k_ops), pattern
    if spec[1] % 5 == 3 and pattern == "uniform":
        # the same operator listed twice (split into two equal halves) at arbitrary list positions: still a trace-preserving family
        which = int(rng.integers(0, len(k_ops)))
        half = k_ops[which] / np.sqrt(2)
        k_ops = [k_ for i_, k_ in enumerate(k_ops) if i_ != which]
        for _pos in range(2):
            k_ops.insert(int(rng.integers(0, len(k_ops) + 1)), half.copy() if _pos else half)
        r, cplx = len(k_ops), str(cplx) + "+repeated-operator"
    comp = ctx.call(complementary_channel, list(k_ops))
    if comp is not FAILED:
        rho = gen.density(rng, d, int(rng.integers(1, d + 1)))
        out = ref.apply_kraus(rho, list(comp))
        want = np.array([[np.trace(k_ops[i] @ rho @ k_ops[j].conj().T) for j in range(r)] for i in range(r)])
        dev = float(np.abs(out - want).max()) if out.shape == want.shape else float("inf")
        ctx.check("O4:complementary-entries", None, dev=dev, tol=1e-10, sig=(d, r, cplx), nt=r > 1, mech="complementary_channel:entries",
                  detail={"d": d, "r": r})
        ctx.check("O4:complementary-trace", None, dev=abs(np.trace(out) - 1), tol=1e-10, sig=(d, r), mech="complementary_channel:trace", detail={"d": d, "r": r})
        psi = gen.unit(rng, d)
        pure = np.outer(psi, psi.conj())
        spec_a = np.sort(np.linalg.eigvalsh(ref.herm(ref.apply_kraus(pure, k_ops))))[::-1]
        spec_c = np.sort(np.linalg.eigvalsh(ref.herm(ref.apply_kraus(pure, list(comp)))))[::-1]
        m = max(len(spec_a), len(spec_c))
        sa, sc = np.zeros(m), np.zeros(m)
        sa[:len(spec_a)], sc[:len(spec_c)] = spec_a, spec_c
        ctx.check("O4:complementary-spectrum", None, dev=float(np.abs(sa - sc).max()), tol=1e-8, sig=(d, r), nt=r > 1, mech="complementary_channel:spectrum",
                  detail={"d": d, "r": r, "phi": spec_a, "comp": spec_c})
        ctx.sample("O4:complementary-spectrum", {"d": d, "r": r, "spectrum_phi": spec_a, "spectrum_comp": spec_c})
    # rejections
    bad = [1.2 * k for k in k_ops]
    res = ctx.call(complementary_channel, bad, expect=(ValueError,))
    if res is not FAILED:
        ctx.check("O4:complementary-rejects", isinstance(res, ValueError), sig=("non-TP",), mech="complementary_channel:accepts-non-TP", detail={"d": d, "r": r})
    rect = gen.stinespring_kraus(rng, d, d + 1, 2)
    res = ctx.call(complementary_channel, rect, expect=(ValueError,))
    if res is not FAILED:
        ctx.check("O4:complementary-rejects", isinstance(res, ValueError), sig=("non-square",), mech="complementary_channel:accepts-non-square", detail={"d": d})


def _run_rectdual(ctx, spec, rng):
    """Maps between rectangular operator spaces, Phi(X) = sum A X B^dagger with A: ai -> ao, B: bi -> bo, given by their (rectangular) Choi
    matrix with dims [[ai, ao], [bi, bo]]; local dimensions 1..3 (a 1 next to a partner > 1 included)."""
    from toqito.channel_ops import dual_channel

    ai, ao, bi, bo = (int(v) for v in rng.integers(1, 4, size=4))
    if spec[1] % 3 == 0:  # force a local dimension 1 whose partner on the other side is larger
        which = int(rng.integers(0, 4))
        ai, ao, bi, bo = [(1, ao, max(bi, 2), bo), (ai, 1, bi, max(bo, 2)), (max(ai, 2), ao, 1, bo), (ai, max(ao, 2), bi, 1)][which]
    if ai * ao < 2 or bi * bo < 2:
        return  # a Choi "matrix" with a single row or column is treated as a vector by the library (degenerate, not probed)
    r = int(rng.integers(1, 4))
    a_ops = [gen.rc(rng, ao, ai) for _ in range(r)]
    b_ops = [gen.rc(rng, bo, bi) for _ in range(r)]
    j = ref.choi_of(a_ops, b_ops, ai, bi)
    x, y = gen.rc(rng, ai, bi), gen.rc(rng, ao, bo)
    lhs = hs(y, ref.apply_kraus(x, a_ops, b_ops))
    d = ctx.call(dual_channel, j.copy(), dims=[[ai, ao], [bi, bo]])
    if d is FAILED:
        return
    d = np.asarray(d)
    sig = ("rect-choi", (ai, ao) != (bi, bo), min(ai, ao, bi, bo) == 1)
    det = {"dims": [[ai, ao], [bi, bo]], "r": r}
    if d.shape != (ao * ai, bo * bi):
        ctx.check("O1:adjoint-identity", False, sig=sig, nt=True, mech="dual_channel:rectangular-choi-shape", detail=dict(det, shape=list(d.shape)))
        return
    dual_y = np.einsum("ij,iajb->ab", y, d.reshape(ao, ai, bo, bi))
    ctx.check("O1:adjoint-identity", None, dev=abs(lhs - hs(dual_y, x)) / (1 + abs(lhs)), tol=1e-9, sig=sig, nt=True, mech="dual_channel:adjoint-identity[rectangular-choi]", detail=det)
    want = ref.choi_of([a.conj().T for a in a_ops], [b.conj().T for b in b_ops], ao, bo)
    ctx.check("O1:dual-choi=choi-of-adjoint-kraus", None, dev=float(np.abs(d - want).max()) / (1 + float(np.abs(want).max())), tol=1e-9, sig=sig, nt=True,
              mech="dual_channel:rectangular-choi-differs-from-adjoint-kraus", detail=det)
    ctx.sample("O1:adjoint-identity", det)
