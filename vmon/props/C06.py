"""C06 - channel predicates decide by definition; built-in channels are what they claim."""
from __future__ import annotations

import itertools

import numpy as np

from .. import contracts, gen, ref
from ..core import FAILED, fresh_result

DECIDING = ["pred:is_completely_positive", "pred:is_herm_preserving", "pred:is_trace_preserving", "pred:is_unital", "pred:is_unitary",
            "pred:is_quantum_channel", "pred:is_positive", "pred:choi_rank", "pred:is_extremal",
            "builtin:depolarizing", "builtin:dephasing", "builtin:amplitude_damping", "builtin:phase_damping", "builtin:bitflip",
            "builtin:pauli_channel", "builtin:reduction", "builtin:choi", "builtin:rejects"]
RULE = ("maps with ground truth by construction (Haar-isometry slices = CPTP, mixtures of unitaries = unital, unitary conjugation, CP scaled by "
        "(1+delta), Phi1 - t*Phi2 with lambda_min(J) <= -0.05, generic (A,B) pairs, maps with a witnessed negative output eigenvalue) asked in "
        "every accepted representation form; built-ins on parameter grids incl. end points and just outside; a signature is "
        "(monitor, class, form, d_in, d_out) resp. (builtin, parameter class)")
THOROUGH_REPEAT = 5  # the thorough tier runs its randomised case kinds this many times (new inputs each time)
ASSUMPTIONS = [
    "verdicts are only required where the definition is satisfied to 1e-12 or violated by a margin >= 1e-3 (never in the tolerance band)",
    "is_trace_preserving is asked with (A,B) pairs or a Choi matrix (flat Kraus lists are not an accepted form); is_unital only for d_in = d_out; "
    "is_extremal only with linearly independent Kraus operators (flat / nested) or a Choi matrix with d_in = d_out",
    "positivity test: only 'never accepts a non-positive map' and 'accepts every CP map' are required (positive-but-not-CP is unconstrained)",
]

PAULIS = [np.eye(2), np.array([[0, 1], [1, 0]]), np.array([[0, -1j], [1j, 0]]), np.array([[1, 0], [0, -1]])]


def cases(tier):
    out = []
    n = 300 if tier == "quick" else 60000
    classes = ["cptp", "unital", "unitary", "cp_not_tp", "hp_not_cp", "not_hp", "nonpositive", "extremal", "nonextremal"]
    for r in range(n):
        out.append(("pred", classes[r % len(classes)], r))
    for r in range(40 if tier == "quick" else 8000):
        out.append(("tol", r))
    for name in ["depolarizing", "dephasing", "amplitude_damping", "phase_damping", "bitflip", "pauli_channel", "reduction", "choi"]:
        for r in range(12 if tier == "quick" else 2000):
            out.append(("builtin", name, r))
    return out


def setup(ctx):
    # internal calls of apply_channel / kraus_to_choi (made by the predicates, dual / partial channels ...) are observed as well
    contracts.install(ctx, contracts.CHANNEL_CONTRACTS)


def run(ctx, spec, rng):
    if spec[0] == "pred":
        _run_pred(ctx, spec, rng)
    elif spec[0] == "tol":
        _run_tol(ctx, spec, rng)
    else:
        globals()["_b_" + spec[1]](ctx, spec, rng)


# ----------------------------------------------------------------------------------------- documented tolerance arguments
def _run_tol(ctx, spec, rng):
    """is_trace_preserving / is_unital with the tolerance arguments defaulted and given: sum K^dagger K (resp. Phi(1)) equals (1 + delta) 1, and delta is
    a factor 4 inside / outside the documented numpy.allclose rule |a - b| <= atol + rtol |b| (b = identity), in Kraus-pair and in Choi form."""
    from toqito.channel_props import is_trace_preserving, is_unital

    r = spec[1]
    which = ["tp", "unital"][r % 2]
    cplx = bool((r // 2) % 2)
    label, rtol, atol = [("default", None, None), ("rtol", 1e-2, 1e-12), ("atol", 0.0, 1e-2), ("tight", 1e-9, 1e-12), ("rtol-small", 1e-4, 1e-12)][(r // 4) % 5]
    eff_r, eff_a = (1e-5, 1e-8) if rtol is None else (rtol, atol)
    thr = eff_a + eff_r
    if which == "tp":
        din, dout = int(rng.integers(2, 4)), int(rng.integers(2, 5))
        ops = gen.stinespring_kraus(rng, din, dout, max(-(-din // dout), int(rng.integers(1, 4))), cplx)
    else:
        din = dout = int(rng.integers(2, 4))
        k = int(rng.integers(1, 4))
        w = rng.random(k) + 0.1
        w /= w.sum()
        ops = [np.sqrt(w[i]) * gen.haar(rng, din, real=not cplx) for i in range(k)]
    fn = is_trace_preserving if which == "tp" else is_unital
    for side, factor in (("inside", 0.25), ("outside", 4.0)):
        delta = factor * thr
        scaled = [np.sqrt(1 + delta) * k_ for k_ in ops]
        want = side == "inside"
        forms = {"pairs": [[k_, k_] for k_ in scaled], "choi": ref.choi_of(scaled, scaled, din)}
        for fname, f in forms.items():
            for how in (("default",) if rtol is None else ("keyword", "positional")):
                args, kw = (f,), {}
                if how == "keyword":
                    kw = {"rtol": rtol, "atol": atol}
                elif how == "positional":
                    args = (f, rtol, atol)
                if fname == "choi" and din != dout:
                    kw = dict(kw, dim=[din, dout])
                got = ctx.call(fn, *args, **kw)
                if got is FAILED:
                    continue
                ctx.check("pred:" + fn.__name__, bool(got) == want, sig=("tolerance-rule", label, how, side, fname), nt=True,
                          mech=f"{fn.__name__}:verdict-ignores-documented-tolerance-rule[{label},{how},{fname}]",
                          detail={"predicate": fn.__name__, "form": fname, "rtol": rtol, "atol": atol, "given": how, "delta": delta, "threshold": thr, "want": want, "got": bool(got)})
    ctx.sample("pred:" + fn.__name__, {"class": "tolerance-rule", "tolerances": label, "din": din, "dout": dout})


# ----------------------------------------------------------------------------------------- predicates
def _forms(a_ops, b_ops, din, cp):
    f = {"pairs": [[a, b] for a, b in zip(a_ops, b_ops)], "choi": ref.choi_of(a_ops, b_ops, din)}
    if cp:
        f["flat"] = list(a_ops)
        f["col"] = [[a] for a in a_ops]
        if len(a_ops) > 2:
            f["row"] = [list(a_ops)]
    return f


def _ask(ctx, name, fn, arg, want, sig, detail, **kw):
    got = ctx.call(fn, arg, **kw)
    if got is FAILED:
        return
    ok = (int(got) == want) if isinstance(want, (int, np.integer)) and not isinstance(want, bool) else (bool(got) == want)
    ctx.check("pred:" + name, ok, sig=sig, nt=True, mech=f"{name}:wrong-verdict[{sig[0]}]", detail=dict(detail, got=got, want=want, form=sig[1]))


def _indep_rank(a_ops):
    m = np.array([a.reshape(-1) for a in a_ops])
    s = np.linalg.svd(m, compute_uv=False)
    return s


def _run_pred(ctx, spec, rng):
    from toqito.channel_props import (choi_rank, is_completely_positive, is_extremal, is_herm_preserving, is_positive,
                                      is_quantum_channel, is_trace_preserving, is_unital, is_unitary)

    cls = spec[1]
    cplx = bool(rng.integers(0, 2))
    din = int(rng.integers(2, 5))
    dout = din
    truth = {}
    if cls == "cptp":
        dout = int(rng.integers(2, 5))
        r = int(rng.integers(max(1, -(-din // dout)), 4))
        r = max(r, -(-din // dout))
        if spec[2] % 4 == 1:  # a proper isometry as the only Kraus operator: a channel, but not a unitary one
            dout, r = din + int(rng.integers(1, 3)), 1
        a_ops = gen.stinespring_kraus(rng, din, dout, r, cplx)
        b_ops = a_ops
        truth = dict(cp=True, hp=True, tp=True, qc=True, pos=True)
        if r == 1 and dout != din:
            truth["unitary"] = False
        s = _indep_rank(a_ops)
        if s.min() > 1e-2:
            truth["rank"] = len(a_ops)
    elif cls == "unital":
        k = int(rng.integers(2, 4))
        w = rng.random(k) + 0.2
        w /= w.sum()
        a_ops = [np.sqrt(w[i]) * gen.haar(rng, din, real=not cplx) for i in range(k)]
        b_ops = a_ops
        truth = dict(cp=True, hp=True, tp=True, qc=True, pos=True, unital=True, unitary=False)
    elif cls == "unitary":
        a_ops = [gen.haar(rng, din, real=not cplx)]
        b_ops = a_ops
        truth = dict(cp=True, hp=True, tp=True, qc=True, pos=True, unital=True, unitary=True, rank=1, extremal=True)
    elif cls == "cp_not_tp":
        delta = float(rng.choice([1e-3, 1e-2, 0.1, 0.5]))
        a_ops = [(1 + delta) * k for k in gen.stinespring_kraus(rng, din, din, int(rng.integers(1, 4)), cplx)]
        b_ops = a_ops
        truth = dict(cp=True, hp=True, tp=False, qc=False, pos=True, unitary=False)
    elif cls == "hp_not_cp":
        a1 = gen.stinespring_kraus(rng, din, din, 2, cplx)
        a2 = gen.stinespring_kraus(rng, din, din, 2, cplx)
        t = 0.6
        a_ops = a1 + [np.sqrt(t) * k for k in a2]
        b_ops = a1 + [-np.sqrt(t) * k for k in a2]
        j = ref.choi_of(a_ops, b_ops, din)
        if ref.eigmin(j) > -0.05:
            return ctx.note_inconclusive("hp_not_cp-margin-too-small")
        truth = dict(cp=False, hp=True, qc=False, unitary=False)
    elif cls == "not_hp":
        r = int(rng.integers(1, 3))
        a_ops = [gen.rc(rng, din, din) for _ in range(r)]
        b_ops = [gen.rc(rng, din, din) for _ in range(r)]
        variant = (spec[2] // 9) % 3
        if variant:
            # structured instead of generic non-Hermiticity: a completely positive map plus (1) i c Tr(X) 1, whose Choi matrix is non-Hermitian on
            # its DIAGONAL only, or (2) one term sqrt(c)|k><i| X (sqrt(c)|l><j|)^dagger, which changes a single off-diagonal entry of the Choi matrix
            ks = [gen.rc(rng, din, din) for _ in range(r)]
            c_ = float(rng.choice([0.05, 0.2, 1.0]))
            if variant == 1:
                units = [np.outer(np.eye(din)[a_], np.eye(din)[b_]).astype(complex) for a_ in range(din) for b_ in range(din)]
                a_ops = ks + [np.sqrt(c_) * e_ for e_ in units]
                b_ops = ks + [-1j * np.sqrt(c_) * e_ for e_ in units]
            else:
                i_, j_, k_, l_ = (int(v) for v in rng.integers(0, din, size=4))
                if (i_, k_) == (j_, l_):
                    l_ = (l_ + 1) % din
                a_ops = ks + [np.sqrt(c_) * np.outer(np.eye(din)[k_], np.eye(din)[i_]).astype(complex)]
                b_ops = ks + [np.sqrt(c_) * np.outer(np.eye(din)[l_], np.eye(din)[j_]).astype(complex)]
        j = ref.choi_of(a_ops, b_ops, din)
        if float(np.abs(j - j.conj().T).max()) < 1e-2:
            return ctx.note_inconclusive("not_hp-margin")
        truth = dict(cp=False, hp=False, qc=False, pos=False)
    elif cls == "nonpositive":
        # X -> X - t * U X U^dagger has a negative output on an eigenvector-aligned input; witness computed explicitly
        u = gen.haar(rng, din, real=not cplx)
        t = 0.8
        a_ops = [np.eye(din, dtype=complex), np.sqrt(t) * u]
        b_ops = [np.eye(din, dtype=complex), -np.sqrt(t) * u]
        worst = 0.0
        for _ in range(200):
            v = gen.unit(rng, din)
            worst = min(worst, ref.eigmin(ref.apply_kraus(np.outer(v, v.conj()), a_ops, b_ops)))
        if worst > -0.05:
            return ctx.note_inconclusive("nonpositive-no-witness")
        truth = dict(cp=False, pos=False, hp=True, qc=False)
    elif cls == "extremal":
        # r linearly independent Kraus operators with r^2 <= d^2 and {A_i^dagger A_j} independent by a measured margin
        r = int(rng.integers(1, din + 1)) if din <= 3 else int(rng.integers(1, 3))
        a_ops = gen.stinespring_kraus(rng, din, din, r, cplx)
        b_ops = a_ops
        m = np.column_stack([(a.conj().T @ b).reshape(-1) for a in a_ops for b in a_ops])
        s = np.linalg.svd(m, compute_uv=False)
        if len(s) < r * r or s.min() < 1e-3 * s.max():
            return ctx.note_inconclusive("extremal-margin")
        truth = dict(cp=True, tp=True, qc=True, extremal=True, rank=r)
    elif cls == "nonextremal":
        k = int(rng.integers(2, 4))
        w = rng.random(k) + 0.2
        w /= w.sum()
        us = [gen.haar(rng, din, real=not cplx) for _ in range(k)]
        a_ops = [np.sqrt(w[i]) * us[i] for i in range(k)]
        b_ops = a_ops
        if _indep_rank(a_ops).min() < 1e-2:
            return ctx.note_inconclusive("nonextremal-dependent-kraus")
        truth = dict(extremal=False, qc=True, rank=k)
    # Choi rank of every class (also non-Hermiticity-preserving maps): model rank of the model Choi matrix, decided only with a clear gap
    sv = np.linalg.svd(ref.choi_of(a_ops, b_ops, din), compute_uv=False)
    big = sv[sv > 1e-6 * sv[0]]
    if "rank" not in truth and len(big) and (len(big) == len(sv) or sv[len(big)] < 1e-10 * sv[0]):
        truth["rank"] = int(len(big))
    cp_forms = truth.get("cp", False) or cls in ("extremal", "nonextremal")
    forms = _forms(a_ops, b_ops, din, cp_forms)
    det = {"class": cls, "din": din, "dout": dout, "r": len(a_ops), "complex": cplx}
    ctx.sample("pred:" + cls, det)
    for fname, f in forms.items():
        sig = (cls, fname, din, dout)
        if "cp" in truth:
            _ask(ctx, "is_completely_positive", is_completely_positive, f, truth["cp"], sig, det)
        if "hp" in truth:
            _ask(ctx, "is_herm_preserving", is_herm_preserving, f, truth["hp"], sig, det)
        if "pos" in truth:
            _ask(ctx, "is_positive", is_positive, f, truth["pos"], sig, det)
        if "qc" in truth and (din == dout or fname != "choi"):
            _ask(ctx, "is_quantum_channel", is_quantum_channel, f, truth["qc"], sig, det)
        if "rank" in truth:
            _ask(ctx, "choi_rank", choi_rank, f, int(truth["rank"]), sig, det)
        if "tp" in truth and fname in ("pairs", "choi"):
            if fname == "choi" and din != dout:
                _ask(ctx, "is_trace_preserving", is_trace_preserving, f, truth["tp"], sig, det, dim=[din, dout])
            else:
                _ask(ctx, "is_trace_preserving", is_trace_preserving, f, truth["tp"], sig, det)
        if "unital" in truth and din == dout:
            _ask(ctx, "is_unital", is_unital, f, truth["unital"], sig, det)
        if "unitary" in truth and (din == dout or fname != "choi"):
            _ask(ctx, "is_unitary", is_unitary, f, truth["unitary"], sig, det)
        if "extremal" in truth and fname in ("flat", "col", "choi") and din == dout:
            _ask(ctx, "is_extremal", is_extremal, f, truth["extremal"], sig, det)
    # unital negatives: a CPTP map that is measurably non-unital
    if cls == "cptp" and din == dout:
        gap = float(np.abs(ref.apply_kraus(np.eye(din), a_ops) - np.eye(din)).max())
        if gap > 1e-3:
            for fname, f in forms.items():
                _ask(ctx, "is_unital", is_unital, f, False, ("cptp-nonunital", fname, din, dout), det)


# ----------------------------------------------------------------------------------------- built-ins
def _rel(a, b):
    a, b = np.asarray(a), np.asarray(b)
    if a.shape != b.shape:
        return float("inf")
    return float(np.abs(a - b).max()) / (1 + float(np.abs(b).max()))


def _choi_of_formula(fn, d):
    j = np.zeros((d * d, d * d), dtype=complex)
    for i in range(d):
        for k in range(d):
            e = np.zeros((d, d))
            e[i, k] = 1
            j += np.kron(e, fn(e))
    return j


def _param(rng, r):
    grid = [0.0, 1.0, 0.5, 1e-6, 1 - 1e-6, 0.25, 0, 1]  # the end points also as Python ints (depolarizing(2, 1) is an ordinary call)
    return grid[r] if r < len(grid) else float(rng.random())


def _check_choi_builtin(ctx, name, j_lib, formula, d, pcls, cptp=None, unital=None, cp=None, detail=None):
    from toqito.channel_ops import apply_channel
    from toqito.channel_props import is_completely_positive, is_quantum_channel, is_unital

    mon = "builtin:" + name
    j_lib = j_lib.toarray() if hasattr(j_lib, "toarray") else np.asarray(j_lib)
    ctx.check(mon, None, dev=_rel(j_lib, _choi_of_formula(formula, d)), tol=1e-10, sig=(name, "choi=formula", pcls, d), mech=f"{name}:choi-vs-formula", detail=detail)
    x = gen.rc(np.random.default_rng(d), d, d)
    y = ctx.call(apply_channel, x, j_lib)
    if y is not FAILED:
        ctx.check(mon, None, dev=_rel(y, formula(x)), tol=1e-10, sig=(name, "apply=formula", pcls, d), mech=f"{name}:action-vs-formula", detail=detail)
    if cptp is not None:
        v = ctx.call(is_quantum_channel, j_lib)
        if v is not FAILED:
            ctx.check(mon, bool(v) == cptp, sig=(name, "cptp", pcls), mech=f"{name}:cptp-verdict", detail=detail)
    if unital is not None:
        v = ctx.call(is_unital, j_lib)
        if v is not FAILED:
            ctx.check(mon, bool(v) == unital, sig=(name, "unital", pcls), mech=f"{name}:unital-verdict", detail=detail)
    if cp is not None:
        v = ctx.call(is_completely_positive, j_lib)
        if v is not FAILED:
            ctx.check(mon, bool(v) == cp, sig=(name, "cp", pcls), mech=f"{name}:cp-verdict", detail=detail)


def _operand(rng, d, r):
    """Input operator of a built-in channel: density matrices, but also generic non-Hermitian operators and matrix units (all input operators)."""
    k = r % 4
    if k == 0:
        return gen.density(rng, d)
    if k == 1:
        return gen.rc(rng, d, d)
    if k == 2:
        m = np.zeros((d, d), dtype=complex)
        i, j = int(rng.integers(0, d)), int(rng.integers(0, d))
        m[i, j] = 1
        return m
    return gen.density(rng, d, 1, False).real


def _b_depolarizing(ctx, spec, rng):
    from toqito.channels import depolarizing

    d = int(rng.integers(2, 5))
    p = _param(rng, spec[2])
    fresh_result(ctx, "builtin:depolarizing", depolarizing, (d, p))
    j = ctx.call(depolarizing, d, p)
    if j is FAILED:
        return
    _check_choi_builtin(ctx, "depolarizing", j, lambda x: (1 - p) * np.trace(x) * np.eye(d) / d + p * x, d, ("p", round(p, 3)), cptp=True, unital=True,
                        detail={"d": d, "p": p})
    ctx.sample("builtin:depolarizing", {"d": d, "p": p})
    j0 = ctx.call(depolarizing, d)
    if j0 is not FAILED:
        ctx.check("builtin:depolarizing", None, dev=_rel(j0, np.eye(d * d) / d), tol=1e-12, sig=("depolarizing", "default"), mech="depolarizing:default", detail={"d": d})


def _b_dephasing(ctx, spec, rng):
    from toqito.channels import dephasing

    d = int(rng.integers(2, 5))
    p = _param(rng, spec[2])
    fresh_result(ctx, "builtin:dephasing", dephasing, (d, p))
    j = ctx.call(dephasing, d, p)
    if j is FAILED:
        return
    _check_choi_builtin(ctx, "dephasing", j, lambda x: (1 - p) * np.diag(np.diag(x)) + p * x, d, ("p", round(p, 3)), cptp=True, unital=True, detail={"d": d, "p": p})
    ctx.sample("builtin:dephasing", {"d": d, "p": p})


def _kraus_builtin(ctx, name, kraus, formula, pcls, detail, unital):
    from toqito.channel_ops import kraus_to_choi
    from toqito.channel_props import is_quantum_channel, is_unital

    mon = "builtin:" + name
    x = gen.rc(np.random.default_rng(7), 2, 2)
    ctx.check(mon, None, dev=_rel(ref.apply_kraus(x, kraus), formula(x)), tol=1e-10, sig=(name, "kraus=formula", pcls), mech=f"{name}:kraus-vs-formula", detail=detail)
    j = ctx.call(kraus_to_choi, list(kraus))
    if j is not FAILED:
        ctx.check(mon, None, dev=_rel(j, _choi_of_formula(formula, 2)), tol=1e-10, sig=(name, "choi=formula", pcls), mech=f"{name}:choi-vs-formula", detail=detail)
    v = ctx.call(is_quantum_channel, list(kraus))
    if v is not FAILED:
        ctx.check(mon, bool(v), sig=(name, "cptp", pcls), mech=f"{name}:not-cptp", detail=detail)
    tp = float(np.abs(sum(k.conj().T @ k for k in kraus) - np.eye(2)).max())
    ctx.check(mon, None, dev=tp, tol=1e-12, sig=(name, "model-tp", pcls), mech=f"{name}:kraus-not-complete", detail=detail)
    if unital is not None:
        v = ctx.call(is_unital, list(kraus))
        if v is not FAILED:
            ctx.check(mon, bool(v) == unital, sig=(name, "unital", pcls), mech=f"{name}:unital-verdict", detail=detail)


def _reject(ctx, name, fn, *args, what):
    res = ctx.call(fn, *args, expect=(ValueError,))
    if res is FAILED:
        return
    ctx.check("builtin:rejects", isinstance(res, ValueError), sig=(name, what), mech=f"{name}:accepts-{what}", detail={"args": args, "returned": res})


def _b_amplitude_damping(ctx, spec, rng):
    from toqito.channels import amplitude_damping

    g, p = _param(rng, spec[2]), _param(rng, (spec[2] * 5 + 2) % 9)
    s = np.sqrt(1 - g)

    def formula(x):
        return np.array([[p * (x[0, 0] + g * x[1, 1]) + (1 - p) * (1 - g) * x[0, 0], s * x[0, 1]],
                         [s * x[1, 0], p * (1 - g) * x[1, 1] + (1 - p) * (x[1, 1] + g * x[0, 0])]])

    kraus = ctx.call(amplitude_damping, None, g, p)
    det = {"gamma": g, "prob": p}
    if kraus is not FAILED:
        unital = None
        if g > 1e-3 and abs(p - 0.5) > 1e-3:
            unital = False
        elif g == 0 or p == 0.5:
            unital = True
        _kraus_builtin(ctx, "amplitude_damping", kraus, formula, ("g", round(g, 3), "p", round(p, 3)), det, unital)
    rho = _operand(rng, 2, spec[2] if isinstance(spec[2], int) else int(rng.integers(0, 4)))
    y = ctx.call(amplitude_damping, rho, g, p)
    if y is not FAILED:
        ctx.check("builtin:amplitude_damping", None, dev=_rel(y, formula(rho)), tol=1e-10, sig=("amplitude_damping", "direct"), mech="amplitude_damping:direct-vs-formula", detail=det)
        ctx.sample("builtin:amplitude_damping", det)
    eps = float(rng.choice([1e-6, 0.05, 1.0]))
    _reject(ctx, "amplitude_damping", amplitude_damping, None, -eps, 0.5, what="gamma<0")
    _reject(ctx, "amplitude_damping", amplitude_damping, None, 1 + eps, 0.5, what="gamma>1")
    _reject(ctx, "amplitude_damping", amplitude_damping, None, 0.5, -eps, what="prob<0")
    _reject(ctx, "amplitude_damping", amplitude_damping, None, 0.5, 1 + eps, what="prob>1")
    _reject(ctx, "amplitude_damping", amplitude_damping, np.eye(3) / 3, 0.5, 0.5, what="non-2x2")
    _reject(ctx, "amplitude_damping", amplitude_damping, np.eye(2) / 2, -eps, 0.5, what="gamma<0[input-given]")
    _reject(ctx, "amplitude_damping", amplitude_damping, np.eye(2) / 2, 1 + eps, 0.5, what="gamma>1[input-given]")
    _reject(ctx, "amplitude_damping", amplitude_damping, np.eye(2) / 2, 0.5, -eps, what="prob<0[input-given]")
    _reject(ctx, "amplitude_damping", amplitude_damping, np.eye(2) / 2, 0.5, 1 + eps, what="prob>1[input-given]")


def _b_phase_damping(ctx, spec, rng):
    from toqito.channels import phase_damping

    g = _param(rng, spec[2])
    s = np.sqrt(1 - g)

    def formula(x):
        return np.array([[x[0, 0], s * x[0, 1]], [s * x[1, 0], x[1, 1]]])

    det = {"gamma": g}
    kraus = ctx.call(phase_damping, None, g)
    if kraus is not FAILED:
        _kraus_builtin(ctx, "phase_damping", kraus, formula, ("g", round(g, 3)), det, True)
    rho = _operand(rng, 2, spec[2] if isinstance(spec[2], int) else int(rng.integers(0, 4)))
    y = ctx.call(phase_damping, rho, g)
    if y is not FAILED:
        ctx.check("builtin:phase_damping", None, dev=_rel(y, formula(rho)), tol=1e-10, sig=("phase_damping", "direct"), mech="phase_damping:direct-vs-formula", detail=det)
        ctx.sample("builtin:phase_damping", det)
    eps = float(rng.choice([1e-6, 0.05, 1.0]))
    _reject(ctx, "phase_damping", phase_damping, None, -eps, what="gamma<0")
    _reject(ctx, "phase_damping", phase_damping, None, 1 + eps, what="gamma>1")
    _reject(ctx, "phase_damping", phase_damping, np.eye(3) / 3, 0.5, what="non-2x2")
    _reject(ctx, "phase_damping", phase_damping, np.eye(2) / 2, -eps, what="gamma<0[input-given]")
    _reject(ctx, "phase_damping", phase_damping, np.eye(2) / 2, 1 + eps, what="gamma>1[input-given]")


def _b_bitflip(ctx, spec, rng):
    from toqito.channels import bitflip

    p = _param(rng, spec[2])
    xg = PAULIS[1]

    def formula(x):
        return (1 - p) * x + p * xg @ x @ xg

    det = {"prob": p}
    kraus = ctx.call(bitflip, None, p)
    if kraus is not FAILED:
        _kraus_builtin(ctx, "bitflip", kraus, formula, ("p", round(p, 3)), det, True)
    rho = _operand(rng, 2, spec[2] if isinstance(spec[2], int) else int(rng.integers(0, 4)))
    y = ctx.call(bitflip, rho, p)
    if y is not FAILED:
        ctx.check("builtin:bitflip", None, dev=_rel(y, formula(rho)), tol=1e-10, sig=("bitflip", "direct"), mech="bitflip:direct-vs-formula", detail=det)
        ctx.sample("builtin:bitflip", det)
    eps = float(rng.choice([1e-6, 0.05, 1.0]))
    _reject(ctx, "bitflip", bitflip, None, -eps, what="prob<0")
    _reject(ctx, "bitflip", bitflip, None, 1 + eps, what="prob>1")
    _reject(ctx, "bitflip", bitflip, np.eye(3) / 3, 0.5, what="non-2x2")
    _reject(ctx, "bitflip", bitflip, np.eye(2) / 2, -eps, what="prob<0[input-given]")
    _reject(ctx, "bitflip", bitflip, np.eye(2) / 2, 1 + eps, what="prob>1[input-given]")


def _b_pauli_channel(ctx, spec, rng):
    from toqito.channels import pauli_channel

    q = 1 if spec[2] % 3 else 2
    n = 4 ** q
    prob = rng.random(n)
    if spec[2] % 4 == 0:
        prob[int(rng.integers(0, n))] = 0.0
    prob /= prob.sum()
    ops = [ref.kron_all([PAULIS[i] for i in idx]) for idx in itertools.product(range(4), repeat=q)]  # documented lexicographic order

    def formula(x):
        return sum(prob[j] * ops[j] @ x @ ops[j].conj().T for j in range(n))

    d = 2 ** q
    det = {"q": q, "prob": prob}
    rho = gen.density(rng, d)
    parg = prob if spec[2] % 2 else list(prob)
    res = ctx.call(pauli_channel, parg, True, rho)
    if res is not FAILED:
        phi, out, kraus = res
        _check_choi_builtin(ctx, "pauli_channel", phi, formula, d, ("q", q), cptp=True, unital=True, detail=det)
        ctx.check("builtin:pauli_channel", None, dev=_rel(out, formula(rho)), tol=1e-10, sig=("pauli_channel", "direct", q), mech="pauli_channel:direct-vs-formula", detail=det)
        ctx.check("builtin:pauli_channel", None, dev=_rel(ref.apply_kraus(rho, list(kraus)), formula(rho)), tol=1e-10, sig=("pauli_channel", "kraus", q),
                  mech="pauli_channel:kraus-vs-formula", detail=det)
        ctx.sample("builtin:pauli_channel", det)
    bad = prob.copy()
    bad[0] += 0.01
    _reject(ctx, "pauli_channel", pauli_channel, bad, what="sum!=1")
    neg = prob.copy()
    neg[0], neg[1] = -0.1, neg[1] + neg[0] + 0.1
    _reject(ctx, "pauli_channel", pauli_channel, neg, what="negative")
    _reject(ctx, "pauli_channel", pauli_channel, bad, False, np.eye(d) / d, what="sum!=1[input-given]")
    _reject(ctx, "pauli_channel", pauli_channel, neg, True, np.eye(d) / d, what="negative[input-given]")
    for m in (3, 5, 8):
        w = np.full(m, 1.0 / m)
        _reject(ctx, "pauli_channel", pauli_channel, w, what=f"length-{m}")


def _b_reduction(ctx, spec, rng):
    from toqito.channel_props import is_herm_preserving
    from toqito.channels import reduction

    d = int(rng.integers(2, 5))
    k = [1, d, d + 1, 2][spec[2] % 4]
    fresh_result(ctx, "builtin:reduction", reduction, (d, k))
    j = ctx.call(reduction, d, k)
    if j is FAILED:
        return
    det = {"d": d, "k": k}
    cp = True if k >= d else (False if k <= d - 1 else None)
    _check_choi_builtin(ctx, "reduction", j, lambda x: k * np.trace(x) * np.eye(d) - x, d, ("k-vs-d", int(np.sign(k - d))), cp=cp, detail=det)
    v = ctx.call(is_herm_preserving, np.asarray(j))
    if v is not FAILED:
        ctx.check("builtin:reduction", bool(v), sig=("reduction", "hp"), mech="reduction:not-hp", detail=det)
    if k == 1:  # positive (textbook): outputs on pure inputs are PSD, checked on the library's Choi matrix through the model application
        worst = min(ref.eigmin(ref.apply_choi(np.outer(v_, v_.conj()), np.asarray(j), d, d)) for v_ in (gen.unit(rng, d) for _ in range(20)))
        ctx.check("builtin:reduction", worst >= -1e-12, sig=("reduction", "positive"), mech="reduction:not-positive", detail=dict(det, worst=worst))
    j0 = ctx.call(reduction, d)
    if j0 is not FAILED:
        ctx.check("builtin:reduction", None, dev=_rel(j0, _choi_of_formula(lambda x: np.trace(x) * np.eye(d) - x, d)), tol=1e-12, sig=("reduction", "default"),
                  mech="reduction:default-k", detail=det)
    ctx.sample("builtin:reduction", det)


def _b_choi(ctx, spec, rng):
    from toqito.channel_props import is_completely_positive, is_herm_preserving
    from toqito.channels import choi

    if spec[2] == 0:
        a, b, c = 1, 1, 0
        j = ctx.call(choi)
    else:
        # every parameter independently a Python int, a Python float or a NumPy float (an integer first parameter with fractional
        # others is an ordinary call: choi(1, 0.5, 0.5)); spec[2] % 4 == 1 keeps the all-integer class, == 3 the all-float class
        kinds = {1: "iii", 3: "fff"}.get(spec[2] % 4) or "".join(rng.choice(list("ifn"), size=3))
        if spec[2] % 4 == 2:
            kinds = "i" + "".join(rng.choice(list("fn"), size=2))
        a, b, c = ({"i": int(rng.integers(0, 4)), "f": float(rng.random() * 3), "n": np.float64(rng.integers(1, 12) / 4)}[k_] for k_ in kinds)
        j = ctx.call(choi, a, b, c)
    if j is FAILED:
        return
    rows = [(a + 1, c, b), (b, a + 1, c), (c, b, a + 1)]

    def formula(x):
        return sum(x[i, i] * np.diag(rows[i]) for i in range(3)) - x

    det = {"a": a, "b": b, "c": c}
    _check_choi_builtin(ctx, "choi", j, formula, 3, ("default" if spec[2] == 0 else "abc",), detail=det)
    v = ctx.call(is_herm_preserving, np.asarray(j))
    if v is not FAILED:
        ctx.check("builtin:choi", bool(v), sig=("choi", "hp"), mech="choi:not-hp", detail=det)
    if (a, b, c) == (1, 1, 0):  # the Choi map: positive, not completely positive
        v = ctx.call(is_completely_positive, np.asarray(j))
        if v is not FAILED:
            ctx.check("builtin:choi", not bool(v), sig=("choi", "not-cp"), mech="choi:default-declared-cp", detail=det)
        worst = min(ref.eigmin(ref.apply_choi(np.outer(v_, v_.conj()), np.asarray(j), 3, 3)) for v_ in (gen.unit(rng, 3) for _ in range(50)))
        ctx.check("builtin:choi", worst >= -1e-12, sig=("choi", "positive"), mech="choi:default-not-positive", detail=dict(det, worst=worst))
    ctx.sample("builtin:choi", det)
