"""C01 - subsystem permutation is exactly tensor-factor relabelling (DESIGN.md section 4, C01)."""
from __future__ import annotations

import itertools

import numpy as np

from .. import contracts, gen, ref

DECIDING = ["O1:tiny-entries", "contract:permute_systems", "O2:product-form", "O3:inverse-undoes", "O4:row-only=P.X", "contract:swap",
            "contract:permutation_operator", "O5:swap_operator", "O6:sparse=dense", "O1:omitted-dim", "H1:repeat-call", "O1:many-subsystems", "O1:large"]
RULE = ("cases = every permutation of n<=4 subsystems (random ones for n=5,6) x random independent row/column local "
        "dimensions in 1..4 x flags x dtype x memory layout x dim calling form, entries are unique ids; a signature is "
        "(monitor, kind, n, flags, rectangular?) and is non-trivial when the permutation is not the identity; plus 9..13 subsystems (most of local "
        "dimension 1 or 2), omitted-dim calls with inexact integer roots, and repeat calls with the same ndarray index objects")
CASE_TIMEOUT = {"quick": 240, "thorough": 3000}
THOROUGH_REPEAT = 4  # the thorough tier runs its randomised case kinds this many times (new inputs each time)
ASSUMPTIONS = [
    "reference model = NumPy C-order reshape/transpose of the (row dims + col dims) tensor; exact comparison (array_equal)",
    "2-D row vectors are outside the quantifier (library rejects them by design)",
    "cvxpy/object operands are observed for shape only (counted as symbolic, never deciding)",
    "sizes up to 4096 entries, n <= 5 (thorough: 6)",
]


def cases(tier):
    out = []
    reps = 3 if tier == "quick" else 300
    for n in (2, 3, 4):
        for perm in itertools.permutations(range(n)):
            for r in range(reps if n < 4 else max(1, reps // 2)):
                out.append(("mat", n, perm, r))
                out.append(("vec", n, perm, r))
    nrand = 40 if tier == "quick" else 12000
    for r in range(nrand):
        out.append(("mat", 5 if (tier == "quick" or r % 3) else 6, None, r))
        out.append(("vec", 5 if (tier == "quick" or r % 3) else 6, None, r))
    for r in range(60 if tier == "quick" else 20000):
        out.append(("swap", r))
    for r in range(40 if tier == "quick" else 12000):
        out.append(("permop", r))
    for r in range(30 if tier == "quick" else 6000):
        out.append(("sparse", r))
    for r in range(30 if tier == "quick" else 4000):
        out.append(("internal", r))
    for d, n in ((4, 3), (5, 3), (6, 3), (3, 4), (7, 3), (2, 6), (3, 5), (10, 3)):
        out.append(("nodim", d, n))
    for r in range(40 if tier == "quick" else 4000):
        out.append(("repeat", r))
    for r in range(48 if tier == "quick" else 4000):
        out.append(("many", r))
    for r in range(48 if tier == "quick" else 6000):
        out.append(("tiny", r))
    for r in range(24 if tier == "quick" else 1500):
        out.append(("large", r))
    if tier == "thorough":
        out.append(("suite", 0))
    return out


def setup(ctx):
    contracts.install(ctx)


def _dimform(rng, dr, dc, x):
    """Pick one accepted calling form of ``dim`` for a matrix."""
    n = len(dr)
    forms = ["list2", "nd2"]
    if dr == dc:
        forms += ["list1", "nd1"]
        if len(set(dr)) == 1 and dr[0] ** n == x.shape[0]:
            forms.append("none")
    f = forms[int(rng.integers(0, len(forms)))]
    if f == "list2":
        return f, [list(dr), list(dc)]
    if f == "nd2":
        return f, np.array([dr, dc])
    if f == "list1":
        return f, list(dr)
    if f == "nd1":
        return f, np.array(dr)
    return f, None


def run(ctx, spec, rng):
    kind = spec[0]
    globals()["_run_" + kind](ctx, spec, rng)


def _perm_of(spec, rng):
    n = spec[1]
    return list(spec[2]) if spec[2] is not None else [int(v) for v in rng.permutation(n)]


def tiny_operand(rng, rows, cols, r):
    """Operands whose entries are tiny in absolute terms, or whose off-diagonal part is: moving entries is exact, whatever their size."""
    kind = r % 4
    g = rng.normal(size=(rows, cols)) + (1j * rng.normal(size=(rows, cols)) if (r // 4) % 2 else 0)
    if kind == 0:
        return "tiny-overall", g * 10.0 ** -int(rng.integers(9, 14))
    if kind == 1:
        x = g * 10.0 ** -int(rng.integers(9, 13))
        k = min(rows, cols)
        x[np.arange(k), np.arange(k)] = rng.normal(size=k) + 2
        return "order-one-diagonal-tiny-rest", x
    if kind == 2:
        x = g * 1e-9
        x[int(rng.integers(0, rows)), int(rng.integers(0, cols))] = 1.0
        return "one-large-entry-tiny-rest", x
    x = np.zeros((rows, cols), dtype=g.dtype)
    k = min(rows, cols)
    x[np.arange(k), np.arange(k)] = rng.normal(size=k)
    x[int(rng.integers(0, rows)), int(rng.integers(0, cols))] += 1e-11
    return "diagonal-plus-one-tiny-entry", x


def _run_tiny(ctx, spec, rng):
    """Entries of absolute size 1e-9 .. 1e-13 (overall, or everywhere off the diagonal): a relabelling moves them like any other entry."""
    from toqito.perms import permute_systems, swap

    r = spec[1]
    n = 2 + r % 3
    d = gen.dims(rng, n, 1, 3, max_total=36)
    big = int(np.prod(d))
    perm = [int(v) for v in rng.permutation(n)]
    inv = bool((r // 3) % 2)
    cls, x = tiny_operand(rng, big, big, r)
    res = ctx.call(permute_systems, x.copy(), perm, list(d), False, inv)
    if res is not ctx_failed():
        want = ref.permute(x, perm, d, d, inv)
        ctx.check("O1:tiny-entries", np.shape(res) == want.shape and np.array_equal(res, want), sig=("permute", cls, n, inv, x.dtype.kind), nt=perm != sorted(perm),
                  mech=f"permute_systems:tiny-entries-not-moved[{cls}]", detail={"d": d, "perm": perm, "inv": inv, "x": x, "got": res})
    if n >= 2:
        i, j = (int(v) for v in rng.permutation(n)[:2])
        res = ctx.call(swap, x.copy(), [i + 1, j + 1], list(d))
        if res is not ctx_failed():
            p2 = list(range(n))
            p2[i], p2[j] = p2[j], p2[i]
            want = ref.permute(x, p2, d, d)
            ctx.check("O1:tiny-entries", np.shape(res) == want.shape and np.array_equal(res, want), sig=("swap", cls, n, x.dtype.kind), nt=d[i] * d[j] > 1,
                      mech=f"swap:tiny-entries-not-moved[{cls}]", detail={"d": d, "sys": [i + 1, j + 1], "x": x, "got": res})
    ctx.sample("O1:tiny-entries", {"class": cls, "dims": d, "perm": perm})


def _run_many(ctx, spec, rng):
    """Nine to thirteen subsystems (the operators stay small because most local dimensions are 1 or 2)."""
    from toqito.perms import permute_systems, swap

    d = gen.many_dims(rng, cap=256 if ctx.tier == "quick" else 1024)
    n = len(d)
    big = int(np.prod(d))
    perm = [int(v) for v in rng.permutation(n)]
    inv = bool(rng.integers(0, 2))
    vec = rng.random() < 0.3
    x = gen.unique_ids((big,) if vec else (big, big), "ifc"[int(rng.integers(0, 3))])
    res = ctx.call(permute_systems, x, perm if rng.random() < 0.5 else np.array(perm), list(d) if rng.random() < 0.5 else np.array(d), False, inv)
    if res is not ctx_failed():
        want = ref.permute_vec(x, perm, d, inv) if vec else ref.permute(x, perm, d, d, inv)
        ctx.check("O1:many-subsystems", np.shape(res) == want.shape and np.array_equal(res, want), sig=("permute", n, vec, inv), nt=True,
                  mech="permute_systems:many-subsystems", detail={"d": d, "perm": perm, "inv": inv, "vector": vec})
    i, j = (int(v) for v in rng.permutation(n)[:2])
    y = gen.unique_ids((big, big), "ifc"[int(rng.integers(0, 3))])
    res = ctx.call(swap, y, [i + 1, j + 1], list(d))
    if res is not ctx_failed():
        p2 = list(range(n))
        p2[i], p2[j] = p2[j], p2[i]
        want = ref.permute(y, p2, d, d)
        ctx.check("O1:many-subsystems", np.shape(res) == want.shape and np.array_equal(res, want), sig=("swap", n, d[i] != d[j]), nt=d[i] != d[j],
                  mech="swap:many-subsystems", detail={"d": d, "sys": [i + 1, j + 1]})
    ctx.sample("O1:many-subsystems", {"dims": d, "perm": perm})


def _large_dims(rng, lo, hi, n):
    """n non-uniform local dimensions (2..17) whose product lies in [lo, hi]."""
    while True:
        d = [int(v) for v in rng.integers(2, 18, size=n)]
        if lo <= int(np.prod(d)) <= hi and len(set(d)) > 1:
            return d


def _run_large(ctx, spec, rng):
    """Sizes beyond every plausible size threshold inside the library (more than 1024 entries per side, more than 4096 entries in all, operators
    larger than 64 x 64), with non-uniform local dimensions and non-involutive permutations: an implementation that switches to another
    algorithm for large inputs is only exercised here.  Unique-id entries, exact comparison with the tensor-axis model."""
    from toqito.perms import permutation_operator, permute_systems, swap

    r = spec[1]
    n = 3 if r % 2 else 4
    kind = ["vec", "square", "rect", "vec-col"][r % 4]
    perm = [int(v) for v in rng.permutation(n)]
    while perm == sorted(perm) or [perm[i] for i in perm] == list(range(n)):
        perm = [int(v) for v in rng.permutation(n)]  # neither the identity nor an involution
    inv = bool((r // 4) % 2)
    dt = "ifc"[int(rng.integers(0, 3))]
    if kind.startswith("vec"):
        d = _large_dims(rng, 1025, 6000, n)
        x = gen.unique_ids((int(np.prod(d)),), dt)
        arg = x.reshape(-1, 1) if kind == "vec-col" else x
        res = ctx.call(permute_systems, arg, list(perm), list(d), False, inv)
        if res is not ctx_failed():
            want = ref.permute_vec(x, perm, d, inv)
            ctx.check("O1:large", np.array_equal(np.asarray(res).reshape(-1), want.reshape(-1)), sig=("vec", n, inv, dt, kind), nt=True, mech="permute_systems:large-vector",
                      detail={"d": d, "perm": perm, "inv": inv})
        if r % 8 < 4 and int(np.prod(d)) <= 1600:
            p_op = ctx.call(permutation_operator, list(d), list(perm), inv)
            if p_op is not ctx_failed():
                p_op = p_op.toarray() if hasattr(p_op, "toarray") else np.asarray(p_op)
                want = ref.permute_vec(x, perm, d, inv)
                ctx.check("O4:permutation-operator-action", np.array_equal((p_op @ x.astype(complex)).reshape(-1), want.astype(complex).reshape(-1)), sig=("large", n, inv), nt=True,
                          mech="permutation_operator:large", detail={"d": d, "perm": perm, "inv": inv})
    else:
        dr = _large_dims(rng, 65, 160, n)
        dc = list(dr) if kind == "square" else [int(v) for v in rng.integers(1, 4, size=n)]
        if kind == "rect" and int(np.prod(dc)) < 2:
            dc[0] = 2
        if kind == "rect" and r % 8 >= 4:
            dr, dc = dc, dr  # the long side is the column side
        x = gen.unique_ids((int(np.prod(dr)), int(np.prod(dc))), dt)
        row_only = bool((r // 8) % 2) and kind == "square"
        dim = list(dr) if kind == "square" else [list(dr), list(dc)]
        res = ctx.call(permute_systems, x, list(perm), dim, row_only, inv)
        if res is not ctx_failed():
            want = ref.permute(x, perm, dr, dc, inv, row_only)
            ctx.check("O1:large", np.shape(res) == want.shape and np.array_equal(res, want), sig=("mat", kind, n, inv, row_only, dt), nt=True, mech="permute_systems:large-operator",
                      detail={"dr": dr, "dc": dc, "perm": perm, "inv": inv, "row_only": row_only})
        if kind == "square":
            i, j = sorted(int(v) for v in rng.permutation(n)[:2])
            res = ctx.call(swap, x, [i + 1, j + 1], list(dr))
            if res is not ctx_failed():
                p2 = list(range(n))
                p2[i], p2[j] = p2[j], p2[i]
                want = ref.permute(x, p2, dr, dr)
                ctx.check("O5:swap=transposition", np.shape(res) == want.shape and np.array_equal(res, want), sig=("large", n, dr[i] != dr[j]), nt=dr[i] != dr[j], mech="swap:large-operator",
                          detail={"d": dr, "sys": [i + 1, j + 1]})
    ctx.sample("O1:large", {"kind": kind, "perm": perm, "inv": inv})


def _run_mat(ctx, spec, rng):
    from toqito.perms import permutation_operator, permute_systems

    n = spec[1]
    perm = _perm_of(spec, rng)
    for _ in range(4):
        for _try in range(100):
            dr = gen.dims(rng, n, 1, 4 if n <= 4 else 3)
            dc = gen.dims(rng, n, 1, 4 if n <= 4 else 3) if rng.random() < 0.7 else list(dr)
            if int(np.prod(dr)) * int(np.prod(dc)) <= 4096:
                break
        else:
            dr = dc = [2] * n
        if n >= 3 and rng.random() < 0.3:
            # a square operator between two different factorisations of one space: the column dimensions are the row dimensions with a
            # random subset of positions shuffled among themselves (equal totals, equal on the other positions) ...
            for _try in range(50):
                dr = gen.dims(rng, n, 1, 4 if n <= 4 else 3, max_total=64)
                pos = sorted(int(v) for v in rng.permutation(n)[:int(rng.integers(2, n + 1))])
                dc = list(dr)
                for a_, b_ in zip(pos, rng.permutation(pos)):
                    dc[a_] = dr[int(b_)]
                if dc != dr:
                    break
            if spec[2] is None and rng.random() < 0.6:
                # ... and a permutation that moves only some of the subsystems
                moved = sorted(int(v) for v in rng.permutation(n)[:int(rng.integers(2, n))])
                perm = list(range(n))
                for a_, b_ in zip(moved, rng.permutation(moved)):
                    perm[a_] = int(b_)
        big_r, big_c = int(np.prod(dr)), int(np.prod(dc))
        kind = "ifcb"[int(rng.integers(0, 4))] if rng.random() < 0.9 else "f4"
        x = gen.unique_ids((big_r, big_c), kind)
        if big_r == big_c and kind != "b" and rng.random() < 0.2:
            x = np.diag(np.diag(x))  # exactly diagonal operand (unique ids on the diagonal): structure a shortcut might single out
        x = gen.layout(x, ["C", "F", "strided", "neg", "ro"][int(rng.integers(0, 5))])
        fname, dim = _dimform(rng, dr, dc, x)
        inv = bool(rng.integers(0, 2))
        row_only = bool(rng.integers(0, 2)) and rng.random() < 0.5
        nt = perm != sorted(perm)
        res = ctx.call(permute_systems, x, perm, dim, row_only, inv)  # O1 decided by the attached contract
        if res is ctx_failed():
            continue
        ctx.sample("contract:permute_systems", {"shape": x.shape, "perm": perm, "dr": dr, "dc": dc, "dimform": fname, "inv": inv,
                                                 "row_only": row_only, "dtype": str(x.dtype)})
        if np.asarray(res).dtype != x.dtype:
            ctx.check("O1:dtype-preserved", False, mech="permute_systems:dtype-changed",
                      detail={"in": str(x.dtype), "out": str(np.asarray(res).dtype)})
        else:
            ctx.check("O1:dtype-preserved", True)
        # O2 product form (integer factors -> exact)
        facs = [rng.integers(-3, 4, size=(dr[i], dc[i])) + (1j * rng.integers(-3, 4, size=(dr[i], dc[i])) if kind == "c" else 0)
                for i in range(n)]
        prod = ref.kron_all(facs)
        got = ctx.call(permute_systems, prod, perm, [list(dr), list(dc)])
        if got is not ctx_failed():
            want = ref.kron_all([facs[perm[i]] for i in range(n)])
            ctx.check("O2:product-form", got.shape == want.shape and np.array_equal(got, want), sig=(n, dr != dc), nt=nt,
                      mech="permute_systems:product-form", detail={"perm": perm, "dr": dr, "dc": dc})
        # O3 inverse undoes forward when given the permuted dimensions
        fwd = ctx.call(permute_systems, x, perm, [list(dr), list(dc)])
        if fwd is not ctx_failed():
            pdr, pdc = [dr[p] for p in perm], [dc[p] for p in perm]
            back = ctx.call(permute_systems, fwd, perm, [pdr, pdc], False, True)
            if back is not ctx_failed():
                ctx.check("O3:inverse-undoes", back.shape == x.shape and np.array_equal(back, x), sig=(n, dr != dc), nt=nt,
                          mech="permute_systems:inverse", detail={"perm": perm, "dr": dr, "dc": dc})
        # O4 row-only = P . X
        ro = ctx.call(permute_systems, x, perm, [list(dr), list(dc)], True, False)
        pop = ctx.call(permutation_operator, list(dr), perm)
        if ro is not ctx_failed() and pop is not ctx_failed():
            want = np.asarray(pop) @ x.astype(np.complex128 if kind == "c" else np.float64)
            ctx.check("O4:row-only=P.X", np.array_equal(np.asarray(ro).astype(want.dtype), want), sig=(n, dr != dc), nt=nt,
                      mech="permute_systems:row-only", detail={"perm": perm, "dr": dr, "dc": dc})


def ctx_failed():
    from ..core import FAILED

    return FAILED


def _run_vec(ctx, spec, rng):
    from toqito.perms import permute_systems

    n = spec[1]
    perm = _perm_of(spec, rng)
    nt = perm != sorted(perm)
    for _ in range(4):
        d = gen.dims(rng, n, 1, 4 if n <= 4 else 3, max_total=4096)
        big = int(np.prod(d))
        kind = "ifc"[int(rng.integers(0, 3))]
        v = gen.unique_ids((big,), kind)
        col = bool(rng.integers(0, 2))
        x = v.reshape(-1, 1) if col else v
        x = gen.layout(x, ["C", "strided", "ro"][int(rng.integers(0, 3))])
        inv = bool(rng.integers(0, 2))
        forms = [list(d), np.array(d)]
        if len(set(d)) == 1 and d[0] ** n == big:
            forms.append(None)
        dim = forms[int(rng.integers(0, len(forms)))]
        res = ctx.call(permute_systems, x, perm, dim, False, inv)
        if res is ctx_failed():
            continue
        ctx.sample("contract:permute_systems", {"vec": x.shape, "perm": perm, "dim": d, "inv": inv})
        ctx.check("O1:vector-returns-1d", np.asarray(res).ndim == 1 and np.asarray(res).size == big, mech="permute_systems:vector-shape",
                  detail={"shape": np.shape(res)})
        # product form on vectors
        facs = [rng.integers(-3, 4, size=d[i]) for i in range(n)]
        prod = facs[0]
        for f in facs[1:]:
            prod = np.kron(prod, f)
        got = ctx.call(permute_systems, prod, perm, list(d))
        if got is not ctx_failed():
            want = facs[perm[0]]
            for i in range(1, n):
                want = np.kron(want, facs[perm[i]])
            ctx.check("O2:product-form", np.array_equal(np.asarray(got).reshape(-1), want), sig=("vec", n), nt=nt,
                      mech="permute_systems:product-form-vector", detail={"perm": perm, "d": d})
        fwd = ctx.call(permute_systems, v, perm, list(d))
        if fwd is not ctx_failed():
            back = ctx.call(permute_systems, np.asarray(fwd), perm, [d[p] for p in perm], False, True)
            if back is not ctx_failed():
                ctx.check("O3:inverse-undoes", np.array_equal(np.asarray(back).reshape(-1), v), sig=("vec", n), nt=nt,
                          mech="permute_systems:inverse-vector", detail={"perm": perm, "d": d})


def _run_swap(ctx, spec, rng):
    from toqito.perms import permute_systems, swap, swap_operator, permutation_operator

    n = int(rng.integers(2, 5))
    i, j = (int(v) + 1 for v in rng.choice(n, size=2, replace=False))
    square = rng.random() < 0.5
    dr = gen.dims(rng, n, 1, 3)
    dc = list(dr) if square else gen.dims(rng, n, 1, 3)
    x = gen.unique_ids((int(np.prod(dr)), int(np.prod(dc))), "ifc"[int(rng.integers(0, 3))])
    perm = list(range(n))
    perm[i - 1], perm[j - 1] = perm[j - 1], perm[i - 1]
    row_only = rng.random() < 0.25
    if square:
        dim = [list(dr), np.array(dr), [list(dr), list(dr)], np.array([dr, dr])][int(rng.integers(0, 4))]
        mech = None
    else:
        dim = [list(dr), list(dc)] if rng.random() < 0.5 else np.array([dr, dc])
        mech = "crash:swap:2-row-dim,n>2" if n > 2 else None
    lay = ["C", "F", "strided", "neg", "ro"][int(rng.integers(0, 5))]
    x = gen.layout(x, lay)  # the same values in another memory layout
    res = ctx.call(swap, x, [i, j], dim, row_only, mech=mech, freeze=False)
    if res is not ctx_failed():
        want = ref.permute(x, perm, dr, dc if not row_only else [x.shape[1]] + [1] * (n - 1), False, row_only)
        ctx.check("O5:swap=transposition", np.array_equal(res, want), sig=(n, square, row_only, lay), nt=True, mech="swap:transposition",
                  detail={"sys": [i, j], "dr": dr, "dc": dc, "layout": lay})
        ctx.sample("contract:swap", {"shape": x.shape, "sys": [i, j], "dr": dr, "dc": dc, "row_only": row_only})
    # vector swap
    v = gen.unique_ids((int(np.prod(dr)),), "f")
    rv = ctx.call(swap, v, [i, j], list(dr))
    if rv is not ctx_failed():
        ctx.check("O5:swap=transposition", np.array_equal(np.asarray(rv).reshape(-1), ref.permute_vec(v, perm, dr)), sig=("vec", n), nt=True,
                  mech="swap:transposition-vector", detail={"sys": [i, j], "d": dr})
    # bipartite default forms
    d = int(rng.integers(2, 5))
    y = gen.unique_ids((d * d, d * d), "i")
    r0 = ctx.call(swap, y)
    if r0 is not ctx_failed():
        ctx.check("O5:swap=transposition", np.array_equal(r0, ref.permute(y, [1, 0], [d, d], [d, d])), sig=("default", d), nt=True,
                  mech="swap:default-args", detail={"d": d})
    d2 = int(rng.integers(1, 4))
    z = gen.unique_ids((d * d2, d * d2), "i")
    r1 = ctx.call(swap, z, [1, 2], d)  # scalar dim = [d, N/d]
    if r1 is not ctx_failed():
        ctx.check("O5:swap=transposition", np.array_equal(r1, ref.permute(z, [1, 0], [d, d2], [d, d2])), sig=("scalar", d, d2), nt=True,
                  mech="swap:scalar-dim", detail={"d": d, "d2": d2})
    # swap operator
    so = ctx.call(swap_operator, d)
    po = ctx.call(permutation_operator, [d, d], [1, 0])
    if so is not ctx_failed() and po is not ctx_failed():
        ctx.check("O5:swap_operator", np.array_equal(np.asarray(so), ref.perm_matrix([d, d], [1, 0])) and np.array_equal(so, po),
                  sig=("int", d), mech="swap_operator:matrix", detail={"d": d})
    so2 = ctx.call(swap_operator, [d, d2])
    if so2 is not ctx_failed():
        ctx.check("O5:swap_operator", np.array_equal(np.asarray(so2), ref.perm_matrix([d, d2], [1, 0])), sig=("list", d, d2),
                  mech="swap_operator:matrix-list", detail={"d": [d, d2]})
        a, b = rng.integers(-3, 4, size=d), rng.integers(-3, 4, size=d2)
        ctx.check("O5:swap_operator", np.array_equal(np.asarray(so2) @ np.kron(a, b), np.kron(b, a)), sig=("action", d, d2),
                  mech="swap_operator:action", detail={"d": [d, d2]})
    for dimarg in (d, [d, d2]):  # the sparse flag: the same operator
        sp = ctx.call(swap_operator, dimarg, True)
        if sp is not ctx_failed():
            dd = [d, d] if isinstance(dimarg, int) else [d, d2]
            got_sp = sp.toarray() if hasattr(sp, "toarray") else np.asarray(sp)
            ctx.check("O5:swap_operator", got_sp.shape == (dd[0] * dd[1],) * 2 and np.array_equal(got_sp, ref.perm_matrix(dd, [1, 0])), sig=("sparse", dd[0], dd[1]),
                      mech="swap_operator:matrix[is_sparse]", detail={"d": dd})


def _run_permop(ctx, spec, rng):
    from scipy import sparse

    from toqito.perms import permutation_operator

    n = int(rng.integers(2, 5))
    d = gen.dims(rng, n, 1, 3)
    perm = [int(v) for v in rng.permutation(n)]
    inv = bool(rng.integers(0, 2))
    sp = bool(rng.integers(0, 2))
    uniform = rng.random() < 0.3
    if uniform:
        d = [d[0] if d[0] > 1 else 2] * n
    dim = d[0] if uniform and rng.random() < 0.5 else list(d)
    res = ctx.call(permutation_operator, dim, perm, inv, sp)
    if res is ctx_failed():
        return
    p = res.toarray() if sparse.issparse(res) else np.asarray(res)
    big = int(np.prod(d))
    ctx.check("O4:permutation-operator-unitary", p.shape == (big, big) and np.array_equal(p.T @ p, np.eye(big)) and set(np.unique(p)) <= {0, 1},
              sig=(n, inv, sp), nt=perm != sorted(perm), mech="permutation_operator:not-permutation-matrix", detail={"d": d, "perm": perm})
    facs = [rng.integers(-3, 4, size=d[i]) for i in range(n)]
    v = facs[0]
    for f in facs[1:]:
        v = np.kron(v, f)
    q = [int(x) for x in np.argsort(perm)] if inv else perm
    want = facs[q[0]]
    for i in range(1, n):
        want = np.kron(want, facs[q[i]])
    ctx.check("O4:permutation-operator-action", np.array_equal(p @ v, want), sig=(n, inv), nt=perm != sorted(perm),
              mech="permutation_operator:action", detail={"d": d, "perm": perm, "inv": inv})
    ctx.sample("contract:permutation_operator", {"dim": dim, "perm": perm, "inv": inv, "sparse": sp})


def _run_sparse(ctx, spec, rng):
    from scipy import sparse

    from toqito.perms import permute_systems, swap

    n = int(rng.integers(2, 4))
    d = gen.dims(rng, n, 1, 3)
    big = int(np.prod(d))
    dense = gen.unique_ids((big, big), "f") * (rng.random((big, big)) < 0.4)
    perm = [int(v) for v in rng.permutation(n)]
    fmt = ["csr", "csc", "dia", "coo"][int(rng.integers(0, 4))]
    sp = sparse.csr_matrix(dense).asformat(fmt)
    res = ctx.call(permute_systems, sp, perm, list(d))
    if res is not ctx_failed():
        got = res.toarray() if sparse.issparse(res) else np.asarray(res)
        ctx.check("O6:sparse=dense", np.array_equal(got, ref.permute(dense, perm, d, d)), sig=(fmt, n), nt=perm != sorted(perm),
                  mech="permute_systems:sparse", detail={"fmt": fmt, "d": d, "perm": perm})
    if n >= 2:
        i, j = (int(v) + 1 for v in rng.choice(n, size=2, replace=False))
        rs = ctx.call(swap, sp, [i, j], list(d))
        if rs is not ctx_failed():
            p2 = list(range(n))
            p2[i - 1], p2[j - 1] = p2[j - 1], p2[i - 1]
            got = rs.toarray() if sparse.issparse(rs) else np.asarray(rs)
            ctx.check("O6:sparse=dense", np.array_equal(got, ref.permute(dense, p2, d, d)), sig=("swap", fmt, n), nt=True,
                      mech="swap:sparse", detail={"fmt": fmt, "d": d, "sys": [i, j]})


def _run_internal(ctx, spec, rng):
    """Drive the library functions that call permute_systems / swap internally; the contracts observe those calls."""
    from toqito.channels import partial_trace, partial_transpose, realignment
    from toqito.perms import symmetric_projection

    n = int(rng.integers(2, 5))
    d = gen.dims(rng, n, 1, 3, max_total=64)
    big = int(np.prod(d))
    x = gen.unique_ids((big, big), "ic"[int(rng.integers(0, 2))])
    k = int(rng.integers(1, n + 1))
    s = [int(v) for v in rng.permutation(n)[:k]]
    ctx.call(partial_trace, x, s, list(d))
    ctx.call(partial_transpose, x, s, list(d))
    a, b, c, e = (int(v) for v in rng.integers(2, 4, size=4))
    ctx.call(realignment, gen.unique_ids((a * b, c * e), "f"), [[a, b], [c, e]])
    if spec[1] % 5 == 0:
        ctx.call(symmetric_projection, 2, 3)


def _run_suite(ctx, spec, rng):
    """Thorough tier: the repository's own tests executed with this property's contracts attached (internal calls observed)."""
    from ..suiterun import run_suite_under_contract

    run_suite_under_contract(ctx, ['permute_systems', 'swap', 'permutation_operator'], "suite-under-contract")


def _run_nodim(ctx, spec, rng):
    """dim omitted: the local dimension is inferred as N ** (1/n), which is not exact in floating point for many (d, n)."""
    from toqito.perms import permute_systems

    _, d, n = spec
    perm = [int(v) for v in rng.permutation(n)]
    if perm == sorted(perm):
        perm = perm[1:] + perm[:1]
    mech = "crash:permute_systems:omitted-dim-inexact-root"
    v = gen.unique_ids((d ** n,), "f")
    for x in (v, v.reshape(-1, 1)):
        res = ctx.call(permute_systems, x, perm, mech=mech)
        if res is not ctx_failed():
            ctx.check("O1:omitted-dim", np.array_equal(np.asarray(res).reshape(-1), ref.permute_vec(v, perm, [d] * n)), sig=("vec", d, n), nt=True,
                      mech="permute_systems:omitted-dim-vector", detail={"d": d, "n": n, "perm": perm})
    if d ** n <= 125:
        m = gen.unique_ids((d ** n, d ** n), "i")
        res = ctx.call(permute_systems, m, perm, mech=mech)
        if res is not ctx_failed():
            ctx.check("O1:omitted-dim", np.array_equal(res, ref.permute(m, perm, [d] * n, [d] * n)), sig=("mat", d, n), nt=True, mech="permute_systems:omitted-dim-matrix",
                      detail={"d": d, "n": n, "perm": perm})
    ctx.sample("O1:omitted-dim", {"d": d, "n": n, "root_as_float": (d ** n) ** (1 / n)})


def _run_repeat(ctx, spec, rng):
    """History monitor: the same argument OBJECTS (index arrays given as ndarrays) used for two consecutive calls."""
    from toqito.perms import permutation_operator, permute_systems, swap

    from ..core import repeat_call

    n = int(rng.integers(3, 5))
    d = gen.dims(rng, n, 1, 3, min_total=4)
    big = int(np.prod(d))
    x = gen.unique_ids((big, big), "i")
    i, j = (int(v) + 1 for v in rng.choice(n, size=2, replace=False))
    sys_arr = np.array([i, j])
    dim_arr = np.array(d)
    perm2 = list(range(n))
    perm2[i - 1], perm2[j - 1] = perm2[j - 1], perm2[i - 1]
    res = repeat_call(ctx, "H1:repeat-call", swap, [x, sys_arr, dim_arr], ["rho", "sys", "dim"], sig=(n,))
    if res is not ctx_failed():
        ctx.check("O5:swap=transposition", np.array_equal(res, ref.permute(x, perm2, d, d)), sig=("ndarray-sys", n), nt=True, mech="swap:transposition[ndarray-sys]", detail={"sys": [i, j], "d": d})
    perm_arr = np.array([int(v) for v in rng.permutation(n)])
    dim2 = np.array([d, d])
    repeat_call(ctx, "H1:repeat-call", permute_systems, [x, perm_arr, dim2, False, bool(spec[1] % 2)], ["input_mat", "perm", "dim", "row_only", "inv_perm"], sig=(n,))
    v = gen.unique_ids((big,), "f")
    repeat_call(ctx, "H1:repeat-call", permute_systems, [v, perm_arr, dim_arr], ["input_mat", "perm", "dim"], sig=("vec", n))
    repeat_call(ctx, "H1:repeat-call", permutation_operator, [dim_arr, perm_arr, bool(spec[1] % 2), bool(spec[1] % 3 == 0)], ["dim", "perm", "inv_perm", "is_sparse"], sig=(n,),
                equal=lambda a, b: np.array_equal(a.toarray() if hasattr(a, "toarray") else a, b.toarray() if hasattr(b, "toarray") else b))
    ctx.sample("H1:repeat-call", {"n": n, "dims": d, "sys": [i, j], "perm": perm_arr})
