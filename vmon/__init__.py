"""vmon - runtime monitors for vprusso/toqito (see /verif/DESIGN.md)."""
