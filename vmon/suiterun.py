"""Run a subset of the repository's own test-suite under contracts (thorough tier of C01-C03) and merge what the contracts observed."""
from __future__ import annotations

import json
import os
import subprocess
import sys
import tempfile

from .core import REPO, VERIF

# test directories whose tests call (directly or internally) the monitored functions and finish within a few minutes
SUITE_DIRS = ["toqito/perms/tests", "toqito/channels/tests", "toqito/channel_ops/tests", "toqito/channel_props/tests", "toqito/state_props/tests",
              "toqito/state_ops/tests", "toqito/matrix_props/tests", "toqito/measurement_ops/tests", "toqito/rand/tests", "toqito/states/tests",
              "toqito/channel_metrics/tests", "toqito/nonlocal_games/tests/test_quantum_hedging.py", "toqito/state_metrics/tests"]


def run_suite_under_contract(ctx, contract_names, monitor, dirs=None, timeout=2400):
    fd, out = tempfile.mkstemp(prefix="vmon-suite-", suffix=".json")
    os.close(fd)
    env = dict(os.environ)
    env["PYTHONPATH"] = VERIF + os.pathsep + REPO + os.pathsep + env.get("PYTHONPATH", "")
    env["VMON_PLUGIN_OUT"] = out
    env["VMON_PLUGIN_PROP"] = ctx.prop
    env["VMON_PLUGIN_CONTRACTS"] = ",".join(contract_names)
    env["PYTHONDONTWRITEBYTECODE"] = "1"
    dirs = [d for d in (dirs or SUITE_DIRS) if os.path.exists(os.path.join(REPO, d))]
    cmd = [sys.executable, "-B", "-m", "pytest", "-q", "-x", "-p", "no:cacheprovider", "-p", "vmon.pytest_plugin", "--timeout=900", *dirs]
    try:
        proc = subprocess.run(cmd, cwd=REPO, env=env, capture_output=True, text=True, timeout=timeout)
    except subprocess.TimeoutExpired:
        ctx.note_inconclusive("suite-under-contract-timeout")
        return
    try:
        with open(out) as fh:
            res = json.load(fh)
    except Exception:  # noqa: BLE001
        ctx.note_inconclusive("suite-under-contract-no-output")
        sys.stderr.write(proc.stdout[-2000:] + proc.stderr[-2000:])
        return
    finally:
        if os.path.exists(out):
            os.unlink(out)
    for k, v in res["evals"].items():
        ctx.evals[k + "[suite]"] += v
    for s_, nt in res["sigs"].items():
        ctx.sigs["suite:" + s_] = ctx.sigs.get("suite:" + s_, False) or nt
    ctx.violations.extend(res["violations"])
    for k, v in res["known"].items():
        ctx.known[k] += v
    ctx.known_what.update(res["known_what"])
    ctx.harness_errors.extend(res["harness_errors"])
    ctx.evals[monitor] += 1
    ctx.sample(monitor, {"tests_collected": res.get("tests"), "tests_failed": res.get("failed"), "pytest_exit": res.get("exitstatus"),
                         "contract_evaluations": {k: v for k, v in res["evals"].items() if k.startswith("contract:")}})
    if res.get("exitstatus") not in (0,):
        # a failing repository test is not a verdict on the property; report it as inconclusive for this sub-run
        ctx.note_inconclusive(f"suite-under-contract-pytest-exit-{res.get('exitstatus')}")
