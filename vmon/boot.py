"""Bootstrap of a monitoring process: dependency path, tree under test, import of every module."""
from __future__ import annotations

import importlib
import os
import pkgutil
import subprocess
import sys
import warnings

from .core import REPO, VERIF

DEPS = os.path.join(VERIF, ".deps")
WHEELS = "/opt/veriftools/wheels"


def ensure_deps():
    """icontract/deal live in /verif/.deps (git-ignored): install from the offline wheelhouse if absent."""
    if not os.path.isdir(os.path.join(DEPS, "icontract")):
        lock = DEPS + ".lock"
        import fcntl

        with open(lock, "w") as fh:
            fcntl.flock(fh, fcntl.LOCK_EX)
            if not os.path.isdir(os.path.join(DEPS, "icontract")):
                subprocess.run(
                    [sys.executable, "-m", "pip", "install", "-q", "--no-index", "--find-links", WHEELS, "--target", DEPS,
                     "icontract", "deal"],
                    check=True, stdout=subprocess.DEVNULL, stderr=subprocess.DEVNULL,
                )
    if DEPS not in sys.path:
        sys.path.append(DEPS)  # at the END: never shadow the repository's own packages


def tree_id():
    try:
        sha = subprocess.run(["git", "-C", REPO, "rev-parse", "HEAD"], capture_output=True, text=True, timeout=20).stdout.strip()
        dirty = subprocess.run(["git", "-C", REPO, "status", "--porcelain", "--untracked-files=no"], capture_output=True, text=True,
                               timeout=20).stdout.strip()
        return {"path": REPO, "head": sha, "dirty": bool(dirty)}
    except Exception:  # noqa: BLE001
        return {"path": REPO, "head": "unknown", "dirty": None}


def load_tree():
    """Import every toqito module (tests excluded) from the tree under test and verify provenance."""
    warnings.filterwarnings("ignore")
    os.environ.setdefault("TOQITO_VERIF", "1")
    if sys.path[0] != REPO:
        sys.path.insert(0, REPO)
    import toqito

    mods = []
    for m in pkgutil.walk_packages(toqito.__path__, "toqito."):
        if ".tests" in m.name or m.name.endswith(".tests"):
            continue
        mods.append(importlib.import_module(m.name))
    for m in mods:
        f = getattr(m, "__file__", None)
        if f and not os.path.realpath(f).startswith(REPO + os.sep):
            raise RuntimeError(f"module {m.__name__} loaded from {f}, not from the tree under test {REPO}")
    return mods
