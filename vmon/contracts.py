"""Contract conditions (post-conditions against the reference models) for the index-movement functions.

They observe *every* call, the workload's and the library's internal ones.  Each records through
the global context CTX and returns True.
"""
from __future__ import annotations

import functools

import numpy as np

from . import attach, ref

CTX = None  # set by install()


def safe(fn):
    @functools.wraps(fn)
    def inner(*a, **k):
        try:
            fn(*a, **k)
        except Exception:  # noqa: BLE001
            if CTX is not None:
                CTX.harness_error("contract:" + fn.__name__)
        return True

    return inner


def _is_numeric(x):
    return isinstance(x, np.ndarray) and x.dtype != object and x.dtype.kind in "biufc"


def _symbolic(name, x):
    CTX.evals["contract:" + name + ":symbolic"] += 1


def _exact(a, b):
    a = np.asarray(a)
    b = np.asarray(b)
    return a.shape == b.shape and bool(np.array_equal(a, b))


def _dims_of(dim, shape, n):
    """Resolve permute_systems' dim argument to (row dims, col dims) for a matrix of ``shape``."""
    if dim is None:
        r = round(shape[0] ** (1 / n))
        c = round(shape[1] ** (1 / n))
        return [r] * n, [c] * n
    d = np.array(dim)
    if d.ndim == 1:
        return [int(v) for v in d], [int(v) for v in d]
    d = d.reshape(2, -1)
    return [int(v) for v in d[0]], [int(v) for v in d[1]]


@safe
def permute_is_relabelling(input_mat, perm, dim, row_only, inv_perm, result):
    from scipy import sparse

    x = input_mat
    if sparse.issparse(x):
        x = x.toarray()
    if not _is_numeric(x):
        return _symbolic("permute_systems", x)
    perm = [int(p) for p in perm]
    n = len(perm)
    res = result.toarray() if sparse.issparse(result) else np.asarray(result)
    if x.ndim == 1 or min(x.shape) == 1:
        big = x.size
        if dim is None:
            d = [round(big ** (1 / n))] * n
        else:
            dd = np.array(dim)
            if dd.ndim == 1:
                d = [int(v) for v in dd]
            else:
                dd = dd.reshape(2, -1)
                row = dd[0] if int(np.prod(dd[0])) == big else dd[1]
                d = [int(v) for v in row]
        exp = ref.permute_vec(x.reshape(-1), perm, d, inv_perm)
        CTX.check("contract:permute_systems", _exact(res.reshape(-1), exp), sig=("vec", n, bool(inv_perm)),
                  nt=perm != sorted(perm), mech="permute_systems:vector-relabelling",
                  detail=None if _exact(res.reshape(-1), exp) else {"x": x, "perm": perm, "dim": d, "inv": inv_perm, "got": res, "want": exp})
        return None
    dr, dc = _dims_of(dim, x.shape, n)
    if row_only:
        dc = [x.shape[1]] + [1] * (n - 1)
    exp = ref.permute(x, perm, dr, dc, inv_perm, row_only)
    ok = _exact(res, exp)
    CTX.check("contract:permute_systems", ok, sig=("mat", n, bool(inv_perm), bool(row_only), dr != dc),
              nt=perm != sorted(perm), mech="permute_systems:matrix-relabelling",
              detail=None if ok else {"x": x, "perm": perm, "dr": dr, "dc": dc, "inv": inv_perm, "row_only": row_only, "got": res, "want": exp})
    return None


@safe
def partial_trace_is_contraction(input_mat, sys, dim, result):
    x = input_mat
    if not _is_numeric(x):
        return _symbolic("partial_trace", x)
    big = x.shape[0]
    if dim is None:
        d0 = int(round(np.sqrt(big)))
        d = [d0, big // d0]
    elif isinstance(dim, (int, np.integer)):
        d = [int(dim), big // int(dim)]
    else:
        d = [int(round(float(v))) for v in np.asarray(dim).reshape(-1)]
        if len(d) == 1:
            d = [d[0], big // d[0]]
    if sys is None:
        s = [1]
    elif isinstance(sys, (int, np.integer)):
        s = [int(sys)]
    else:
        s = [int(v) for v in np.asarray(sys).reshape(-1)]
    if int(np.prod(d)) != big or len(set(s)) != len(s) or any(v < 0 or v >= len(d) for v in s):
        CTX.evals["contract:partial_trace:outside-model"] += 1
        return None
    exp = ref.partial_trace(x, s, d)
    res = np.asarray(result)
    if x.dtype.kind in "biu":
        ok = res.shape == exp.shape and bool(np.array_equal(res, exp))
        dev = 0.0 if ok else float("inf")
    else:
        scale = float(np.abs(x).max()) * max(d) or 1.0  # the natural magnitude of a sum of max(d) entries (inputs are probed at scales 1e-16 .. 1e8)
        dev = float(np.abs(res - exp).max()) / scale if res.shape == exp.shape else float("inf")
        if x.dtype.kind == "c" and res.dtype.kind != "c":
            dev = float("inf")  # a complex operator has a complex partial trace, however small its imaginary parts
        ok = dev <= 1e-9
    mech = "partial_trace:contraction"
    narrow = x.dtype.kind in "iu" and x.dtype.itemsize < 8
    if narrow and not ok and res.shape == exp.shape and res.dtype.kind in "iu":
        bits = 8 * x.dtype.itemsize
        if bool(np.all((res.astype(object) - exp.astype(object)) % (1 << bits) == 0)):
            mech = "partial_trace:sums-wrap-in-narrow-integer-type"
    CTX.check("contract:partial_trace", ok, dev=dev, tol=1e-9, sig=("pt", len(d), len(s), len(set(d)) > 1, str(x.dtype) if narrow else x.dtype.kind),
              nt=0 < len(s) < len(d), mech=mech,
              detail=None if ok else {"x": x, "sys": s, "dim": d, "got": res, "want": exp})
    return None


@safe
def partial_transpose_moves_indices(rho, sys, dim, result):
    x = rho
    if not _is_numeric(x):
        return _symbolic("partial_transpose", x)
    if dim is None:
        r = int(round(np.sqrt(x.shape[0])))
        c = int(round(np.sqrt(x.shape[1])))
        dr, dc = [r, x.shape[0] // r], [c, x.shape[1] // c]
    elif isinstance(dim, (int, np.integer)):
        dr = [int(dim), x.shape[0] // int(dim)]
        dc = [int(dim), x.shape[1] // int(dim)]
    else:
        d = np.asarray(dim)
        if d.size == 1:
            d0 = int(round(float(d.reshape(-1)[0])))
            dr, dc = [d0, x.shape[0] // d0], [d0, x.shape[1] // d0]
        elif d.ndim == 1:
            dr = dc = [int(round(float(v))) for v in d]
        else:
            d = d.reshape(2, -1)
            dr, dc = [int(round(float(v))) for v in d[0]], [int(round(float(v))) for v in d[1]]
    if dr != dc and min(dr + dc) < 2:
        CTX.evals["contract:partial_transpose:outside-quantifier"] += 1  # rectangular inputs are quantified over local dimensions >= 2
        return None
    if sys is None:
        s = [1]
    elif isinstance(sys, (int, np.integer)):
        s = [int(sys)]
    else:
        s = [int(v) for v in np.asarray(sys).reshape(-1)]
    if int(np.prod(dr)) != x.shape[0] or int(np.prod(dc)) != x.shape[1] or any(v < 0 or v >= len(dr) for v in s) or len(set(s)) != len(s):
        CTX.evals["contract:partial_transpose:outside-model"] += 1
        return None
    exp = ref.partial_transpose(x, s, dr, dc)
    res = np.asarray(result)
    ok = _exact(res, exp)
    CTX.check("contract:partial_transpose", ok, sig=("ptr", len(dr), len(s), dr != dc), nt=len(s) > 0 and not _exact(exp, x),
              mech="partial_transpose:index-exchange",
              detail=None if ok else {"x": x, "sys": s, "dr": dr, "dc": dc, "got": res, "want": exp})
    return None


@safe
def swap_is_transposition(rho, sys, dim, row_only, result):
    from scipy import sparse

    x = rho.toarray() if sparse.issparse(rho) else rho
    if not _is_numeric(x):
        return _symbolic("swap", x)
    s = [1, 2] if sys is None else [int(v) for v in sys]
    is_vec = x.ndim == 1 or min(x.shape) == 1
    shape = (x.size, 1) if is_vec else x.shape
    if dim is None:
        r = int(round(np.sqrt(shape[0])))
        c = int(round(np.sqrt(shape[1])))
        dr, dc = [r, shape[0] // r], [c, max(1, shape[1] // max(c, 1))]
    elif isinstance(dim, (int, np.integer)):
        dr = [int(dim), shape[0] // int(dim)]
        dc = [int(dim), shape[1] // int(dim)] if not is_vec else [1, 1]
    else:
        d = np.asarray(dim)
        if d.ndim == 1:
            dr = [int(round(float(v))) for v in d]
            dc = list(dr)
        else:
            d = d.reshape(2, -1)
            dr, dc = [int(round(float(v))) for v in d[0]], [int(round(float(v))) for v in d[1]]
    n = len(dr)
    if len(s) != 2 or any(v < 1 or v > n for v in s):
        return None
    perm = list(range(n))
    perm[s[0] - 1], perm[s[1] - 1] = perm[s[1] - 1], perm[s[0] - 1]
    res = result.toarray() if sparse.issparse(result) else np.asarray(result)
    if is_vec:
        if int(np.prod(dr)) != x.size:
            return None
        exp = ref.permute_vec(x.reshape(-1), perm, dr)
        ok = _exact(res.reshape(-1), exp)
    else:
        if row_only:
            dc = [shape[1]] + [1] * (n - 1)
        if int(np.prod(dr)) != shape[0] or int(np.prod(dc)) != shape[1]:
            return None
        exp = ref.permute(x, perm, dr, dc, False, row_only)
        ok = _exact(res, exp)
    CTX.check("contract:swap", ok, sig=("swap", n, is_vec, bool(row_only)), nt=s[0] != s[1], mech="swap:transposition",
              detail=None if ok else {"x": x, "sys": s, "dr": dr, "dc": dc, "got": res, "want": exp})
    return None


@safe
def permutation_operator_is_model(dim, perm, inv_perm, is_sparse, result):
    from scipy import sparse

    perm = [int(p) for p in perm]
    d = [int(dim)] * len(perm) if isinstance(dim, (int, np.integer)) else [int(v) for v in dim]
    res = result.toarray() if sparse.issparse(result) else np.asarray(result)
    exp = ref.perm_matrix(d, perm, inv_perm)
    ok = _exact(res, exp)
    CTX.check("contract:permutation_operator", ok, sig=("pop", len(d), bool(inv_perm), bool(is_sparse)), nt=perm != sorted(perm),
              mech="permutation_operator:matrix", detail=None if ok else {"dim": d, "perm": perm, "inv": inv_perm, "got": res, "want": exp})
    return None


@safe
def realignment_is_model(input_mat, dim, result):
    x = input_mat
    if not _is_numeric(x):
        return _symbolic("realignment", x)
    if dim is None:
        a = int(round(np.sqrt(x.shape[0])))
        c = int(round(np.sqrt(x.shape[1])))
        a, b, c, d = a, x.shape[0] // a, c, x.shape[1] // c
    elif isinstance(dim, (int, np.integer)):
        a = int(dim)
        b = x.shape[0] // a
        c, d = a, x.shape[1] // a
    else:
        dd = np.asarray(dim)
        if dd.ndim == 1:
            a, b = int(dd[0]), int(dd[1])
            c, d = a, b
        else:
            a, b, c, d = int(dd[0][0]), int(dd[0][1]), int(dd[1][0]), int(dd[1][1])
    if a * b != x.shape[0] or c * d != x.shape[1]:
        return None
    if min(a, b, c, d) < 2:
        CTX.evals["contract:realignment:outside-quantifier"] += 1  # the property quantifies realignment over local dimensions >= 2
        return None
    exp = ref.realign(x, a, b, c, d)
    res = np.asarray(result)
    ok = _exact(res, exp)
    CTX.check("contract:realignment", ok, sig=("real", (a, b) != (c, d)), nt=True, mech="realignment:index-map",
              detail=None if ok else {"x": x, "dims": [a, b, c, d], "got": res, "want": exp})
    return None


def _kraus_form(phi_op):
    """Resolve an accepted Kraus-list form to (A ops, B ops) or None when the form is outside the model (mirrors the documented forms only)."""
    if not isinstance(phi_op, list) or not phi_op:
        return None
    if all(_is_numeric(k) and k.ndim == 2 for k in phi_op):
        return list(phi_op), list(phi_op)
    if not all(isinstance(k, (list, tuple)) for k in phi_op):
        return None
    lens = {len(k) for k in phi_op}
    flat = [m for k in phi_op for m in k]
    if not all(_is_numeric(m) and m.ndim == 2 for m in flat):
        return None
    if lens == {1} or (len(phi_op) == 1 and len(phi_op[0]) > 2):
        return flat, flat
    if lens == {2}:
        return [k[0] for k in phi_op], [k[1] for k in phi_op]
    return None


@safe
def apply_channel_is_action(mat, phi_op, result):
    if not _is_numeric(mat) or mat.ndim != 2:
        return _symbolic("apply_channel", mat)
    res = np.asarray(result)
    if _is_numeric(phi_op) and phi_op.ndim == 2:
        r, c = mat.shape
        if phi_op.shape[0] % r or phi_op.shape[1] % c:
            return None
        dor, doc = phi_op.shape[0] // r, phi_op.shape[1] // c
        exp = np.einsum("ij,iajb->ab", mat, phi_op.reshape(r, dor, c, doc))
        form = "choi"
    else:
        ab = _kraus_form(phi_op)
        if ab is None:
            CTX.evals["contract:apply_channel:outside-model"] += 1
            return None
        exp = ref.apply_kraus(mat, ab[0], ab[1])
        form = "kraus"
    dev = float(np.abs(res - exp).max()) / (1 + float(np.abs(exp).max())) if res.shape == np.shape(exp) else float("inf")
    CTX.check("contract:apply_channel", dev <= 1e-9, dev=dev, tol=1e-9, sig=("apply", form, mat.shape[0] != mat.shape[1]), nt=True, mech="apply_channel:action[" + form + "]",
              detail=None if dev <= 1e-9 else {"mat": mat, "form": form, "got": res, "want": exp})
    return None


@safe
def kraus_to_choi_is_definition(kraus_ops, sys, result):
    if sys != 2:
        return None
    ab = _kraus_form(kraus_ops)
    if ab is None:
        CTX.evals["contract:kraus_to_choi:outside-model"] += 1
        return None
    a_ops, b_ops = ab
    exp = ref.choi_of(a_ops, b_ops, a_ops[0].shape[1], b_ops[0].shape[1])
    res = result.toarray() if hasattr(result, "toarray") else np.asarray(result)
    dev = float(np.abs(res - exp).max()) / (1 + float(np.abs(exp).max())) if res.shape == np.shape(exp) else float("inf")
    CTX.check("contract:kraus_to_choi", dev <= 1e-9, dev=dev, tol=1e-9, sig=("k2c", len(a_ops) > 1, a_ops is not b_ops), nt=True, mech="kraus_to_choi:definition[internal-call]",
              detail=None if dev <= 1e-9 else {"got": res, "want": exp})
    return None


TARGETS = {
    "permute_systems": ("toqito.perms.permute_systems", "permute_systems", permute_is_relabelling, True),
    "swap": ("toqito.perms.swap", "swap", swap_is_transposition, True),
    "permutation_operator": ("toqito.perms.permutation_operator", "permutation_operator", permutation_operator_is_model, False),
    "partial_trace": ("toqito.channels.partial_trace", "partial_trace", partial_trace_is_contraction, True),
    "partial_transpose": ("toqito.channels.partial_transpose", "partial_transpose", partial_transpose_moves_indices, True),
    "realignment": ("toqito.channels.realignment", "realignment", realignment_is_model, True),
    "apply_channel": ("toqito.channel_ops.apply_channel", "apply_channel", apply_channel_is_action, False),
    "kraus_to_choi": ("toqito.channel_ops.kraus_to_choi", "kraus_to_choi", kraus_to_choi_is_definition, False),
}

INDEX_CONTRACTS = ["permute_systems", "swap", "permutation_operator", "partial_trace", "partial_transpose", "realignment"]
CHANNEL_CONTRACTS = ["apply_channel", "kraus_to_choi"]


def install(ctx, names=None):
    """Attach the named contracts (default: all) and route their observations to ``ctx``."""
    global CTX
    CTX = ctx
    bound = {}
    for name in names or INDEX_CONTRACTS:
        mod, fn, cond, reentrant = TARGETS[name]
        bound[name] = attach.attach(mod, fn, cond, reentrant)
    ctx.contract_rebinds = bound
    return bound
