"""Executable reference models (NumPy reshape/transpose/einsum index semantics, brute force, closed forms).

None of these import toqito; they are the independent side of every reference-model monitor.
"""
from __future__ import annotations

import itertools
import math

import numpy as np

# --------------------------------------------------------------------------- tensor index movement


def permute(x, perm, dr, dc, inv=False, row_only=False):
    """Tensor-factor relabelling: output factor i = input factor perm[i] (C-order tensor axes)."""
    p = list(int(v) for v in perm)
    n = len(p)
    if inv:
        p = [int(v) for v in np.argsort(p)]
    dr = [int(v) for v in dr]
    dc = [int(v) for v in dc]
    t = np.asarray(x).reshape(dr + dc)
    axes = [p[i] for i in range(n)] + ([n + i for i in range(n)] if row_only else [n + p[i] for i in range(n)])
    t = t.transpose(axes)
    return t.reshape(int(np.prod(dr)), int(np.prod(dc)))


def permute_vec(v, perm, d, inv=False):
    p = list(int(x) for x in perm)
    if inv:
        p = [int(x) for x in np.argsort(p)]
    t = np.asarray(v).reshape([int(x) for x in d])
    return t.transpose(p).reshape(-1)


def perm_matrix(d, perm, inv=False):
    """Permutation operator P with P (v_0 x ... x v_{n-1}) = v_{p0} x ... x v_{p(n-1)}."""
    big = int(np.prod(d))
    idx = permute_vec(np.arange(big), perm, d, inv)
    m = np.zeros((big, big))
    m[np.arange(big), idx] = 1
    return m


def partial_trace(x, S, d):
    d = [int(v) for v in d]
    n = len(d)
    S = set(int(s) for s in S)
    t = np.asarray(x)
    if t.dtype.kind in "iu" and t.dtype.itemsize < 8:
        t = t.astype(np.int64)  # the sums are the mathematical sums: never accumulate in a narrow integer type
    t = t.reshape(d + d)
    keep = [i for i in range(n) if i not in S]
    idx_r = list(range(n))
    idx_c = [n + i if i not in S else i for i in range(n)]
    out = np.einsum(t, idx_r + idx_c, keep + [n + i for i in keep])
    k = int(np.prod([d[i] for i in keep])) if keep else 1
    return out.reshape(k, k)


def partial_transpose(x, S, dr, dc):
    dr = [int(v) for v in dr]
    dc = [int(v) for v in dc]
    n = len(dr)
    t = np.asarray(x).reshape(dr + dc)
    axes = list(range(2 * n))
    for s in S:
        axes[s], axes[n + s] = n + s, s
    t = t.transpose(axes)
    ndr = [dc[i] if i in S else dr[i] for i in range(n)]
    ndc = [dr[i] if i in S else dc[i] for i in range(n)]
    return t.reshape(int(np.prod(ndr)), int(np.prod(ndc)))


def realign(x, a, b, c, d):
    """X on (a x b) rows, (c x d) columns -> (a*c) x (b*d); A (x) B -> vec_r(A) vec_r(B)^T."""
    return np.asarray(x).reshape(a, b, c, d).transpose(0, 2, 1, 3).reshape(a * c, b * d)


def kron_all(mats):
    out = np.array([[1.0]])
    for m in mats:
        out = np.kron(out, m)
    return out


# --------------------------------------------------------------------------- linear maps


def apply_kraus(x, a_ops, b_ops=None):
    b_ops = a_ops if b_ops is None else b_ops
    return sum(a @ x @ b.conj().T for a, b in zip(a_ops, b_ops))


def choi_of(a_ops, b_ops, d_in_r, d_in_c=None):
    """J = sum_ij E_ij (x) Phi(E_ij) with E_ij of shape (d_in_r, d_in_c)."""
    d_in_c = d_in_r if d_in_c is None else d_in_c
    j_mat = 0
    for i in range(d_in_r):
        for j in range(d_in_c):
            e = np.zeros((d_in_r, d_in_c))
            e[i, j] = 1
            j_mat = j_mat + np.kron(e, apply_kraus(e, a_ops, b_ops))
    return j_mat


def apply_choi(x, j_mat, d_in, d_out):
    """Phi(X) = Tr_in[(X^T (x) I) J] for J = sum E_ij (x) Phi(E_ij), square d_in."""
    t = np.asarray(j_mat).reshape(d_in, d_out, d_in, d_out)
    return np.einsum("ij,iajb->ab", x, t)


def partial_channel_kraus(x, a_ops, b_ops, dims, pos):
    """(id (x) Phi (x) id)(X) on an operator with square local dims ``dims``; Phi acts on ``pos``."""
    left = int(np.prod(dims[:pos]))
    right = int(np.prod(dims[pos + 1:]))
    out = 0
    for a, b in zip(a_ops, b_ops):
        big_a = np.kron(np.kron(np.eye(left), a), np.eye(right))
        big_b = np.kron(np.kron(np.eye(left), b), np.eye(right))
        out = out + big_a @ x @ big_b.conj().T
    return out


# --------------------------------------------------------------------------- spectra / matrix functions


def herm(x):
    return (x + x.conj().T) / 2


def eigmin(x):
    return float(np.linalg.eigvalsh(herm(np.asarray(x, dtype=complex))).min())


def eigmax(x):
    return float(np.linalg.eigvalsh(herm(np.asarray(x, dtype=complex))).max())


def psd_sqrt(x):
    w, v = np.linalg.eigh(herm(np.asarray(x, dtype=complex)))
    w = np.clip(w, 0, None)
    return (v * np.sqrt(w)) @ v.conj().T


def trace_norm(x):
    return float(np.linalg.svd(np.asarray(x, dtype=complex), compute_uv=False).sum())


def root_fidelity(rho, sigma):
    s = psd_sqrt(rho)
    w = np.linalg.eigvalsh(herm(s @ sigma @ s))
    return float(np.sqrt(np.clip(w, 0, None)).sum())


def entropy_bits(p):
    p = np.asarray(p, dtype=float)
    p = p[p > 1e-15]
    return float(-(p * np.log2(p)).sum())


# --------------------------------------------------------------------------- games


def classical_value(prob, pred):
    """Brute force over all pairs of deterministic answer functions."""
    a, b, x, y = pred.shape
    best = -np.inf
    # for every Bob function g, Alice's best response is separable over x
    w = prob[None, None, :, :] * pred  # a,b,x,y
    for g in itertools.product(range(b), repeat=y):
        # score[a, x] = sum_y w[a, g[y], x, y]
        score = sum(w[:, g[j], :, j] for j in range(y))  # a, x
        val = score.max(axis=0).sum()
        best = max(best, val)
    return float(best)


def classical_value_naive(prob, pred):
    a, b, x, y = pred.shape
    best = -np.inf
    for f in itertools.product(range(a), repeat=x):
        for g in itertools.product(range(b), repeat=y):
            v = sum(prob[i, j] * pred[f[i], g[j], i, j] for i in range(x) for j in range(y))
            best = max(best, v)
    return float(best)


def unentangled_value(prob, pred):
    """max over deterministic (f, g) of lambda_max(sum_xy pi(x,y) V(f(x), g(y)|x, y))."""
    _, _, a, b, x, y = pred.shape
    best = -np.inf
    for f in itertools.product(range(a), repeat=x):
        for g in itertools.product(range(b), repeat=y):
            m = sum(prob[i, j] * pred[:, :, f[i], g[j], i, j] for i in range(x) for j in range(y))
            best = max(best, eigmax(m))
    return float(best)


def xor_classical_bias(prob, pred):
    x, y = prob.shape
    m = prob * (-1.0) ** pred
    best = -np.inf
    for s in itertools.product([1, -1], repeat=x):
        v = np.abs(np.array(s) @ m).sum()
        best = max(best, v)
    return float(best)


def product_game(prob, pred):
    """Two-fold parallel repetition, first repetition most significant in every index."""
    a, b, x, y = pred.shape
    p2 = np.einsum("xy,uv->xuyv", prob, prob).reshape(x * x, y * y)
    v2 = np.einsum("abxy,cduv->acbdxuyv", pred, pred).reshape(a * a, b * b, x * x, y * y)
    return p2, v2


# --------------------------------------------------------------------------- combinatorics


def inversions_sign(p):
    p = list(p)
    inv = sum(1 for i in range(len(p)) for j in range(i + 1, len(p)) if p[i] > p[j])
    return -1 if inv % 2 else 1


def double_factorial_odd(n):
    return math.prod(range(n - 1, 0, -2)) if n > 0 else 1


def schmidt_coeffs(vec, da, db):
    return np.linalg.svd(np.asarray(vec).reshape(da, db), compute_uv=False)
