"""Entry point behind /verif/check: shard a property's cases over worker subprocesses, merge, decide."""
from __future__ import annotations

import argparse
import collections
import hashlib
import importlib
import json
import os
import subprocess
import sys
import tempfile
import time
import traceback

VERIF = os.path.dirname(os.path.dirname(os.path.abspath(__file__)))
PROPS = ["C%02d" % i for i in range(1, 21)]


# --------------------------------------------------------------------------------------- worker
HIST_CASES = {"quick": 160, "thorough": 2400}  # cases whose call history is recorded and re-run in reverse order by fresh processes


def hist_stride(ncases, tier):
    return max(1, -(-ncases // HIST_CASES[tier]))


def worker(prop, tier, seed, shard, nshards, out, only=None, second=False):
    import random

    import numpy as np

    from . import boot
    from .core import CaseTimeout, Ctx, raise_site, watchdog
    from .findings import Findings

    boot.ensure_deps()
    boot.load_tree()
    mod = importlib.import_module("vmon.props." + prop)
    ctx = Ctx(prop, tier, seed, Findings())
    specs = mod.cases(tier)
    rep = getattr(mod, "THOROUGH_REPEAT", 1) if tier == "thorough" else 1
    if rep > 1:
        # deeper thorough tier: the randomised case kinds are run rep times (a case's generator is seeded by its position, so repeats are new inputs)
        skip = set(getattr(mod, "THOROUGH_REPEAT_SKIP", ())) | {"suite"}
        base = list(specs)
        for _ in range(rep - 1):
            specs = specs + [s_ for s_ in base if s_[0] not in skip]
    ctx.solver_time_limit = getattr(mod, "SOLVER_TIME_LIMIT", 30)
    if hasattr(mod, "setup"):
        mod.setup(ctx)
    pnum = int(prop[1:])
    stride = hist_stride(len(specs), tier)
    if only is not None:
        idxs = [only]
    elif second:  # second pass: only the history cases, in reverse order, in a fresh process
        sampled = [i for i in range(len(specs)) if i % stride == 0]
        idxs = sampled[shard::nshards][::-1]
    else:
        idxs = range(shard, len(specs), nshards)
    history = {}
    limit = getattr(mod, "CASE_TIMEOUT", {"quick": 240, "thorough": 900})[tier]
    harness_errors = ctx.harness_errors
    t0 = time.monotonic()
    for idx in idxs:
        spec = specs[idx]
        ctx.case = (idx, spec)
        rng = np.random.default_rng([seed, pnum, idx])
        ctx.freeze_case = (idx * 2654435761 + seed * 40503 + pnum) % 4 == 1  # one case in four hands the library read-only arrays
        ctx.layout_case = (idx * 2654435761 + seed * 40503 + pnum) % 4 == 3  # another one hands it Fortran-ordered / strided copies of the same values
        ctx._layout_n = 0
        # any use of the global generators inside the library is tied to the case, not to what ran before it
        np.random.seed((seed * 1000003 + pnum * 7919 + idx) % (2 ** 32))
        random.seed(seed * 1000003 + pnum * 7919 + idx)
        ctx.hist = [] if (only is not None or idx % stride == 0) and os.environ.get("VMON_HISTORY", "1") != "0" else None
        try:
            with watchdog(limit):
                mod.run(ctx, spec, rng)
        except CaseTimeout:
            ctx.note_inconclusive("case-watchdog")
        except Exception as exc:  # noqa: BLE001
            site = raise_site(exc)
            if site != "?":
                # the library raised on an input the workload considers inside the quantifier
                ctx.fail("unwrapped-call", f"raise:unwrapped:{type(exc).__name__}@{site}",
                         {"exception": repr(exc)[:300], "trace": traceback.format_exc()[-1500:]})
            else:
                harness_errors.append({"case": idx, "trace": traceback.format_exc()[-2000:]})
        ctx.cases_run += 1
        if ctx.hist is not None:
            history[str(idx)] = ctx.hist
            ctx.hist = None
    if hasattr(mod, "teardown"):
        mod.teardown(ctx)
    res = {
        "cases_run": ctx.cases_run,
        "cases_total": len(specs),
        "evals": dict(ctx.evals),
        "sigs": ctx.sigs,
        "samples": ctx.samples,
        "violations": ctx.violations,
        "known": dict(ctx.known),
        "known_what": ctx.known_what,
        "solver_fail": dict(ctx.solver_fail),
        "inconclusive": dict(ctx.inconclusive),
        "inconclusive_cases": ctx.inconclusive_cases,
        "maxdev": dict(ctx.maxdev),
        "sites": {"|".join(map(str, k)): v for k, v in ctx.sites.items()},
        "harness_errors": harness_errors,
        "wall_s": time.monotonic() - t0,
        "history": history,
    }
    with open(out, "w") as fh:
        json.dump(res, fh)


def compare_histories(prop, tier, seed, first, second, specs_of=None):
    """Offline checker of the recorded call histories: every sampled case was run once in its shard's forward order and once, by a fresh
    process, in reverse order among the sampled cases only.  A library function is a function of its arguments: the same call must
    have produced the same value (up to solver accuracy) both times.  Returns (violations, stats)."""
    from . import snap

    stats = collections.Counter()
    fns = set()
    out = []
    for idx, hb in second.items():
        ha = first.get(idx)
        if ha is None:
            stats["cases-without-first-pass"] += 1
            continue
        stats["cases-compared"] += 1
        for pos, (a, b) in enumerate(zip(ha, hb)):
            if a[0] != b[0]:
                stats["cases-with-different-call-sequence"] += 1  # an earlier borderline value changed the workload's path: not compared further
                break
            if a[2] == ["x"] or b[2] == ["x"]:
                stats["cases-cut-at-a-failed-call"] += 1
                break
            tol = 2e-3 if (a[3] or b[3]) else 1e-7
            diff = snap.compare_fingerprints(a[2], b[2], tol)
            stats["calls-compared"] += 1
            fns.add(a[0])
            if diff:
                out.append({
                    "property": prop, "monitor": "H0:call-history", "mechanism": f"history:{a[0]}:result-depends-on-earlier-calls",
                    "case": int(idx), "spec": None, "tier": tier, "seed": seed,
                    "detail": {"function": a[0], "call_number_in_case": pos, "difference": diff, "forward_order": a[2], "reverse_order_fresh_process": b[2],
                               "same_argument_digest": a[1] == b[1], "tolerance": tol},
                    "history_first_pass": ha,
                })
                break
    stats["functions-compared"] = len(fns)
    return out, stats


# --------------------------------------------------------------------------------------- parent
def merge(parts):
    m = {
        "cases_run": 0, "cases_total": 0, "evals": collections.Counter(), "sigs": {}, "samples": [], "violations": [],
        "known": collections.Counter(), "known_what": {}, "solver_fail": collections.Counter(),
        "inconclusive": collections.Counter(), "inconclusive_cases": [], "maxdev": {}, "sites": collections.Counter(), "harness_errors": [],
    }
    for p in parts:
        m["cases_run"] += p["cases_run"]
        m["cases_total"] = max(m["cases_total"], p["cases_total"])
        m["evals"].update(p["evals"])
        for s, nt in p["sigs"].items():
            m["sigs"][s] = m["sigs"].get(s, False) or nt
        m["samples"].extend(p["samples"])
        m["violations"].extend(p["violations"])
        m["known"].update(p["known"])
        m["known_what"].update(p["known_what"])
        m["solver_fail"].update(p["solver_fail"])
        m["inconclusive"].update(p["inconclusive"])
        m["inconclusive_cases"].extend(p.get("inconclusive_cases", []))
        for k, v in p["maxdev"].items():
            m["maxdev"][k] = max(m["maxdev"].get(k, 0.0), v)
        m["sites"].update(p["sites"])
        m["harness_errors"].extend(p["harness_errors"])
    return m


def run_parent(prop, tier, seed, nshards, replay=None):
    from . import boot

    boot.ensure_deps()
    t0 = time.monotonic()
    mod_name = "vmon.props." + prop
    env = dict(os.environ)
    env.setdefault("PYTHONHASHSEED", "0")
    env["PYTHONDONTWRITEBYTECODE"] = "1"
    env["OMP_NUM_THREADS"] = env["OPENBLAS_NUM_THREADS"] = env["MKL_NUM_THREADS"] = "1"
    env["PYTHONPATH"] = VERIF + os.pathsep + env.get("PYTHONPATH", "")
    only = None
    if replay:
        with open(replay) as fh:
            rp = json.load(fh)
        tier, seed, only = rp["tier"], rp["seed"], rp["case"]
        nshards = 1
    tmp = tempfile.mkdtemp(prefix="vmon-" + prop + "-", dir=os.environ.get("VMON_TMP"))
    shard_timeout = {"quick": 1500, "thorough": 6 * 3600}[tier]
    procs = []
    for i in range(nshards):
        out = os.path.join(tmp, f"shard{i}.json")
        cmd = [sys.executable, "-B", "-m", "vmon.runner", "--worker", prop, "--tier", tier, "--seed", str(seed), "--shard", str(i),
               "--nshards", str(nshards), "--out", out]
        if only is not None:
            cmd += ["--only", str(only)]
        procs.append((i, out, subprocess.Popen(cmd, env=env, cwd=VERIF, stdout=subprocess.PIPE, stderr=subprocess.STDOUT, text=True)))
    nsecond = 0
    if not replay and os.environ.get("VMON_HISTORY", "1") != "0":
        nsecond = 4 if tier == "quick" else 8
        for i in range(nsecond):
            out = os.path.join(tmp, f"second{i}.json")
            cmd = [sys.executable, "-B", "-m", "vmon.runner", "--worker", prop, "--tier", tier, "--seed", str(seed), "--shard", str(i),
                   "--nshards", str(nsecond), "--out", out, "--second"]
            procs.append((-1 - i, out, subprocess.Popen(cmd, env=env, cwd=VERIF, stdout=subprocess.PIPE, stderr=subprocess.STDOUT, text=True)))
    parts, dead, second_parts = [], [], []
    deadline = time.monotonic() + shard_timeout
    for i, out, p in procs:
        try:
            stdout, _ = p.communicate(timeout=max(1, deadline - time.monotonic()))
        except subprocess.TimeoutExpired:
            p.kill()
            stdout, _ = p.communicate()
            dead.append((i, "shard-watchdog", ""))
            continue
        if p.returncode != 0 or not os.path.exists(out):
            dead.append((i, f"worker-exit-{p.returncode}", (stdout or "")[-3000:]))
            continue
        with open(out) as fh:
            (parts if i >= 0 else second_parts).append(json.load(fh))
        os.unlink(out)
    try:
        os.rmdir(tmp)
    except OSError:
        pass
    m = merge(parts)
    # ---- offline check of the recorded call histories (forward order vs reverse order in fresh processes)
    first_hist, second_hist = {}, {}
    for p_ in parts:
        first_hist.update(p_.get("history", {}))
    for p_ in second_parts:
        second_hist.update(p_.get("history", {}))
    hist_stats = {}
    if replay and rp.get("history_first_pass") is not None:
        second_hist, first_hist = first_hist, {str(only): rp["history_first_pass"]}
    if second_hist:
        from .findings import Findings

        hv, hist_stats = compare_histories(prop, tier, seed, first_hist, second_hist)
        m["evals"]["H0:call-history"] += hist_stats.get("calls-compared", 0)
        fnd = Findings()
        for v in hv:
            entry = fnd.lookup(prop, v["mechanism"])
            if entry is not None and entry["kind"] == "known":
                m["known"][v["mechanism"]] += 1
                m["known_what"][v["mechanism"]] = entry["what"]
            else:
                m["violations"].append(v)
    wall = time.monotonic() - t0

    # ---- verdict
    info = prop_info(prop)
    lines = []
    for key, n in sorted(m["known"].items()):
        lines.append(f"KNOWN-FINDING: property={prop} {key} - {m['known_what'].get(key, '')} (observed {n}x this run)")
    viol_paths = []
    seen = set()
    for v in m["violations"]:
        k = (v["monitor"], v["mechanism"])
        if k in seen and len(viol_paths) >= 5:
            continue
        seen.add(k)
        d = hashlib.sha1(json.dumps(v, sort_keys=True, default=str).encode()).hexdigest()[:12]
        rdir = os.path.join(os.environ.get("VMON_REPLAY_DIR", os.path.join(VERIF, "replays")), prop)
        os.makedirs(rdir, exist_ok=True)
        path = os.path.join(rdir, d + ".json")
        v["tree"] = boot.tree_id()
        with open(path, "w") as fh:
            json.dump(v, fh, indent=1, default=str)
        viol_paths.append((v, path))
        if len(viol_paths) >= 25:
            break
    inconcl = []
    for mon in info["deciding"]:
        if not replay and m["evals"].get(mon, 0) == 0:  # a replay re-runs one case only
            inconcl.append(f"monitor={mon} reason=never-reached")
    for i, why, txt in dead:
        inconcl.append(f"shard={i} reason={why}")
        if txt:
            print(txt, file=sys.stderr)
    if m["harness_errors"]:
        inconcl.append(f"harness-errors={len(m['harness_errors'])}")
        for h in m["harness_errors"][:3]:
            print("HARNESS-ERROR case", h["case"], "\n", h["trace"], file=sys.stderr)
    nfail, nsolve = sum(m["solver_fail"].values()), m["evals"].get("solver-call", 0)
    if nsolve and nfail > 0.5 * nsolve:
        inconcl.append(f"solver-failures={nfail}/{nsolve}")
    if sum(m["inconclusive"].values()) > max(2, 0.2 * max(1, m["cases_run"])):
        inconcl.append(f"case-level-inconclusive={dict(m['inconclusive'])}")
    nt = sum(1 for v in m["sigs"].values() if v)
    if not replay and nt < 2:
        inconcl.append(f"distinct_nontrivial={nt}")

    # ---- evidence
    if not replay:
        ev = {
            "property_id": prop,
            "tier": tier,
            "seed": seed,
            "level": "exploration",
            "coverage": {
                "evaluations": int(sum(m["evals"].values())),
                "distinct_nontrivial": int(nt),
                "rule": info["rule"],
                "samples": m["samples"][:12] or [{"note": "no sample recorded"}],
                "cases_run": m["cases_run"],
                "cases_total": m["cases_total"],
                "distinct_signatures": len(m["sigs"]),
                "monitor_evaluations": dict(sorted(m["evals"].items())),
                "largest_deviation_while_holding": {k: float("%.3g" % v) for k, v in sorted(m["maxdev"].items())},
                "return_sites_observed": dict(sorted(m["sites"].items())),
                "solver_failures": dict(m["solver_fail"]),
                "case_level_inconclusive": dict(m["inconclusive"]),
                "case_level_inconclusive_cases": m["inconclusive_cases"][:30],
                "known_findings_observed": dict(m["known"]),
                "call_history_monitor": dict(hist_stats),
                "inconclusive": inconcl,
                "shards": nshards,
                "tree": boot.tree_id(),
                "exhaustive": bool(info.get("exhaustive", False)),
            },
            "assumptions": info["assumptions"],
            "wall_s": round(wall, 2),
            "violations": len(m["violations"]),
        }
        evdir = os.environ.get("VMON_EVIDENCE_DIR", os.path.join(VERIF, "evidence"))  # overridden only by the mutation audit
        os.makedirs(evdir, exist_ok=True)
        with open(os.path.join(evdir, prop + ".json"), "w") as fh:
            json.dump(ev, fh, indent=1, default=str)
            fh.write("\n")

    for ln in lines:
        print(ln)
    print(f"[{prop} {tier} seed={seed}] cases={m['cases_run']}/{m['cases_total']} evaluations={sum(m['evals'].values())} "
          f"distinct_nontrivial={nt} solver_failures={nfail} wall={wall:.1f}s")
    if viol_paths:
        for v, path in viol_paths:
            print(f"VIOLATION property={prop} replay={path}")
            print(f"  monitor={v['monitor']} mechanism={v['mechanism']} case={v['case']} detail={json.dumps(v['detail'], default=str)[:600]}")
        print(f"  ({len(m['violations'])} violating evaluations in total)")
        return 1
    if inconcl:
        for s in inconcl:
            print(f"INCONCLUSIVE property={prop} {s}")
        return 2
    print(f"HELD property={prop} on what was observed")
    return 0


def prop_info(prop):
    # metadata constants are plain module attributes; importing the property module in the parent is cheap
    # (numpy only) because toqito imports are deferred to run()/setup().
    mod = importlib.import_module("vmon.props." + prop)
    return {
        "deciding": list(getattr(mod, "DECIDING", [])),
        "rule": getattr(mod, "RULE", ""),
        "assumptions": list(getattr(mod, "ASSUMPTIONS", [])),
        "exhaustive": getattr(mod, "EXHAUSTIVE", False),
    }


def main(argv=None):
    ap = argparse.ArgumentParser()
    ap.add_argument("prop")
    ap.add_argument("--tier", default=os.environ.get("VERIF_TIER", "quick"), choices=["quick", "thorough"])
    ap.add_argument("--seed", type=int, default=int(os.environ.get("VERIF_SEED", "0")))
    ap.add_argument("--nshards", type=int, default=int(os.environ.get("VMON_SHARDS", "16")))
    ap.add_argument("--replay")
    ap.add_argument("--worker", action="store_true")
    ap.add_argument("--shard", type=int, default=0)
    ap.add_argument("--out")
    ap.add_argument("--only", type=int)
    ap.add_argument("--second", action="store_true")
    a = ap.parse_args(argv)
    if a.prop not in PROPS:
        ap.error("unknown property " + a.prop)
    if a.worker:
        worker(a.prop, a.tier, a.seed, a.shard, a.nshards, a.out, a.only, a.second)
        return 0
    return run_parent(a.prop, a.tier, a.seed, a.nshards, a.replay)


if __name__ == "__main__":
    sys.exit(main())
