"""pytest plugin: run the repository's own tests with the index-movement contracts attached.

Used by the thorough tier of C01-C03 (`-p vmon.pytest_plugin`): every call of the monitored functions that the suite
causes - mostly *internal* calls made by other library functions - is observed by the same reference-model
post-conditions as in the generated workloads.  Nothing is written into the repository; the observations go to the JSON
file named by VMON_PLUGIN_OUT.
"""
from __future__ import annotations

import json
import os

_CTX = None


def pytest_configure(config):  # noqa: ARG001
    global _CTX
    from . import boot, contracts
    from .core import Ctx
    from .findings import Findings

    boot.ensure_deps()
    boot.load_tree()
    prop = os.environ.get("VMON_PLUGIN_PROP", "C01")
    names = [n for n in os.environ.get("VMON_PLUGIN_CONTRACTS", "").split(",") if n] or None
    _CTX = Ctx(prop, "thorough", int(os.environ.get("VERIF_SEED", "0")), Findings())
    _CTX.case = ("suite-under-contract", os.environ.get("VMON_PLUGIN_TESTS", ""))
    from . import hcontracts

    helper = [n for n in (names or []) if n in hcontracts.TARGETS]
    index = [n for n in (names or []) if n not in hcontracts.TARGETS]
    if index or not helper:
        contracts.install(_CTX, index or None)
    if helper:
        hcontracts.install(_CTX, helper)


def pytest_sessionfinish(session, exitstatus):  # noqa: ARG001
    out = os.environ.get("VMON_PLUGIN_OUT")
    if not out or _CTX is None:
        return
    res = {
        "evals": dict(_CTX.evals), "sigs": _CTX.sigs, "violations": _CTX.violations, "known": dict(_CTX.known), "known_what": _CTX.known_what,
        "harness_errors": _CTX.harness_errors, "maxdev": dict(_CTX.maxdev), "exitstatus": int(exitstatus),
        "tests": getattr(session, "testscollected", None), "failed": getattr(session, "testsfailed", None),
    }
    with open(out, "w") as fh:
        json.dump(res, fh, default=str)
