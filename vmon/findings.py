"""Loader for /verif/known_findings.json (read-only at run time)."""
from __future__ import annotations

import json
import os

from .core import VERIF


class Findings:
    def __init__(self, path=None):
        path = path or os.path.join(VERIF, "known_findings.json")
        self.entries = []
        if os.path.exists(path):
            with open(path) as fh:
                self.entries = json.load(fh)["findings"]
        self.index = {(e["property"], e["key"]): e for e in self.entries}

    def lookup(self, prop, key):
        return self.index.get((prop, key))
