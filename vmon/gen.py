"""Seeded generators of hostile inputs.  Every function takes the case's numpy Generator first."""
from __future__ import annotations

import itertools

import numpy as np


def rc(rng, *shape):
    return rng.normal(size=shape) + 1j * rng.normal(size=shape)


def rmat(rng, shape, cplx):
    return rc(rng, *shape) if cplx else rng.normal(size=shape)


def haar(rng, d, real=False):
    g = rng.normal(size=(d, d)) if real else rc(rng, d, d)
    q, r = np.linalg.qr(g)
    ph = np.diag(r) / np.abs(np.diag(r))
    return q * ph


def unit(rng, d, cplx=True):
    v = rc(rng, d) if cplx else rng.normal(size=d)
    return v / np.linalg.norm(v)


def density(rng, d, rank=None, cplx=True):
    rank = d if rank is None else rank
    g = rmat(rng, (d, rank), cplx)
    rho = g @ g.conj().T
    rho = (rho + rho.conj().T) / 2
    return rho / np.trace(rho).real


def psd(rng, d, rank=None, cplx=True):
    rank = d if rank is None else rank
    g = rmat(rng, (d, rank), cplx)
    p = g @ g.conj().T
    return (p + p.conj().T) / 2


def hermitian(rng, d, cplx=True):
    g = rmat(rng, (d, d), cplx)
    return (g + g.conj().T) / 2


def prior(rng, n, kind=None):
    kind = kind if kind is not None else int(rng.integers(0, 3))
    if kind == 0:
        return np.full(n, 1.0 / n)
    p = rng.random(n) + 0.05
    if kind == 2:
        p[int(rng.integers(0, n))] = 0.01
    if kind == 3 and n >= 3:  # one state is never sent: an exact zero that is not in the last position
        p[int(rng.integers(0, n - 1))] = 0.0
    return p / p.sum()


def dims(rng, n, lo=1, hi=4, max_total=None, min_total=2):
    for _ in range(200):
        d = [int(v) for v in rng.integers(lo, hi + 1, size=n)]
        tot = int(np.prod(d))
        if tot >= min_total and (max_total is None or tot <= max_total):
            return d
    return [2] * n


def unique_ids(shape, kind, offset=1):
    """Array whose entries are unique ids, so that an output identifies where every input entry went."""
    n = int(np.prod(shape))
    base = np.arange(offset, offset + n)
    if kind == "i":
        return base.reshape(shape).astype(np.int64)
    if kind == "f":
        return base.reshape(shape).astype(np.float64)
    if kind == "c":
        return (base + 1j * (base[::-1] + 0.5)).reshape(shape).astype(np.complex128)
    if kind == "b":  # bool cannot be unique: pseudo-random pattern
        return ((base * 2654435761) % 7 < 3).reshape(shape)
    if kind == "f4":
        return base.reshape(shape).astype(np.float32)
    raise ValueError(kind)


def many_dims(rng, lo=4, cap=512, nmin=9, nmax=13):
    """Nine or more subsystems, most of local dimension 1 or 2, total size within [lo, cap]."""
    n = int(rng.integers(nmin, nmax + 1))
    while True:
        d = [int(v) for v in rng.choice([1, 2, 3], size=n, p=[0.45, 0.4, 0.15])]
        if lo <= int(np.prod(d)) <= cap:
            return d


NARROW = ("int8", "uint8", "int16", "uint16", "int32", "uint32")


def narrow_ints(rng, shape, dtype):
    """Integer array of a type narrower than the platform integer, entries close to the type's limits (sums leave the type's range)."""
    info = np.iinfo(dtype)
    lo, hi = int(info.min), int(info.max)
    x = rng.integers(hi - hi // 8, hi, size=shape, endpoint=True)
    if lo < 0 and rng.random() < 0.5:
        neg = rng.random(shape) < 0.3
        x = np.where(neg, -x, x)
    return x.astype(dtype)


def layout(x, how):
    """Same values, different memory layout / flags."""
    if how == "C":
        return np.ascontiguousarray(x)
    if how == "F":
        return np.asfortranarray(x)
    if how == "strided":
        big = np.zeros(tuple(2 * s for s in x.shape), dtype=x.dtype)
        view = big[tuple(slice(None, None, 2) for _ in x.shape)]
        view[...] = x
        return view
    if how == "neg":
        rev = np.ascontiguousarray(x[tuple(slice(None, None, -1) for _ in x.shape)])
        return rev[tuple(slice(None, None, -1) for _ in x.shape)]
    if how == "ro":
        y = np.array(x, copy=True)
        y.setflags(write=False)
        return y
    raise ValueError(how)


def all_perms(n):
    return list(itertools.permutations(range(n)))


def subsets(n, nonempty=True):
    out = []
    for k in range(1 if nonempty else 0, n + 1):
        out.extend(itertools.combinations(range(n), k))
    return out


def product_state_mixture(rng, da, db, k, cplx=True):
    w = rng.random(k) + 0.05
    w /= w.sum()
    rho = 0
    for i in range(k):
        v = np.kron(unit(rng, da, cplx), unit(rng, db, cplx))
        rho = rho + w[i] * np.outer(v, v.conj())
    return (rho + rho.conj().T) / 2


def schmidt_state(rng, da, db, s, cplx=True):
    """|psi> = sum_i s_i u_i (x) v_i with Haar local bases."""
    s = np.asarray(s, dtype=float)
    ua = haar(rng, da, real=not cplx)
    ub = haar(rng, db, real=not cplx)
    psi = sum(s[i] * np.kron(ua[:, i], ub[:, i]) for i in range(len(s)))
    return psi, ua, ub


def stinespring_kraus(rng, d_in, d_out, r, cplx=True):
    """r Kraus operators of a CPTP map C^{d_in} -> C^{d_out}: slices of a Haar isometry (needs r*d_out >= d_in)."""
    big = r * d_out
    g = rmat(rng, (big, d_in), cplx)
    q, _ = np.linalg.qr(g)
    return [q[i * d_out:(i + 1) * d_out, :] for i in range(r)]


def mixed_dtype_channel(rng, d, pattern):
    """Trace-preserving square Kraus families whose operators have DIFFERENT dtypes (first one the narrowest).

    pattern 'real-then-complex': K_0 real, later operators complex (U_i K_i with complex unitaries keeps sum K^dagger K = 1);
    pattern 'int-then-float': an integer 0/1 diagonal projector first, then float operators on the complement.
    """
    if pattern == "real-then-complex":
        ks = stinespring_kraus(rng, d, d, int(rng.integers(2, 5)), cplx=False)
        return [np.ascontiguousarray(ks[0])] + [haar(rng, d) @ k for k in ks[1:]]
    k = int(rng.integers(1, d))
    proj = np.diag((np.arange(d) < k).astype(np.int64))
    rest = np.diag((np.arange(d) >= k).astype(float))
    r = int(rng.integers(1, 4))
    w = rng.random(r) + 0.1
    w /= w.sum()
    others = [np.sqrt(w[i]) * (haar(rng, d, real=True) @ rest) for i in range(r)]
    return [proj] + others


def factorisations(big, n):
    """Ordered factorisations of big into n and into 2 factors (each >= 1), a few of them."""
    out = []
    for k in {n, 2}:
        def rec(rest, parts):
            if len(parts) == k - 1:
                out.append(tuple(parts + [rest]))
                return
            for f in range(1, rest + 1):
                if rest % f == 0:
                    rec(rest // f, parts + [f])
        rec(big, [])
    out = [f for f in out if sum(1 for v in f if v > 1) >= 1]
    out.sort(key=lambda f: (-sum(1 for v in f if v > 1), f))
    return out
