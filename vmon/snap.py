"""Deep digests of arguments / object state / RNG state for before-after (immutability, reproducibility) monitors."""
from __future__ import annotations

import hashlib

import numpy as np


def _feed(h, obj, ids, depth=0):
    if depth > 8:
        h.update(b"<deep>")
        return
    if isinstance(obj, np.ndarray):
        h.update(str(obj.dtype).encode())
        h.update(str(obj.shape).encode())
        if obj.dtype == object:
            for it in obj.reshape(-1):
                _feed(h, it, ids, depth + 1)
        else:
            h.update(np.ascontiguousarray(obj).tobytes())
    elif isinstance(obj, (list, tuple)):
        h.update(type(obj).__name__.encode())
        h.update(str(len(obj)).encode())
        for it in obj:
            if ids:
                h.update(str(id(it)).encode())
            _feed(h, it, ids, depth + 1)
    elif isinstance(obj, dict):
        for k in sorted(obj, key=repr):
            h.update(repr(k).encode())
            _feed(h, obj[k], ids, depth + 1)
    elif hasattr(obj, "__dict__") and not callable(obj):
        _feed(h, vars(obj), ids, depth + 1)
    else:
        h.update(repr(obj).encode())


def _feed_plain(h, obj, depth=0):
    if depth > 6:
        return
    if isinstance(obj, np.ndarray):
        if obj.dtype != object:
            h.update(str(obj.dtype).encode())
            h.update(str(obj.shape).encode())
            h.update(np.ascontiguousarray(obj).tobytes())
    elif isinstance(obj, (list, tuple)):
        h.update(type(obj).__name__.encode())
        h.update(str(len(obj)).encode())
        for it in obj:
            _feed_plain(h, it, depth + 1)
    elif isinstance(obj, dict):
        for k in sorted(obj, key=repr):
            h.update(repr(k).encode())
            _feed_plain(h, obj[k], depth + 1)
    elif isinstance(obj, (bool, int, float, complex, str, bytes, type(None), np.generic)):
        h.update(repr(obj).encode())
    else:
        h.update(type(obj).__name__.encode())  # other objects (solver variables, games ...) are not looked into here


def plain_digest(obj):
    """Digest of the plain data in an argument: numeric arrays, numbers, strings and lists / tuples / dicts of those."""
    h = hashlib.sha1()
    _feed_plain(h, obj)
    return h.hexdigest()


def digest(obj, ids=False):
    """SHA-1 over dtype/shape/bytes, recursively; with ids=True also the identity of list elements (notices replacement)."""
    h = hashlib.sha1()
    _feed(h, obj, ids)
    return h.hexdigest()


def global_rng_digest():
    st = np.random.get_state()
    h = hashlib.sha1()
    h.update(str(st[0]).encode())
    h.update(np.asarray(st[1]).tobytes())
    h.update(repr(st[2:]).encode())
    return h.hexdigest()


# ---------------------------------------------------------------------------------------- result fingerprints (call-history monitor)
def fingerprint(obj, depth=0):
    """Small JSON-able summary of a returned value, compared with a tolerance by compare_fingerprints."""
    if depth > 3:
        return ["o", "deep"]
    if isinstance(obj, BaseException):
        return ["e", type(obj).__name__]
    if obj is None:
        return ["n"]
    if isinstance(obj, str):
        return ["t", obj[:80]]
    if isinstance(obj, (bool, int, float, complex, np.generic)):
        z = complex(obj)
        return ["s", z.real, z.imag]
    if hasattr(obj, "toarray") and hasattr(obj, "shape") and int(np.prod(obj.shape)) <= 1 << 20:
        obj = obj.toarray()
    if isinstance(obj, np.ndarray):
        if obj.dtype == object or obj.dtype.kind not in "biufc":
            return ["o", "ndarray:" + str(obj.dtype)]
        flat = np.asarray(obj, dtype=complex).reshape(-1)
        w = np.sin(1.0 + np.arange(flat.size))
        tot, wsum = flat.sum(), (flat * w).sum()
        return ["a", list(obj.shape), float(tot.real), float(tot.imag), float(np.abs(flat).sum()), float(wsum.real), float(wsum.imag)]
    if isinstance(obj, (list, tuple)):
        return ["l", len(obj), [fingerprint(x, depth + 1) for x in obj[:8]]]
    if isinstance(obj, dict):
        return ["d", len(obj)]
    return ["o", type(obj).__name__]


def compare_fingerprints(a, b, tol):
    """None when equal within tol (relative to the magnitudes involved), else a short description of the first difference."""
    if a[0] != b[0]:
        return f"kind {a[0]} vs {b[0]}"
    k = a[0]
    if k in "ento":
        return None if a == b else f"{a} vs {b}"
    if k == "d":
        return None if a[1] == b[1] else "dict sizes differ"
    if k == "l":
        if a[1] != b[1]:
            return f"lengths {a[1]} vs {b[1]}"
        for x, y in zip(a[2], b[2]):
            d = compare_fingerprints(x, y, tol)
            if d:
                return d
        return None
    if k == "a" and a[1] != b[1]:
        return f"shapes {a[1]} vs {b[1]}"
    xs = [v for v in a[1:] if isinstance(v, float)]
    ys = [v for v in b[1:] if isinstance(v, float)]
    scale = 1.0 + max([abs(v) for v in xs + ys if np.isfinite(v)] or [0.0])
    for x, y in zip(xs, ys):
        if np.isnan(x) and np.isnan(y):
            continue
        if x == y:
            continue
        if not (abs(x - y) <= tol * scale):
            return f"{x!r} vs {y!r}"
    return None
