"""Deep digests of arguments / object state / RNG state for before-after (immutability, reproducibility) monitors."""
from __future__ import annotations

import hashlib

import numpy as np


def _feed(h, obj, ids, depth=0):
    if depth > 8:
        h.update(b"<deep>")
        return
    if isinstance(obj, np.ndarray):
        h.update(str(obj.dtype).encode())
        h.update(str(obj.shape).encode())
        if obj.dtype == object:
            for it in obj.reshape(-1):
                _feed(h, it, ids, depth + 1)
        else:
            h.update(np.ascontiguousarray(obj).tobytes())
    elif isinstance(obj, (list, tuple)):
        h.update(type(obj).__name__.encode())
        h.update(str(len(obj)).encode())
        for it in obj:
            if ids:
                h.update(str(id(it)).encode())
            _feed(h, it, ids, depth + 1)
    elif isinstance(obj, dict):
        for k in sorted(obj, key=repr):
            h.update(repr(k).encode())
            _feed(h, obj[k], ids, depth + 1)
    elif hasattr(obj, "__dict__") and not callable(obj):
        _feed(h, vars(obj), ids, depth + 1)
    else:
        h.update(repr(obj).encode())


def _feed_plain(h, obj, depth=0):
    if depth > 6:
        return
    if isinstance(obj, np.ndarray):
        if obj.dtype != object:
            h.update(str(obj.dtype).encode())
            h.update(str(obj.shape).encode())
            h.update(np.ascontiguousarray(obj).tobytes())
    elif isinstance(obj, (list, tuple)):
        h.update(type(obj).__name__.encode())
        h.update(str(len(obj)).encode())
        for it in obj:
            _feed_plain(h, it, depth + 1)
    elif isinstance(obj, dict):
        for k in sorted(obj, key=repr):
            h.update(repr(k).encode())
            _feed_plain(h, obj[k], depth + 1)
    elif isinstance(obj, (bool, int, float, complex, str, bytes, type(None), np.generic)):
        h.update(repr(obj).encode())
    else:
        h.update(type(obj).__name__.encode())  # other objects (solver variables, games ...) are not looked into here


def plain_digest(obj):
    """Digest of the plain data in an argument: numeric arrays, numbers, strings and lists / tuples / dicts of those."""
    h = hashlib.sha1()
    _feed_plain(h, obj)
    return h.hexdigest()


def digest(obj, ids=False):
    """SHA-1 over dtype/shape/bytes, recursively; with ids=True also the identity of list elements (notices replacement)."""
    h = hashlib.sha1()
    _feed(h, obj, ids)
    return h.hexdigest()


def global_rng_digest():
    st = np.random.get_state()
    h = hashlib.sha1()
    h.update(str(st[0]).encode())
    h.update(np.asarray(st[1]).tobytes())
    h.update(repr(st[2:]).encode())
    return h.hexdigest()
