"""Attach contract monitors to the real functions and re-bind them in every loaded toqito module.

toqito binds with ``from toqito.x import f`` everywhere, so wrapping the defining module's
attribute is not enough: every attribute of every loaded ``toqito.*`` module that *is* the original
function object is replaced, which makes internal calls (partial_trace -> permute_systems, SDP
builders -> partial_trace, ...) observable events.

icontract is used for functions that never call themselves; icontract suppresses a function's
contracts on re-entrant calls, so the self-recursive ones (permute_systems, partial_trace,
partial_transpose on cvxpy variables) get a minimal own wrapper with the same condition function.
Conditions *record and return True*: a failing oracle is logged through the context, it never
aborts the execution it observes.
"""
from __future__ import annotations

import functools
import inspect
import sys

_ATTACHED = {}


def _rebind(orig, wrapped):
    n = 0
    for name, mod in list(sys.modules.items()):
        if mod is None or not (name == "toqito" or name.startswith("toqito.")):
            continue
        for k, v in list(vars(mod).items()):
            if v is orig:
                setattr(mod, k, wrapped)
                n += 1
    return n


def _snapshot(v):
    import numpy as np

    if isinstance(v, np.ndarray) and v.size <= 4096:
        return v.copy()
    if isinstance(v, list):
        return [_snapshot(x) for x in v]
    return v


def own_wrapper(orig, cond):
    sig = inspect.signature(orig)

    first = next(iter(sig.parameters))

    @functools.wraps(orig)
    def wrapper(*args, **kwargs):
        # snapshot the small arguments BEFORE the call (the library may modify e.g. a caller-supplied `dim` array in place;
        # the post-condition must see what was passed, not what is left)
        try:
            ba = sig.bind(*args, **kwargs)
            ba.apply_defaults()
            pre = {k: _snapshot(v) if k != first else v for k, v in ba.arguments.items()}
        except TypeError:
            pre = None
        result = orig(*args, **kwargs)
        try:
            if pre is not None:
                cond(result=result, **pre)
        except Exception:  # noqa: BLE001 - a bug in the monitor must never change the observed execution
            from . import contracts

            if contracts.CTX is not None:
                contracts.CTX.harness_error("contract:" + orig.__name__)
        return result

    wrapper.__vmon_orig__ = orig
    return wrapper


def icontract_wrapper(orig, cond):
    import icontract

    class ContractBroken(Exception):
        pass

    wrapped = icontract.ensure(cond, error=ContractBroken)(orig)
    wrapped.__vmon_orig__ = orig
    return wrapped


def attach(module_name, func_name, cond, reentrant=False):
    mod = sys.modules[module_name]
    orig = getattr(mod, func_name)
    if hasattr(orig, "__vmon_orig__"):
        return 0
    wrapped = own_wrapper(orig, cond) if reentrant else icontract_wrapper(orig, cond)
    n = _rebind(orig, wrapped)
    _ATTACHED[(module_name, func_name)] = (orig, wrapped, n)
    return n


def original(module_name, func_name):
    e = _ATTACHED.get((module_name, func_name))
    return e[0] if e else getattr(sys.modules[module_name], func_name)
