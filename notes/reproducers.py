"""Scratch reproducers for the defects listed in DESIGN.md section 5.

NOT part of the verification framework (no monitors, no verdicts, not referenced by MANIFEST.json).
Each block shows, against the real code in $VERIF_REPO (default /repo), the smallest input found
while reading that contradicts a property statement.  Run:  /venv/bin/python notes/reproducers.py
"""
import itertools
import os
import sys
import warnings

import numpy as np

sys.path.insert(0, os.environ.get("VERIF_REPO", "/repo"))
warnings.filterwarnings("ignore")
rng = np.random.default_rng(0)


def rc(*s):
    return rng.normal(size=s) + 1j * rng.normal(size=s)


def rvec(d):
    v = rc(d)
    return v / np.linalg.norm(v)


def show(tag, fn):
    try:
        print(f"{tag}: {fn()}")
    except Exception as exc:  # noqa: BLE001 - we want to see every failure mode
        print(f"{tag}: RAISES {type(exc).__name__}: {str(exc)[:90]}")


# 1 C07 classical value with unequal answer alphabets -------------------------------------------
def d01():
    from toqito.nonlocal_games.nonlocal_game import NonlocalGame

    a, b, x, y = 2, 3, 2, 1
    r = np.random.default_rng(0)
    for _ in range(200):
        prob = r.random((x, y))
        prob /= prob.sum()
        pred = (r.random((a, b, x, y)) < 0.4).astype(float)
        brute = max(
            sum(prob[i, j] * pred[f[i], g[j], i, j] for i in range(x) for j in range(y))
            for f in itertools.product(range(a), repeat=x)
            for g in itertools.product(range(b), repeat=y)
        )
        lib = NonlocalGame(prob, pred).classical_value()
        if abs(lib - brute) > 1e-9:
            return f"library {lib:.4f} != brute force {brute:.4f} on shape {(a, b, x, y)}"
    return "no mismatch"


show("01 C07 classical_value", d01)


# 2-4 C09 extended nonlocal game ------------------------------------------------------------------
def ext_game(d, a, b, x, y, seed=1):
    r = np.random.default_rng(seed)
    prob = r.random((x, y))
    prob /= prob.sum()
    pred = np.zeros((d, d, a, b, x, y), complex)
    for ia, ib, ix, iy in itertools.product(range(a), range(b), range(x), range(y)):
        g = r.normal(size=(d, d)) + 1j * r.normal(size=(d, d))
        p = g @ g.conj().T
        pred[:, :, ia, ib, ix, iy] = p / np.linalg.eigvalsh(p).max() * (r.random() < 0.6)
    return prob, pred


def d02():
    from toqito.nonlocal_games.extended_nonlocal_game import ExtendedNonlocalGame

    prob, pred = ext_game(2, 2, 2, 2, 2)
    d, _, a, b, x, y = pred.shape
    brute = max(
        np.linalg.eigvalsh(sum(prob[i, j] * pred[:, :, f[i], g[j], i, j] for i in range(x) for j in range(y))).max()
        for f in itertools.product(range(a), repeat=x)
        for g in itertools.product(range(b), repeat=y)
    )
    game = ExtendedNonlocalGame(prob, pred)
    return (
        f"unentangled lib {game.unentangled_value():.4f} vs brute {brute:.4f}; "
        f"NPA1 {game.commuting_measurement_value_upper_bound(1):.4f} (must be >= brute)"
    )


show("02/03 C09 unentangled + NPA", d02)


def d04():
    from toqito.nonlocal_games.extended_nonlocal_game import ExtendedNonlocalGame

    prob, pred = ext_game(2, 2, 3, 2, 2)
    game = ExtendedNonlocalGame(prob, pred)
    out = []
    for name, fn in (("npa", lambda: game.commuting_measurement_value_upper_bound(1)), ("qlb", lambda: game.quantum_value_lower_bound(iters=1))):
        try:
            out.append(f"{name}={fn():.4f}")
        except Exception as exc:  # noqa: BLE001
            out.append(f"{name} RAISES {type(exc).__name__}")
    return ", ".join(out)


show("03/04 C09 A != B, d != |B|", d04)


# 5 C09 hedging with complex Q -------------------------------------------------------------------
def d05():
    from toqito.nonlocal_games.quantum_hedging import QuantumHedging

    g = rc(4, 4)
    q = g @ g.conj().T
    q /= np.linalg.eigvalsh(q).max()
    h = QuantumHedging(q, 1)
    return f"max primal {h.max_prob_outcome_a_primal():.4f} vs dual {h.max_prob_outcome_a_dual():.4f}"


show("05 C09 hedging complex Q", d05)


# 6 C09 optimal_clone complex amplitudes ---------------------------------------------------------
def d06():
    from toqito.state_opt import optimal_clone

    e0, e1 = np.array([[1.0], [0]]), np.array([[0], [1.0]])
    return optimal_clone([e0, (e0 + 1j * e1) / np.sqrt(2)], [0.5, 0.5])


show("06 C09 optimal_clone complex", d06)


# 7-9 C10/C11 complex ensembles ------------------------------------------------------------------
def d07():
    from toqito.state_opt import state_distinguishability

    vs = [rvec(3) for _ in range(4)]
    p = [0.25] * 4
    pr = state_distinguishability(vs, p, strategy="unambiguous", primal_dual="primal")[0]
    try:
        du = state_distinguishability(vs, p, strategy="unambiguous", primal_dual="dual")[0]
    except Exception as exc:  # noqa: BLE001
        du = f"RAISES {type(exc).__name__}"
    return f"unambiguous primal {pr:.4f} dual {du}"


show("07 C10 unambiguous dual complex", d07)


def d08():
    from toqito.state_opt import state_exclusion

    return state_exclusion([rvec(2) for _ in range(3)], [1 / 3] * 3, primal_dual="primal")[0]


show("08 C11 exclusion primal complex", d08)


def d09():
    from toqito.state_opt import state_distinguishability

    vs = [rvec(3) for _ in range(4)]
    p = np.array([0.1, 0.2, 0.3, 0.4])
    val, meas = state_distinguishability(vs, list(p), primal_dual="dual")
    ms = [np.array(m, dtype=complex) for m in meas]
    att = sum(p[i] * (vs[i].conj() @ ms[i] @ vs[i]).real for i in range(4))
    attc = sum(p[i] * (vs[i].conj() @ ms[i].conj() @ vs[i]).real for i in range(4))
    return f"reported {val:.4f}; attained by returned M {att:.4f}; by conj(M) {attc:.4f}"


show("09 C10 dual-form POVM", d09)


# 10 C12 caller's list mutated --------------------------------------------------------------------
def d10():
    from toqito.state_opt import symmetric_extension_hierarchy

    vs = [rvec(4).reshape(-1, 1) for _ in range(2)]
    ids = [id(v) for v in vs]
    symmetric_extension_hierarchy(vs, [0.5, 0.5], level=1)
    return f"elements replaced: {[id(v) for v in vs] != ids}, shapes now {[v.shape for v in vs]}"


show("10 C12 states list", d10)


# 11/12 C13 ---------------------------------------------------------------------------------------
def d11():
    from toqito.state_metrics import hilbert_schmidt, trace_distance

    rho = np.array([[1.0, 0], [0, 0]])
    sig = np.array([[0.5, 0.5], [0.5, 0.5]])
    td = 0.5 * np.abs(np.linalg.eigvalsh(rho - sig)).sum()
    hs = np.trace((rho - sig) @ (rho - sig))
    return f"trace_distance lib {trace_distance(rho, sig):.4f} vs {td:.4f}; hilbert_schmidt lib {hilbert_schmidt(rho, sig):.4f} vs Tr(d^2) {hs:.4f}"


show("11/12 C13 trace distance, HS", d11)


# 13 C14 schmidt_rank unequal dims ----------------------------------------------------------------
def d13():
    from toqito.state_props import schmidt_rank

    v = np.kron(rvec(2), rvec(3))
    return f"product vector on 2x3 -> schmidt_rank {schmidt_rank(v, [2, 3])}"


show("13 C14 schmidt_rank", d13)


# 14 C15 is_separable -----------------------------------------------------------------------------
def sep(da, db, k):
    w = rng.random(k)
    w /= w.sum()
    rho = 0
    for i in range(k):
        v = np.kron(rvec(da), rvec(db))
        rho = rho + w[i] * np.outer(v, v.conj())
    return rho


def d14():
    from toqito.state_props import has_symmetric_extension, is_separable

    out = [f"3x3 mix of 5 products -> {is_separable(sep(3, 3, 5), [3, 3])}"]
    for dims in ([2, 4], [4, 4]):
        try:
            out.append(f"{dims} -> {is_separable(sep(*dims, 20), dims)}")
        except Exception as exc:  # noqa: BLE001
            out.append(f"{dims} RAISES {type(exc).__name__}")
    out.append(f"has_symmetric_extension(I/9) -> {has_symmetric_extension(np.eye(9) / 9, 2)}")
    return "; ".join(out)


show("14 C15 separability", d14)


# 15 C16 Gram round trip ----------------------------------------------------------------------------
def d15():
    from toqito.matrix_ops import vectors_from_gram_matrix, vectors_to_gram_matrix

    g = vectors_to_gram_matrix([rc(3) for _ in range(3)])
    g2 = vectors_to_gram_matrix(vectors_from_gram_matrix(g))
    return f"round trip equal: {np.allclose(g, g2)}; equals conj(G): {np.allclose(g.conj(), g2)}"


show("15 C16 gram", d15)


# 16 C17 werner list form ---------------------------------------------------------------------------
def d16():
    from toqito.states import werner

    return f"werner(2,[0.5]) == werner(2,0.5): {np.allclose(werner(2, [0.5]), werner(2, 0.5))}"


show("16 C17 werner", d16)


# 17/18 C18 -----------------------------------------------------------------------------------------
def d17():
    from toqito.perms import antisymmetric_projection, symmetric_projection

    out = [f"trace A(2,2) = {np.trace(antisymmetric_projection(2, 2)):.1f} (want 1)"]
    out.append(f"partial shape {np.shape(antisymmetric_projection(3, 2, True))} (want (9,3))")
    try:
        symmetric_projection(1, 2)
        out.append("S(1,2) ok")
    except Exception as exc:  # noqa: BLE001
        out.append(f"S(1,2) RAISES {type(exc).__name__}")
    return "; ".join(out)


show("17/18 C18 projectors", d17)


# 19 C19 ----------------------------------------------------------------------------------------------
show("19a C19 random_state_vector([2,3])", lambda: __import__("toqito.rand", fromlist=["x"]).random_state_vector([2, 3]).shape)
show(
    "19b C19 random_density_matrix bures k<dim",
    lambda: __import__("toqito.rand", fromlist=["x"]).random_density_matrix(3, True, 2, "bures", seed=3).shape,
)


# 20/21 C20 -------------------------------------------------------------------------------------------
def d20():
    import scipy.linalg as sl

    from toqito.channel_metrics import channel_fidelity, completely_bounded_trace_norm
    from toqito.channel_ops import kraus_to_choi

    u = np.linalg.qr(rc(2, 2))[0]
    h = rc(2, 2)
    h = h + h.conj().T
    v = u @ sl.expm(1j * 0.4 * h / np.linalg.norm(h))
    ev = np.linalg.eigvals(u.conj().T @ v)
    # distance from the origin to the segment between the two eigenvalues
    t = np.clip(-(ev[0] * np.conj(ev[1] - ev[0])).real / abs(ev[1] - ev[0]) ** 2, 0, 1)
    delta = abs(ev[0] + t * (ev[1] - ev[0]))
    cf = channel_fidelity(kraus_to_choi([u]), kraus_to_choi([v]))
    ks = [rc(2, 2) for _ in range(2)]
    s = sum(k.conj().T @ k for k in ks)
    cb = completely_bounded_trace_norm(kraus_to_choi(ks))
    return f"channel_fidelity(U,V) {cf:.4f} vs closed form {delta:.4f}; cb norm of CP map {cb:.4f} vs ||Phi*(I)||_op {np.linalg.norm(s, 2):.4f}"


show("20/21 C20", d20)


# 22 C01 swap with separate row/col dims, 3 subsystems ---------------------------------------------
show("22 C01 swap 2-row dim", lambda: __import__("toqito.perms", fromlist=["x"]).swap(np.arange(12 * 18).reshape(12, 18), [1, 3], [[2, 3, 2], [3, 2, 3]]).shape)


# 23 C13 fidelity_of_separability on 3x2 --------------------------------------------------------------
def d23():
    from toqito.state_metrics import fidelity_of_separability

    v = np.kron(rvec(3), rvec(2))
    return fidelity_of_separability(np.outer(v, v.conj()), [3, 2], 1)


show("23 C13 fidelity_of_separability 3x2", d23)
