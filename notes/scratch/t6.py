import numpy as np
from toqito.channel_props import *
from toqito.channel_ops import kraus_to_choi, dual_channel, apply_channel, complementary_channel
from toqito.rand import random_unitary
rng=np.random.default_rng(0)
def rc(*s): return rng.normal(size=s)+1j*rng.normal(size=s)
def stinespring(din,dout,r):
    V=np.linalg.qr(rc(dout*r,din))[0]  # isometry (dout*r x din) requires dout*r>=din
    return [V[i*dout:(i+1)*dout,:] for i in range(r)]
for din,dout,r in [(2,2,2),(2,2,3),(3,3,2),(3,2,2),(2,3,2),(2,2,1),(3,3,3)]:
    K=stinespring(din,dout,r)
    J=kraus_to_choi(K)
    res={}
    for name,f in [('flat',K),('pairs',[[k,k] for k in K]),('col',[[k] for k in K]),('choi',J)]:
        row=[]
        for pred in (is_completely_positive,is_herm_preserving,is_trace_preserving,is_unital,is_quantum_channel,is_positive,choi_rank,is_extremal,is_unitary):
            try:
                if name=='choi' and din!=dout and pred in (is_trace_preserving,):
                    v=pred(f,dim=[din,dout])
                else: v=pred(f)
            except Exception as e: v="EXC:"+type(e).__name__+":"+str(e)[:40]
            row.append(v)
        print((din,dout,r),name,row)
