import numpy as np, warnings, scipy.sparse as sp
warnings.filterwarnings("ignore")
from toqito.perms import *
from ref import ref_permute
X=np.arange(12*18).reshape(12,18)
for dim,sysv in [([[2,3,2],[3,2,3]],[1,3]),([[2,3,2],[3,2,3]],[1,2]),([[2,6],[3,6]],[1,2]),([2,3,2],[1,3])]:
    try:
        Xi = X if np.array(dim).ndim==2 else np.arange(144).reshape(12,12)
        Y=swap(Xi,sysv,dim)
        d=np.array(dim); dr,dc=(d[0],d[1]) if d.ndim==2 else (d,d)
        p=list(range(len(dr))); p[sysv[0]-1],p[sysv[1]-1]=p[sysv[1]-1],p[sysv[0]-1]
        print(dim,sysv,"ok",np.array_equal(Y,ref_permute(Xi,p,dr,dc)))
    except Exception as e: print(dim,sysv,"EXC",type(e).__name__,str(e)[:80])
# swap validation: sys out of range
for sysv in ([0,1],[1,4],[1,1],[2,1]):
    try: print(sysv, swap(np.arange(16).reshape(4,4),sysv,[2,2]).shape)
    except Exception as e: print(sysv,"EXC",type(e).__name__,str(e)[:60])
# sparse
P=permutation_operator([2,3],[1,0],False,True); print(type(P), P.shape)
P2=permutation_operator(2,[1,2,0]); print(P2.shape)
S=swap_operator([2,3]); print(type(S),S.shape); S2=swap_operator(3,True); print(type(S2))
print(type(permute_systems(sp.identity(6),[1,0],[2,3])))
print(permutation_operator(3,[0]).shape)
