import numpy as np, itertools
from toqito.perms import permute_systems, swap, permutation_operator, swap_operator
from ref import ref_permute
rng=np.random.default_rng(0)
bad=0;tot=0
for trial in range(300):
    n=rng.integers(2,5)
    dr=rng.integers(1,4,size=n); dc=rng.integers(1,4,size=n)
    if np.prod(dr)<2 or np.prod(dc)<2: continue
    perm=list(rng.permutation(n))
    X=rng.normal(size=(np.prod(dr),np.prod(dc)))+1j*rng.normal(size=(np.prod(dr),np.prod(dc)))
    for inv in (False,True):
        for ro in (False,True):
            tot+=1
            try:
                Y=permute_systems(X,perm,[list(dr),list(dc)],ro,inv)
            except Exception as e:
                print("EXC",dr,dc,perm,inv,ro,repr(e)[:100]);bad+=1;continue
            # if inv, dims of ref are...
            R=ref_permute(X,perm,dr,dc,inv,ro)
            if Y.shape!=R.shape or not np.allclose(Y,R):
                bad+=1; print("MISMATCH",dr,dc,perm,inv,ro)
print(bad,tot)
