import numpy as np, warnings
warnings.filterwarnings("ignore")
from toqito.state_opt import optimal_clone
e0,e1=np.array([[1.],[0]]),np.array([[0],[1.]])
ep=(e0+e1)/np.sqrt(2); em=(e0-e1)/np.sqrt(2)
rng=np.random.default_rng(0)
for sts,p in ([[e0,e1,ep,em],[.1,.2,.3,.4]], [[e0,ep],[.5,.5]], [[e0,ep],[.3,.7]], [[e0,e1,ep,em],[.25]*4],[[e0,ep,em],[1/3]*3]):
    v1=[round(float(optimal_clone(sts,p,1,s)),5) for s in (False,True)]
    v2=[round(float(optimal_clone(sts,p,2,s)),5) for s in (False,True)]
    print(len(sts),p,"n=1 dual/primal",v1,"n=2 dual/primal",v2,"v1^2",round(v1[0]**2,5))
