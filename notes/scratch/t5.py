import numpy as np, itertools
from toqito.channel_ops import apply_channel, kraus_to_choi, choi_to_kraus, partial_channel, natural_representation, dual_channel, complementary_channel
rng=np.random.default_rng(3)
def rc(*s): return rng.normal(size=s)+1j*rng.normal(size=s)
def ref_apply(X,A,B): return sum(a@X@b.conj().T for a,b in zip(A,B))
def ref_choi(A,B,din):
    dout=A[0].shape[0]
    J=np.zeros((din*dout,din*B[0].shape[0]),complex) if False else 0
    J=0
    for i in range(din):
        for j in range(din):
            E=np.zeros((din,din)); E[i,j]=1
            J=J+np.kron(E,ref_apply(E,A,B))
    return J
bad=0; tot=0
for trial in range(200):
    din=rng.integers(1,5); dout=rng.integers(1,5); r=rng.integers(1,5)
    A=[rc(dout,din) for _ in range(r)]
    cp = rng.random()<0.5
    B=A if cp else [rc(dout,din) for _ in range(r)]
    X=rc(din,din)
    exp=ref_apply(X,A,B)
    forms={}
    if cp:
        forms['flat']=list(A)
        forms['nested_col']=[[a] for a in A]
        if r>2: forms['nested_row']=[list(A)]
    forms['pairs']=[[a,b] for a,b in zip(A,B)]
    for name,f in forms.items():
        tot+=1
        try:
            Y=apply_channel(X,f)
            if not np.allclose(Y,exp): bad+=1; print("apply mismatch",name,din,dout,r,cp)
        except Exception as e: bad+=1; print("apply EXC",name,din,dout,r,cp,repr(e)[:100])
        try:
            J=kraus_to_choi(f)
            Jr=ref_choi(A,B,din)
            if J.shape!=Jr.shape or not np.allclose(J,Jr): bad+=1; print("k2c mismatch",name,din,dout,r,cp)
        except Exception as e: bad+=1; print("k2c EXC",name,din,dout,r,cp,repr(e)[:100]); continue
        try:
            Y=apply_channel(X,J)
            if not np.allclose(Y,exp): bad+=1; print("apply choi mismatch",name,din,dout,r,cp)
        except Exception as e: bad+=1; print("applychoi EXC",name,din,dout,r,cp,repr(e)[:100])
        try:
            K=choi_to_kraus(J,dim=[int(din),int(dout)])
            Y=apply_channel(X,K)
            if not np.allclose(Y,exp,atol=1e-7): bad+=1; print("c2k mismatch",name,din,dout,r,cp, type(K[0]), len(K))
        except Exception as e: bad+=1; print("c2k EXC",name,din,dout,r,cp,repr(e)[:100])
    if cp:
        N=natural_representation(A)
        if not np.allclose(N@X.reshape(-1), exp.reshape(-1)): bad+=1; print("natrep mismatch")
print(bad,tot)
