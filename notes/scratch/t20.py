import numpy as np, warnings
warnings.filterwarnings("ignore")
from toqito.states import *
from toqito.matrices import *
from toqito.perms import permutation_operator
from toqito.state_props import is_ppt, is_mutually_unbiased_basis
print(np.allclose(werner(2,[0.5]),werner(2,0.5)), np.round(werner(2,[0.5]),3).diagonal())
a=[0.1,0.2,0.3,0.05,0.15]
W=werner(2,a)
rng=np.random.default_rng(0)
G=rng.normal(size=(2,2))+1j*rng.normal(size=(2,2)); U=np.linalg.qr(G)[0]
UUU=np.kron(np.kron(U,U),U)
print("UUU inv",np.allclose(UUU@W@UUU.conj().T,W), "trace",np.trace(W))
# dependence on alpha[0] and alpha[-1]
a2=list(a); a2[0]=0.9; print("depends on alpha[0]:", not np.allclose(werner(2,a2),W))
a3=list(a); a3[-1]=0.9; print("depends on alpha[-1]:", not np.allclose(werner(2,a3),W))
for d in (2,3,5,7):
    try:
        m=mutually_unbiased_basis(d); print(d,len(m),is_mutually_unbiased_basis(m))
    except Exception as e: print(d,"EXC",e)
for d in (2,3):
    for al in (-0.5,0.3,1/(d+1),1/(d+1)+0.05,0.9):
        print("iso",d,round(al,3),is_ppt(isotropic(d,al)), "werner",is_ppt(werner(d,float(al))))
print(np.linalg.norm(w_state(3)), np.linalg.norm(w_state(5)))
