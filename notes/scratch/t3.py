import numpy as np, itertools, cvxpy
from toqito.channels import partial_trace, partial_transpose, realignment
rng=np.random.default_rng(1)
def ref_ptrace(X,S,d):
    n=len(d); T=X.reshape(list(d)+list(d))
    keep=[i for i in range(n) if i not in S]
    # sum over S
    idx_r=list(range(n)); idx_c=[n+i if i not in S else i for i in range(n)]
    out=np.einsum(T,idx_r+idx_c,[i for i in keep]+[n+i for i in keep])
    k=int(np.prod([d[i] for i in keep])) if keep else 1
    return out.reshape(k,k)
def ref_ptranspose(X,S,dr,dc):
    n=len(dr); T=X.reshape(list(dr)+list(dc))
    axes=list(range(2*n))
    for s in S: axes[s],axes[n+s]=n+s,s
    T=T.transpose(axes)
    ndr=[dc[i] if i in S else dr[i] for i in range(n)]
    ndc=[dr[i] if i in S else dc[i] for i in range(n)]
    return T.reshape(int(np.prod(ndr)),int(np.prod(ndc)))
bad=0;tot=0
for trial in range(400):
    n=rng.integers(2,5); d=rng.integers(1,4,size=n)
    N=int(np.prod(d))
    if N<2: continue
    X=rng.normal(size=(N,N))+1j*rng.normal(size=(N,N))
    k=rng.integers(1,n+1)
    S=list(rng.permutation(n)[:k]); S=[int(s) for s in S]
    tot+=1
    try:
        Y=partial_trace(X,S,[int(x) for x in d])
        R=ref_ptrace(X,S,d)
        if Y.shape!=R.shape or not np.allclose(Y,R): bad+=1; print("PTR MISMATCH",d,S,Y.shape,R.shape)
    except Exception as e:
        bad+=1; print("PTR EXC",d,S,repr(e)[:100])
    try:
        Y=partial_transpose(X,S,[int(x) for x in d])
        R=ref_ptranspose(X,S,d,d)
        if Y.shape!=R.shape or not np.allclose(Y,R): bad+=1; print("PT MISMATCH",d,S)
    except Exception as e:
        bad+=1; print("PT EXC",d,S,repr(e)[:100])
print(bad,tot)
# rectangular PT
bad=0;tot=0
for trial in range(400):
    n=rng.integers(2,4); dr=rng.integers(2,4,size=n); dc=rng.integers(2,4,size=n)
    X=rng.normal(size=(np.prod(dr),np.prod(dc)))
    k=rng.integers(1,n+1)
    S=[int(s) for s in rng.permutation(n)[:k]]
    tot+=1
    try:
        Y=partial_transpose(X,S,[[int(x) for x in dr],[int(x) for x in dc]])
        R=ref_ptranspose(X,S,dr,dc)
        if Y.shape!=R.shape or not np.allclose(Y,R): bad+=1; print("PTrect MISMATCH",dr,dc,S)
    except Exception as e:
        bad+=1; print("PTrect EXC",dr,dc,S,repr(e)[:100])
print(bad,tot)
