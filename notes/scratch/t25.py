import numpy as np, warnings, itertools, math
warnings.filterwarnings("ignore")
from toqito.perms import *
print(antisymmetric_projection(2,2))
for d in (1,2,3,4):
    for p in (1,2,3,4):
        if d**p>256: continue
        try:
            S=symmetric_projection(d,p); A=antisymmetric_projection(d,p)
            okS=np.allclose(S@S,S) and np.allclose(S,S.conj().T) and round(np.trace(S))==math.comb(d+p-1,p)
            okA=np.allclose(A@A,A) and np.allclose(A,A.conj().T) and round(np.trace(A))==math.comb(d,p)
            orth=np.allclose(S@A,0) if p>1 else None
            print(d,p,"S",okS,"A",okA,"trA",round(float(np.trace(A)),3),"orth",orth, "sum=I" if p==2 and np.allclose(S+A,np.eye(d**p)) else "")
        except Exception as e: print(d,p,"EXC",type(e).__name__,str(e)[:80])
        for part in (True,):
            try:
                Sp=symmetric_projection(d,p,True); 
                print("   partial S",Sp.shape, np.allclose(Sp.conj().T@Sp,np.eye(Sp.shape[1])), np.allclose(Sp@Sp.conj().T,S))
            except Exception as e: print("   partial S EXC",type(e).__name__,str(e)[:80])
            try:
                Ap=antisymmetric_projection(d,p,True); print("   partial A",type(Ap),getattr(Ap,'shape',None))
            except Exception as e: print("   partial A EXC",type(e).__name__,str(e)[:80])
print([perm_sign(list(p)) for p in itertools.permutations([1,2,3])])
print(sorted(unique_perms([1,1,2])), len(list(unique_perms([1,1,2,2,3]))))
print(perfect_matchings(4), perfect_matchings(6).shape, perfect_matchings(2), perfect_matchings(8).shape)
