import numpy as np, warnings, time, cvxpy, scipy.linalg as sl
warnings.filterwarnings("ignore")
from toqito.channel_metrics import diamond_distance, completely_bounded_trace_norm, completely_bounded_spectral_norm
from toqito.channel_ops import kraus_to_choi, dual_channel, apply_channel
rng=np.random.default_rng(0)
def rc(*s): return rng.normal(size=s)+1j*rng.normal(size=s)
def runi(d): return np.linalg.qr(rc(d,d))[0]
def rchan(d,r):
    V=np.linalg.qr(rc(d*r,d))[0]; return [V[i*d:(i+1)*d,:] for i in range(r)]
def hull_dist(ev):
    n=len(ev); w=cvxpy.Variable(n,nonneg=True)
    z=cvxpy.sum(cvxpy.multiply(w,ev.real)), cvxpy.sum(cvxpy.multiply(w,ev.imag))
    p=cvxpy.Problem(cvxpy.Minimize(cvxpy.norm(cvxpy.hstack(z))),[cvxpy.sum(w)==1]); p.solve(); return p.value
for d in (2,3):
    for t in range(3):
        U=runi(d); H=rc(d,d);H=H+H.conj().T; V=U@sl.expm(1j*rng.random()*2*H/np.linalg.norm(H))
        J1=kraus_to_choi([U]);J2=kraus_to_choi([V])
        t0=time.time(); dd=diamond_distance(J1,J2); t1=time.time()-t0
        delta=hull_dist(np.linalg.eigvals(U.conj().T@V))
        print(d,"unitary dd",round(dd,5),"closed",round(2*np.sqrt(max(0,1-delta**2)),5),"sym",round(diamond_distance(J2,J1),5),round(t1,2))
    for t in range(3):
        J1=kraus_to_choi(rchan(d,2));J2=kraus_to_choi(rchan(d,3))
        t0=time.time(); dd=diamond_distance(J1,J2); t1=time.time()-t0
        D=J1-J2; lo=np.sum(np.abs(np.linalg.eigvalsh(D)))/d; hi=np.sum(np.abs(np.linalg.eigvalsh(D)))
        print(d,"rand dd",round(dd,5),"bounds",round(lo,5),round(hi,5),round(t1,2))
    K=[rc(d,d) for _ in range(2)]; J=kraus_to_choi(K)
    print(d,"CP cb",round(completely_bounded_trace_norm(J),5),"opnorm sumK†K",round(np.linalg.norm(sum(k.conj().T@k for k in K),2),5), "tracenorm",round(np.linalg.norm(sum(k.conj().T@k for k in K),'nuc'),5))
    print(d,"cb spectral",round(completely_bounded_spectral_norm(J),5),"= cbtn(dual)",round(completely_bounded_trace_norm(dual_channel(J)),5), "opnorm Phi(I)",round(np.linalg.norm(sum(k@k.conj().T for k in K),2),5))
    Hm=J1-2*J2+0.3*J
    a=completely_bounded_trace_norm(Hm); b=completely_bounded_trace_norm(-2.5*Hm)
    print(d,"homog",round(a,5),round(b/2.5,5))
