import numpy as np, warnings, itertools
warnings.filterwarnings("ignore")
from toqito.nonlocal_games.nonlocal_game import NonlocalGame
from toqito.nonlocal_games.extended_nonlocal_game import ExtendedNonlocalGame
rng=np.random.default_rng(0)
for (A,B,X,Y) in [(2,3,2,1),(3,2,2,3),(2,2,3,2)]:
    prob=rng.random((X,Y)); prob/=prob.sum(); V=rng.random((A,B,X,Y))
    Vro=V.copy(); Vro.setflags(write=False); pro=prob.copy(); pro.setflags(write=False)
    g=NonlocalGame(pro,Vro,reps=2)
    ref=np.einsum('abxy,cdzw->acbdxzyw',V,V).reshape(A*A,B*B,X*X,Y*Y)
    print((A,B,X,Y),"pred ok",np.allclose(g.pred_mat,ref),"prob ok",np.allclose(g.prob_mat,np.kron(prob,prob)))
    g1=NonlocalGame(pro,Vro); print("  cl on readonly",g1.classical_value())
d=2
V=rng.random((d,d,2,3,2,2)); prob=rng.random((2,2)); prob/=prob.sum()
g=ExtendedNonlocalGame(prob,V,reps=2)
ref=np.einsum('ijabxy,klcdzw->ikjlacbdxzyw',V,V).reshape(d*d,d*d,4,9,4,4)
print("ext pred ok",np.allclose(g.pred_mat,ref))
# BCS
c1=np.zeros((2,2)); c2=np.zeros((2,2))
for v1 in range(2):
    for v2 in range(2):
        c1[v1,v2]=(v1^v2==0); c2[v1,v2]=(v1^v2==1)
g=NonlocalGame.from_bcs_game([c1,c2]); print(g.pred_mat.shape,g.prob_mat, g.classical_value())
