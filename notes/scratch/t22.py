import numpy as np, warnings, time, cvxpy
warnings.filterwarnings("ignore")
from toqito.channel_metrics import channel_fidelity, diamond_distance, completely_bounded_trace_norm, completely_bounded_spectral_norm
from toqito.channel_ops import kraus_to_choi
from toqito.channels import partial_trace, depolarizing, dephasing
from toqito.state_metrics import fidelity
rng=np.random.default_rng(0)
def rc(*s): return rng.normal(size=s)+1j*rng.normal(size=s)
def rchan(d,r):
    V=np.linalg.qr(rc(d*r,d))[0]; return [V[i*d:(i+1)*d,:] for i in range(r)]
def ref_cf(J1,J2,d):
    lam=cvxpy.Variable(); Q=cvxpy.Variable((d*d,d*d),complex=True)
    T=partial_trace(Q,[1],[d,d])
    H=(T+T.H)/2
    cons=[cvxpy.bmat([[J1,Q.H],[Q,J2]])>>0, H - lam*np.eye(d) >> 0]
    p=cvxpy.Problem(cvxpy.Maximize(lam),cons); p.solve(solver=cvxpy.SCS,eps=1e-7); return p.value
for d in (2,3):
    for t in range(4):
        J1=kraus_to_choi(rchan(d,2)); J2=kraus_to_choi(rchan(d,rng.integers(1,4)))
        t0=time.time(); a=channel_fidelity(J1,J2); t1=time.time()-t0
        b=channel_fidelity(J2,J1); c=ref_cf(J1,J2,d)
        F=fidelity(J1/d,J2/d)
        print(d,"cf",round(a,5),"sym",round(b,5),"ref",round(c,5),"choiF",round(F,5),round(t1,2))
