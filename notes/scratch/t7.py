import numpy as np, itertools
from toqito.nonlocal_games.nonlocal_game import NonlocalGame
rng=np.random.default_rng(0)
def brute(prob,pred):
    A,B,X,Y=pred.shape
    best=-1
    for f in itertools.product(range(A),repeat=X):
        for g in itertools.product(range(B),repeat=Y):
            v=sum(prob[x,y]*pred[f[x],g[y],x,y] for x in range(X) for y in range(Y))
            best=max(best,v)
    return best
bad=0
for t in range(300):
    A,B,X,Y=rng.integers(1,4),rng.integers(1,4),rng.integers(1,4),rng.integers(1,4)
    prob=rng.random((X,Y)); prob/=prob.sum()
    pred=(rng.random((A,B,X,Y))<0.4).astype(float) if rng.random()<0.5 else rng.random((A,B,X,Y))
    g=NonlocalGame(prob,pred)
    p0=pred.copy()
    v=g.classical_value(); b=brute(prob,pred)
    if abs(v-b)>1e-9:
        bad+=1; print("MISMATCH",(A,B,X,Y),v,b, A**X, B**Y)
    assert np.array_equal(p0,g.pred_mat)
print(bad)
