import numpy as np, warnings, time
warnings.filterwarnings("ignore")
from toqito.state_opt import ppt_distinguishability, symmetric_extension_hierarchy, state_distinguishability
rng=np.random.default_rng(5)
def rvec(d,cx=True): v=rng.normal(size=d)+1j*rng.normal(size=d)*cx; return v/np.linalg.norm(v)
def T(f):
    t=time.time()
    try: v=f()
    except Exception as e: v=type(e).__name__
    return (round(v,6) if not isinstance(v,str) else v, round(time.time()-t,1))
for (da,db,n,cx) in [(2,2,4,False),(2,2,4,True),(2,2,3,True),(2,3,2,True),(2,3,3,False)]:
    vs=[rvec(da*db,cx).reshape(-1,1) for _ in range(n)]; p=rng.random(n); p/=p.sum(); p=list(p)
    a=T(lambda:ppt_distinguishability(vs,[0],[da,db],p,primal_dual="primal")[0]); b=T(lambda:ppt_distinguishability(vs,[1],[da,db],p,primal_dual="dual")[0]); b0=T(lambda:ppt_distinguishability(vs,[0],[da,db],p,primal_dual="dual")[0])
    g=T(lambda:state_distinguishability(vs,p)[0])
    ids=[id(v) for v in vs]
    l1=T(lambda:symmetric_extension_hierarchy(vs,p,level=1,dim=[da,db]))
    mutated=[id(v) for v in vs]!=ids
    vs2=[v@v.conj().T if v.shape[1]==1 else v for v in vs]
    l2=T(lambda:symmetric_extension_hierarchy(vs2,p,level=2,dim=[da,db]))
    print((da,db,n,cx),"ppt primal[0]",a,"dual[1]",b,"dual[0]",b0,"global",g,"lvl1",l1,"lvl2",l2,"mut",mutated)
