import numpy as np, warnings, itertools
warnings.filterwarnings("ignore")
from toqito.matrix_props import *
from toqito.state_props import is_pure, is_mixed, is_ensemble, is_mutually_orthogonal, is_mutually_unbiased_basis, is_unextendible_product_basis
rng=np.random.default_rng(0)
def rc(*s,cx=True): return rng.normal(size=s)+1j*rng.normal(size=s)*cx
def runi(d,cx=True): return np.linalg.qr(rc(d,d,cx=cx))[0]
def herm(d,cx=True): A=rc(d,d,cx=cx); return (A+A.conj().T)/2
def psd(d,r=None,cx=True): G=rc(d,r or d,cx=cx); return G@G.conj().T
res={}
def T(name,f,exp):
    try: v=f()
    except Exception as e: v="EXC "+type(e).__name__+": "+str(e)[:50]
    ok = (bool(v)==exp) if not isinstance(v,str) else False
    if not ok: print("UNEXPECTED",name,"->",v,"expected",exp)
for d in (1,2,3,5):
  for cx in (False,True):
    U=runi(d,cx); H=herm(d,cx); P=psd(d,cx=cx)
    tag=f"d{d}cx{cx}"
    T("herm+ "+tag,lambda:is_hermitian(H),True); 
    if d>1: T("herm- "+tag,lambda:is_hermitian(H+0.01*np.triu(np.ones((d,d)),1)),False)
    T("antiherm+ "+tag,lambda:is_anti_hermitian(1j*H),True)
    if d>1 or cx: T("antiherm- "+tag,lambda:is_anti_hermitian(1j*H+0.01*np.eye(d)),False)
    S=rc(d,d,cx=cx); S=S+S.T
    T("sym+ "+tag,lambda:is_symmetric(S),True)
    N=U@np.diag(rc(d,cx=cx))@U.conj().T
    T("normal+ "+tag,lambda:is_normal(N),True)
    if d>1: T("normal- "+tag,lambda:is_normal(np.triu(np.ones((d,d)))),False)
    T("unitary+ "+tag,lambda:is_unitary(U),True); T("unitary- "+tag,lambda:is_unitary(1.01*U),False)
    T("psd+ "+tag,lambda:is_positive_semidefinite(P),True); T("psd- "+tag,lambda:is_positive_semidefinite(P-(np.linalg.eigvalsh(P).min()+0.01)*np.eye(d)),False)
    T("psd rankdef+ "+tag,lambda:is_positive_semidefinite(psd(d,1,cx)),True)
    T("pd+ "+tag,lambda:is_positive_definite(P+0.1*np.eye(d)),True)
    if d>1: T("pd- "+tag,lambda:is_positive_definite(psd(d,1,cx)-0.01*np.eye(d)),False)
    k=max(1,d//2); V=U[:,:k]; Pr=V@V.conj().T
    T("proj+ "+tag,lambda:is_projection(Pr),True); T("proj- "+tag,lambda:is_projection(1.01*Pr),False)
    T("idem+ "+tag,lambda:is_idempotent(Pr),True); T("idem- "+tag,lambda:is_idempotent(Pr+0.01*np.eye(d)),False)
    T("ident+ "+tag,lambda:is_identity(np.eye(d)),True); T("ident- "+tag,lambda:is_identity(np.eye(d)*1.001),False)
    T("diag+ "+tag,lambda:is_diagonal(np.diag(rc(d,cx=cx))),True)
    if d>1:
        M=np.diag(rc(d,cx=cx)); M[0,d-1]=0.01; T("diag- "+tag,lambda:is_diagonal(M),False)
        M2=np.diag(rc(d,cx=cx)); M2[d-1,0]=0.01; T("diag-2 "+tag,lambda:is_diagonal(M2),False)
    D=rc(d,d,cx=cx); D=D-np.diag(np.diag(D))+np.diag(np.abs(D).sum(1)+0.1)
    T("dd+ "+tag,lambda:is_diagonally_dominant(D),True)
    if d>1: T("dd- "+tag,lambda:is_diagonally_dominant(D-np.diag(np.diag(D))*0.9),False)
    T("density+ "+tag,lambda:is_density(P/np.trace(P)),True); T("density- "+tag,lambda:is_density(P/np.trace(P)*1.01),False)
    T("square+ "+tag,lambda:is_square(P),True); T("square- "+tag,lambda:is_square(rc(d,d+1)),False)
    perm=np.eye(d)[rng.permutation(d)]
    T("perm+ "+tag,lambda:is_permutation(perm),True)
    if d>1: T("perm- "+tag,lambda:is_permutation(np.ones((d,d))/d),False)
    c=rc(d,cx=cx); C=np.array([np.roll(c,i) for i in range(d)])
    T("circ+ "+tag,lambda:is_circulant(C),True)
    if d>2:
        C2=C.copy(); C2[1,0]+=0.01; T("circ- "+tag,lambda:is_circulant(C2),False)
    St=rng.random((d,d)); R=St/St.sum(1,keepdims=True)
    T("stoch right+ "+tag,lambda:is_stochastic(R,"right"),True); T("stoch left+ "+tag,lambda:is_stochastic(R.T,"left"),True)
    if d>1: T("stoch right- "+tag,lambda:is_stochastic(R*1.01,"right"),False)
    T("doubly+ "+tag,lambda:is_stochastic(perm*0.5+np.eye(d)*0.5,"doubly"),True)
    T("nonneg+ "+tag,lambda:is_nonnegative(St),True); T("nonneg- "+tag,lambda:is_nonnegative(St-0.5*np.eye(d)-0.6),False)
    T("commute+ "+tag,lambda:is_commuting(N,U@np.diag(rc(d,cx=cx))@U.conj().T),True)
    if d>1: T("commute- "+tag,lambda:is_commuting(rc(d,d),rc(d,d)),False)
    if d>1:
        T("orthonormal+ "+tag,lambda:is_orthonormal(np.array([U[:,i] for i in range(d)])),True)
        T("orthonormal- "+tag,lambda:is_orthonormal(np.array([U[:,i]*(1.01 if i==0 else 1) for i in range(d)])),False)
        T("linindep+ "+tag,lambda:is_linearly_independent([U[:,i] for i in range(d)]),True)
        T("linindep- "+tag,lambda:is_linearly_independent([U[:,0],2*U[:,0]]),False)
        T("mo+ "+tag,lambda:is_mutually_orthogonal([U[:,i] for i in range(d)]),True)
        T("mo- "+tag,lambda:is_mutually_orthogonal([U[:,0],U[:,0]+0.1*U[:,1]]),False)
        sig=np.diag([1]*(d-1)+[-1]).astype(float)
    rho=P/np.trace(P); v=rvec=U[:,0]
    T("pure+ "+tag,lambda:is_pure(np.outer(v,v.conj())),True)
    if d>1: T("pure- "+tag,lambda:is_pure(np.eye(d)/d),False); T("mixed+ "+tag,lambda:is_mixed(np.eye(d)/d),True)
    T("ensemble+ "+tag,lambda:is_ensemble([0.3*rho,0.7*np.outer(v,v.conj())]),True)
    T("ensemble- "+tag,lambda:is_ensemble([0.3*rho,0.8*np.outer(v,v.conj())]),False)
# pseudo
J=np.diag([1,1,-1.]); import scipy.linalg as sl
K=rc(3,3,cx=False); A=J@(K-K.T)  # in Lie algebra of O(2,1): A^T J + J A=0
Up=sl.expm(A)
T("pseudo unitary+",lambda:is_pseudo_unitary(Up,2,1),True); T("pseudo unitary-",lambda:is_pseudo_unitary(Up*1.01,2,1),False)
Hh=herm(3); M=np.linalg.inv(J)@Hh  # J M J^-1 = Hh J^-1 ; M^† = Hh J^-1 (J real diag =J^-1...) 
T("pseudo herm+",lambda:is_pseudo_hermitian(M,J),True); T("pseudo herm-",lambda:is_pseudo_hermitian(M+0.01*np.triu(np.ones((3,3)),1),J),False)
# totally positive: Vandermonde with increasing positive nodes
x=np.array([1.,2,3,4]); Vd=np.vander(x,increasing=True)
T("totpos+",lambda:is_totally_positive(Vd),True); T("totpos-",lambda:is_totally_positive(np.array([[1,2],[3,1.]])),False)
from toqito.states import tile
T("upb tiles+",lambda:is_unextendible_product_basis([tile(i).ravel() for i in range(5)],[3,3])[0],True)
T("upb tiles-",lambda:is_unextendible_product_basis([tile(i).ravel() for i in range(4)],[3,3])[0],False)
from toqito.states import mutually_unbiased_basis
T("mub+",lambda:is_mutually_unbiased_basis(mutually_unbiased_basis(3)),True)
T("mub-",lambda:is_mutually_unbiased_basis([np.array([1,0]),np.array([0,1]),np.array([1,0.5])/np.linalg.norm([1,0.5]),np.array([0.5,-1])/np.linalg.norm([1,0.5])]),False)
print("done")
