import numpy as np, warnings
warnings.filterwarnings("ignore")
from toqito.rand import *
from toqito.state_props import schmidt_rank
from toqito.matrix_props import is_unitary, is_density, is_positive_semidefinite, is_circulant
from toqito.measurement_props import is_povm
def t(name,f):
    try: r=f(); print(name,"->",r if not isinstance(r,np.ndarray) else r.shape)
    except Exception as e: print(name,"EXC",type(e).__name__,str(e)[:80])
t("rsv list k0",lambda: random_state_vector([2,3]))
t("rsv list k1",lambda: np.linalg.matrix_rank(random_state_vector([2,3],k_param=1,seed=1).reshape(2,3)))
t("rsv list k1 real",lambda: np.linalg.matrix_rank(random_state_vector([3,4],True,k_param=2,seed=1).reshape(3,4)))
t("rsv int k1",lambda: np.linalg.matrix_rank(random_state_vector(3,k_param=1,seed=1).reshape(3,3)))
t("rsv int k2",lambda: np.linalg.matrix_rank(random_state_vector(3,k_param=2,seed=1).reshape(3,3)))
t("rsv int k3",lambda: random_state_vector(3,k_param=3,seed=1).shape)
t("rsv int k5",lambda: random_state_vector(3,k_param=5,seed=1).shape)
t("ru list",lambda: is_unitary(random_unitary([3,3],seed=2)))
t("ru real",lambda: (is_unitary(random_unitary(4,True,seed=2)), random_unitary(4,True,seed=2).dtype))
t("ru 1",lambda: random_unitary(1,seed=2))
for k in (1,2,3,4):
    t(f"rdm k{k}",lambda: (is_density(random_density_matrix(4,k_param=k,seed=3)), np.linalg.matrix_rank(random_density_matrix(4,k_param=k,seed=3))))
t("rdm bures",lambda: is_density(random_density_matrix(3,distance_metric="bures",seed=3)))
t("rdm bures real k",lambda: is_density(random_density_matrix(3,True,2,"bures",seed=3)))
t("rdm 1",lambda: random_density_matrix(1,seed=3))
t("povm",lambda: [is_povm([random_povm(3,2,4,seed=1)[:,:,x,a] for a in range(4)]) for x in range(2)])
t("povm dim1",lambda: random_povm(1,1,2,seed=1).ravel())
t("circ",lambda: (is_circulant(random_circulant_gram_matrix(5,seed=1)), is_positive_semidefinite(random_circulant_gram_matrix(5,seed=1))))
t("psd",lambda: is_positive_semidefinite(random_psd_operator(4,seed=1)))
t("psd real",lambda: (is_positive_semidefinite(random_psd_operator(4,True,seed=1)),random_psd_operator(4,True,seed=1).dtype))
t("onb",lambda: np.allclose(np.array(random_orthonormal_basis(4,seed=1)).conj()@np.array(random_orthonormal_basis(4,seed=1)).T,np.eye(4)))
np.random.seed(0); a=random_unitary(3,seed=7); np.random.seed(5); np.random.rand(10); b=random_unitary(3,seed=7)
print("repro",np.array_equal(a,b), np.array_equal(random_unitary(3,seed=7),random_unitary(3,seed=8)))
