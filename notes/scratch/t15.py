import numpy as np, warnings, time, collections
warnings.filterwarnings("ignore")
from toqito.state_props import is_separable
rng=np.random.default_rng(0)
def rsep(da,db,k,cx=True):
    rho=0
    w=rng.random(k); w/=w.sum()
    for i in range(k):
        a=rng.normal(size=da)+1j*rng.normal(size=da)*cx; a/=np.linalg.norm(a)
        b=rng.normal(size=db)+1j*rng.normal(size=db)*cx; b/=np.linalg.norm(b)
        v=np.kron(a,b); rho=rho+w[i]*np.outer(v,v.conj())
    return rho
res=collections.Counter()
for da,db in [(2,2),(2,3),(3,2),(3,3),(2,4),(4,2),(3,4),(4,4),(2,5)]:
    for k in (1,2,3,5,8,20):
        for cx in (False,True):
            for rep in range(3):
                rho=rsep(da,db,k,cx)
                t=time.time()
                try: r=is_separable(rho,[da,db])
                except Exception as e: r=type(e).__name__+":"+str(e)[:50]
                res[((da,db),str(r))]+=1
                if r is not True and r is not np.True_: print((da,db),k,cx,r,round(time.time()-t,2))
for k,v in sorted(res.items()): print(k,v)
