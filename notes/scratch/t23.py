import numpy as np, warnings, time, cvxpy
warnings.filterwarnings("ignore")
from toqito.channel_metrics import channel_fidelity
from toqito.channel_ops import kraus_to_choi
from toqito.channels import partial_trace
from toqito.state_metrics import fidelity
rng=np.random.default_rng(0)
def rc(*s): return rng.normal(size=s)+1j*rng.normal(size=s)
def runi(d): return np.linalg.qr(rc(d,d))[0]
def rdm(d): G=rc(d,d); P=G@G.conj().T; return P/np.trace(P)
def ref_cf(J1,J2,d):
    lam=cvxpy.Variable(); Q=cvxpy.Variable((d*d,d*d),complex=True)
    T=partial_trace(Q,[1],[d,d]); H=(T+T.H)/2
    cons=[cvxpy.bmat([[J1,Q.H],[Q,J2]])>>0, H - lam*np.eye(d) >> 0]
    p=cvxpy.Problem(cvxpy.Maximize(lam),cons); p.solve(solver=cvxpy.SCS,eps=1e-7); return p.value
def hull_dist(ev):
    # distance from origin to convex hull of points ev (complex)
    n=len(ev); w=cvxpy.Variable(n,nonneg=True)
    z=cvxpy.sum(cvxpy.multiply(w,ev.real)), cvxpy.sum(cvxpy.multiply(w,ev.imag))
    p=cvxpy.Problem(cvxpy.Minimize(cvxpy.norm(cvxpy.hstack(z))),[cvxpy.sum(w)==1]); p.solve(); return p.value
d=2
for t in range(3):
    U=runi(d);V=runi(d)
    # make them close so delta>0
    H=rc(d,d);H=H+H.conj().T
    import scipy.linalg as sl
    V=U@sl.expm(1j*0.4*H/np.linalg.norm(H))
    J1=kraus_to_choi([U]);J2=kraus_to_choi([V])
    print("unitary: toqito",round(channel_fidelity(J1,J2),5),"ref",round(ref_cf(J1,J2,d),5),"closed",round(hull_dist(np.linalg.eigvals(U.conj().T@V)),5))
for t in range(3):
    s1,s2=rdm(d),rdm(d)
    J1=np.kron(np.eye(d),s1);J2=np.kron(np.eye(d),s2)
    print("replacement: toqito",round(channel_fidelity(J1,J2),5),"ref",round(ref_cf(J1,J2,d),5),"closed",round(fidelity(s1,s2),5))
