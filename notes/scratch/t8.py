import numpy as np, itertools, time, warnings
warnings.filterwarnings("ignore")
from toqito.nonlocal_games.nonlocal_game import NonlocalGame
rng=np.random.default_rng(1)
for (A,B,X,Y) in [(2,2,2,2),(2,3,2,2),(3,2,2,3),(2,2,3,2),(3,3,2,2)]:
    prob=rng.random((X,Y)); prob/=prob.sum()
    pred=(rng.random((A,B,X,Y))<0.5).astype(float)
    g=NonlocalGame(prob,pred)
    out={}
    for name,f in [('cl',g.classical_value),('qlb',lambda: g.quantum_value_lower_bound(dim=2,iters=2)),('npa1',lambda: g.commuting_measurement_value_upper_bound(1)),('npa1ab',lambda: g.commuting_measurement_value_upper_bound('1+ab')),('npa2',lambda: g.commuting_measurement_value_upper_bound(2)),('ns',g.nonsignaling_value)]:
        t=time.time()
        try: v=f()
        except Exception as e: v=repr(e)[:80]
        out[name]=(v if isinstance(v,str) else round(float(v),6),round(time.time()-t,2))
    print((A,B,X,Y),out)
