import numpy as np, warnings, itertools
warnings.filterwarnings("ignore")
from toqito.states import *
from toqito.matrices import *
from toqito.channels import partial_trace
rng=np.random.default_rng(0)
def T(name,f):
    try: print(name, f())
    except Exception as e: print(name,"EXC",type(e).__name__,str(e)[:70])
def arr(x): return x.toarray() if hasattr(x,'toarray') else np.asarray(x)
T("bell",lambda: np.allclose(np.hstack([bell(i) for i in range(4)]).conj().T@np.hstack([bell(i) for i in range(4)]),np.eye(4)))
for d in (2,3,4):
    def gb():
        B=[gen_bell(a,b,d) for a in range(d) for b in range(d)]
        ok_rank=all(np.linalg.matrix_rank(x)==1 and np.isclose(np.trace(x),1) for x in B)
        orth=all(np.isclose(np.trace(B[i].conj().T@B[j]),float(i==j)) for i in range(d*d) for j in range(d*d))
        marg=all(np.allclose(partial_trace(x,[1],[d,d]),np.eye(d)/d) for x in B)
        return ok_rank,orth,marg
    T(f"gen_bell {d}",gb)
    T(f"maxent {d}",lambda:(np.allclose(partial_trace(max_entangled(d)@max_entangled(d).conj().T,[0],[d,d]),np.eye(d)/d), np.isclose(np.linalg.norm(arr(max_entangled(d,True,False))),np.sqrt(d))))
    def gp():
        G=[gen_pauli(a,b,d) for a in range(d) for b in range(d)]
        return all(np.isclose(np.trace(G[i].conj().T@G[j]),d*(i==j)) for i in range(d*d) for j in range(d*d))
    T(f"gen_pauli {d}",gp)
    def weyl():
        X=gen_pauli_x(d);Z=gen_pauli_z(d);w=np.exp(2j*np.pi/d);F=fourier(d)
        return np.allclose(Z@X,w*X@Z), np.allclose(F@X@F.conj().T,Z), np.allclose(F.conj().T@X@F,Z), np.allclose(F@F.conj().T,np.eye(d))
    T(f"weyl {d}",weyl)
    def ggm():
        G=[arr(gen_gell_mann(a,b,d)) for a in range(d) for b in range(d)]
        gram=np.array([[np.trace(x.conj().T@y) for y in G] for x in G])
        return np.allclose(gram-np.diag(np.diag(gram)),0), np.round(np.diag(gram).real,3), all(np.allclose(x,x.conj().T) for x in G)
    T(f"gen_gell_mann {d}",ggm)
def gm():
    G=[arr(gell_mann(i)) for i in range(9)]
    gram=np.array([[np.trace(x.conj().T@y) for y in G] for x in G]); return np.allclose(gram-np.diag(np.diag(gram)),0), np.round(np.diag(gram).real,3)
T("gell_mann",gm)
def pau():
    P=[arr(pauli(i)) for i in range(4)]; return [np.trace(P[i].conj().T@P[j]).real for i in range(4) for j in range(4) if i<=j], arr(pauli([1,2])).shape, arr(pauli("X")).tolist()
T("pauli",pau)
T("hadamard",lambda:[np.allclose(hadamard(n)@hadamard(n).T,np.eye(2**n)) for n in (0,1,2,3)])
T("cnot",lambda: cnot().tolist())
T("cyc",lambda: (cyclic_permutation_matrix(4).tolist(), cyclic_permutation_matrix(4,2).tolist()))
T("ghz",lambda:(np.linalg.norm(arr(ghz(3,4))), np.nonzero(arr(ghz(3,2)).ravel())[0]))
T("dicke",lambda:(np.linalg.norm(dicke(4,2)), np.nonzero(dicke(3,1))[0], dicke(3,1,True).shape))
T("w",lambda:(np.nonzero(w_state(3).ravel())[0], w_state(3,[1,2,3]).ravel()))
for f,args in ((tile,(0,)),(domino,(0,)),(chessboard,([1,2,3,4,5,6],7,8)),(gisin,(0.5,1)),(horodecki,(0.5,)),(horodecki,(0.5,[2,4])),(breuer,(4,0.1)),(brauer,(2,2)),(singlet,(3,)),(trine,()),(bb84,()),(max_mixed,(3,)),(basis,(3,1)),(pusey_barrett_rudolph,(2,0.5)),(isotropic,(3,0.5)),(werner,(3,0.5)),(standard_basis,(3,)),(mutually_unbiased_basis,(3,))):
    def g():
        r=f(*args)
        if isinstance(r,(list,tuple)): return type(r).__name__,len(r),np.asarray(arr(r[0])).shape
        r=arr(r); return r.shape, r.dtype
    T(f.__name__+str(args),g)
def tiles():
    V=np.hstack([tile(i) for i in range(5)]); return np.allclose(V.conj().T@V,np.eye(5))
T("tile orth",tiles)
def dom():
    V=np.hstack([domino(i) for i in range(9)]); return np.allclose(V.conj().T@V,np.eye(9))
T("domino orth",dom)
from toqito.state_props import is_ppt, is_product
T("horo ppt",lambda:[(is_ppt(horodecki(a)),is_ppt(horodecki(a,[2,4]),2,[2,4])) for a in (0,0.3,1)])
T("horo bad",lambda: horodecki(1.2))
T("tile prod",lambda:[bool(is_product(tile(i),[3,3])[0]) for i in range(5)])
T("domino prod",lambda:[bool(is_product(domino(i),[3,3])[0]) for i in range(9)])
