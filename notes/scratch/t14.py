import numpy as np, warnings, time
warnings.filterwarnings("ignore")
from toqito.state_props import has_symmetric_extension, is_separable, is_ppt
from toqito.state_opt import symmetric_extension_hierarchy
from toqito.states import max_mixed, werner, isotropic
rng=np.random.default_rng(0)
def rsep(da,db,k,cx=True):
    rho=0
    w=rng.random(k); w/=w.sum()
    for i in range(k):
        a=rng.normal(size=da)+1j*rng.normal(size=da)*cx; a/=np.linalg.norm(a)
        b=rng.normal(size=db)+1j*rng.normal(size=db)*cx; b/=np.linalg.norm(b)
        v=np.kron(a,b); rho=rho+w[i]*np.outer(v,v.conj())
    return rho
for da,db in [(2,2),(2,3),(3,3),(2,4)]:
    rho=rsep(da,db,5)
    for lvl in (1,2):
        for ppt in (True,False):
            t=time.time()
            try: r=has_symmetric_extension(rho,level=lvl,dim=np.array([da,db]),ppt=ppt)
            except Exception as e: r=type(e).__name__+str(e)[:60]
            print((da,db),lvl,ppt,r,round(time.time()-t,2))
print(has_symmetric_extension(max_mixed(9,is_sparse=False),2))
print(symmetric_extension_hierarchy([max_mixed(9,is_sparse=False)],level=2))
