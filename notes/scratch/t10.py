import numpy as np, itertools, time, warnings, cvxpy as cp
warnings.filterwarnings("ignore")
from toqito.state_opt import bell_inequality_max
rng=np.random.default_rng(1)
def tsirelson(C):
    m,n=C.shape
    G=cp.Variable((m+n,m+n),symmetric=True)
    obj=cp.Maximize(cp.sum(cp.multiply(C,G[:m,m:])))
    p=cp.Problem(obj,[G>>0,cp.diag(G)==1]); p.solve(solver="CLARABEL"); return p.value
def det(C,a,b):
    best=-1e9
    for s in itertools.product([1,-1],repeat=C.shape[0]):
        for t in itertools.product([1,-1],repeat=C.shape[1]):
            s_=np.array(s);t_=np.array(t)
            best=max(best,s_@C@t_+a@s_+b@t_)
    return best
for m in (2,2,2,3):
    C=rng.normal(size=(m,m))
    t=time.time()
    v=bell_inequality_max(C,np.zeros(m),np.zeros(m),np.array([1,-1]),np.array([1,-1]))
    print(m,"nomarg",v,tsirelson(C),det(C,np.zeros(m),np.zeros(m)),round(time.time()-t,2))
    a=rng.normal(size=m);b=rng.normal(size=m)
    t=time.time()
    v=bell_inequality_max(C,a,b,np.array([1,-1]),np.array([1,-1]))
    print(m,"marg",v,det(C,a,b),round(time.time()-t,2))
# CH: p(00|00)+p(00|01)+p(00|10)-p(00|11) - pA(0|0) - pB(0|0) <= 0 ; quantum max = (sqrt2-1)/2
v=bell_inequality_max(np.array([[1,1],[1,-1]]),np.array([-1,0]),np.array([-1,0]),np.array([1,0]),np.array([1,0]))
print("CH",v,(np.sqrt(2)-1)/2)
