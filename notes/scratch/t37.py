import numpy as np, warnings, time
warnings.filterwarnings("ignore")
from toqito.nonlocal_games.quantum_hedging import QuantumHedging
from toqito.states import basis
from toqito.matrix_ops import tensor
e0,e1=basis(2,0),basis(2,1); e00,e01,e10,e11=np.kron(e0,e0),np.kron(e0,e1),np.kron(e1,e0),np.kron(e1,e1)
alpha=1/np.sqrt(2); theta=np.pi/8
w=alpha*np.cos(theta)*e00+np.sqrt(1-alpha**2)*np.sin(theta)*e11
l1=-alpha*np.sin(theta)*e00+np.sqrt(1-alpha**2)*np.cos(theta)*e11
l2=alpha*np.sin(theta)*e10; l3=np.sqrt(1-alpha**2)*np.cos(theta)*e01
Q1=w@w.conj().T; Q0=l1@l1.conj().T+l2@l2.conj().T+l3@l3.conj().T
for n in (1,2):
    h1=QuantumHedging(tensor(Q1,n),n); h0=QuantumHedging(tensor(Q0,n),n)
    print(n,"Q1 max",round(h1.max_prob_outcome_a_primal(),5),round(h1.max_prob_outcome_a_dual(),5),"Q0 min",round(h0.min_prob_outcome_a_primal(),5),round(h0.min_prob_outcome_a_dual(),5), "cos^2",np.cos(np.pi/8)**2, (np.cos(np.pi/8)**2)**n)
from toqito.state_metrics import fidelity_of_separability as fos_s
from toqito.channel_metrics import fidelity_of_separability as fos_c
rng=np.random.default_rng(0)
def rvec(d): v=rng.normal(size=d)+1j*rng.normal(size=d); return v/np.linalg.norm(v)
for dims in ([2,2],[2,3],[3,3],[3,2]):
    v=np.kron(rvec(dims[0]),rvec(dims[1])); rho=np.outer(v,v.conj())
    for k in (1,2):
        t=time.time()
        try: r=fos_s(rho,dims,k)
        except Exception as e: r=type(e).__name__+str(e)[:40]
        print("state fos",dims,k,r,round(time.time()-t,2))
for dims in ([2,2,2],[2,2,3]):
    v=np.kron(np.kron(rvec(dims[0]),rvec(dims[1])),rvec(dims[2])); rho=np.outer(v,v.conj())
    for k in (1,2):
        t=time.time()
        try: r=fos_c(rho,dims,k)
        except Exception as e: r=type(e).__name__+str(e)[:40]
        print("chan fos",dims,k,r,round(time.time()-t,2))
