import numpy as np, itertools
def ref_permute(X, perm, dr, dc, inv=False, row_only=False):
    """tensor-factor relabelling: output factor i = input factor perm[i]"""
    n=len(perm)
    p=list(perm)
    if inv:
        p=list(np.argsort(p))
    T=X.reshape(list(dr)+list(dc))
    axes=[p[i] for i in range(n)]+([n+p[i] for i in range(n)] if not row_only else [n+i for i in range(n)])
    T=T.transpose(axes)
    R=int(np.prod(dr)); C=int(np.prod(dc))
    return T.reshape(R,C)
