import numpy as np, itertools, cvxpy
from toqito.channels import partial_trace, partial_transpose, realignment
rng=np.random.default_rng(2)
# realignment
for (da,db,ca,cb) in [(2,2,2,2),(2,3,2,3),(3,2,3,2),(2,3,3,2),(2,2,3,3),(3,4,2,5),(2,3,4,2)]:
    A=rng.normal(size=(da,ca)); B=rng.normal(size=(db,cb))
    X=np.kron(A,B)
    forms=[[[da,db],[ca,cb]]]
    if da==ca and db==cb: forms.append([da,db])
    for dim in forms:
        try:
            R=realignment(X,dim)
            exp=np.outer(A.reshape(-1),B.reshape(-1))
            print((da,db,ca,cb),dim,R.shape,exp.shape,R.shape==exp.shape and np.allclose(R,exp))
        except Exception as e: print((da,db,ca,cb),dim,"EXC",repr(e)[:120])
# generic (non product) check by linearity: realignment of sum
X=rng.normal(size=(6,6))
R=realignment(X,[2,3]);
T=X.reshape(2,3,2,3).transpose(0,2,1,3).reshape(4,9)
print("generic",np.allclose(R,T))
try:
    print(realignment(X,2).shape)
except Exception as e: print("int dim EXC",repr(e)[:100])
print(realignment(rng.normal(size=(4,4))).shape)
# cvxpy partial trace
x=cvxpy.Variable((6,6)); V=rng.normal(size=(6,6)); x.value=V
e=partial_trace(x,[0],[2,3]); print(type(e),e.shape,np.allclose(e.value,partial_trace(V,[0],[2,3])))
x=cvxpy.Variable((6,6),complex=True); V=rng.normal(size=(6,6))+1j*rng.normal(size=(6,6)); x.value=V
e=partial_trace(x,[1],[2,3]); print(type(e),e.shape,np.allclose(e.value,partial_trace(V,[1],[2,3])))
e=partial_transpose(x,[1],[2,3]); print(type(e),e.shape,np.allclose(e.value,partial_transpose(V,[1],[2,3])))
x=cvxpy.Variable((6,6),hermitian=True); H=V+V.conj().T; x.value=H
e=partial_trace(x,1,[2,3]); print(type(e),e.shape,np.allclose(e.value,partial_trace(H,1,[2,3])))
x=cvxpy.Variable((4,4),PSD=True); 
e=partial_trace(x); print(e.shape)
# expression (non-Variable)
try:
    e=partial_trace(2*x,[0],[2,2]); print(type(e))
except Exception as ex: print("Expr EXC",repr(ex)[:100])
print(partial_trace(np.arange(16).reshape(4,4),0,2), partial_trace(np.arange(36).reshape(6,6),[1],3).shape, partial_trace(np.arange(36).reshape(6,6),[1],2).shape)
