import sys; pass
import numpy as np, warnings
warnings.filterwarnings("ignore")
from toqito.state_opt import optimal_clone
e0,e1=np.array([[1.],[0]]),np.array([[0],[1.]])
yp=(e0+1j*e1)/np.sqrt(2); ym=(e0-1j*e1)/np.sqrt(2); ep=(e0+e1)/np.sqrt(2)
for sts,p in ([ [e0,yp],[.5,.5] ], [[e0,e1,yp,ym],[.25]*4], [[e0,e1,ep,yp],[.1,.2,.3,.4]]):
    print([round(float(np.real(optimal_clone(sts,p,1,s))),5) for s in (False,True)], [round(float(np.real(optimal_clone(sts,p,2,s))),5) for s in (False,True)])
