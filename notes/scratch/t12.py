import numpy as np, warnings
warnings.filterwarnings("ignore")
from toqito.state_opt import optimal_clone
from toqito.states import basis
e0,e1=basis(2,0),basis(2,1)
yp=(e0+1j*e1)/np.sqrt(2); ym=(e0-1j*e1)/np.sqrt(2)
for states in ([e0,e1,yp,ym],[e0,yp],[e0.ravel(),e1.ravel()]):
    for strat in (False,True):
        try: print(strat, optimal_clone(states,[1/len(states)]*len(states),1,strat))
        except Exception as e: print("EXC",type(e).__name__,str(e)[:150])
# non-uniform priors, real states
rng=np.random.default_rng(0)
for t in range(3):
    k=rng.integers(2,5)
    sts=[]
    for i in range(k):
        th=rng.random()*np.pi; sts.append(np.cos(th)*e0+np.sin(th)*e1)
    p=rng.random(k); p/=p.sum()
    print(k,optimal_clone(sts,list(p),1,False),optimal_clone(sts,list(p),1,True))
