import numpy as np, itertools, time, warnings, cvxpy as cp
warnings.filterwarnings("ignore")
from toqito.nonlocal_games.quantum_hedging import QuantumHedging
from toqito.state_opt import optimal_clone
from toqito.states import basis
rng=np.random.default_rng(1)
e0,e1=basis(2,0),basis(2,1)
def hedge(alpha,theta):
    v = np.cos(theta)*np.kron(e0,e0)+np.sin(theta)*np.kron(e1,e1)
    w = alpha*np.kron(e0,e0)+np.sqrt(1-alpha**2)*np.kron(e1,e1)
    l1=-alpha*np.kron(e0,e0)+np.sqrt(1-alpha**2)*np.kron(e1,e1)
    l2=alpha*np.kron(e0,e1); l3=np.sqrt(1-alpha**2)*np.kron(e1,e0)
    return v,w,l1,l2,l3
alpha=1/np.sqrt(2); theta=np.pi/8
v,w,l1,l2,l3=hedge(alpha,theta)
Q1=w@w.conj().T; Q0=l1@l1.conj().T+l2@l2.conj().T+l3@l3.conj().T
for n in (1,2):
    for Q,name in ((Q1,'Q1'),(Q0,'Q0')):
        from toqito.matrix_ops import tensor
        Qn=tensor(Q,n) if n>1 else Q
        h=QuantumHedging(Qn,n)
        t=time.time()
        r=[h.max_prob_outcome_a_primal(),h.max_prob_outcome_a_dual(),h.min_prob_outcome_a_primal(),h.min_prob_outcome_a_dual()]
        print(n,name,np.round(r,6),round(time.time()-t,2))
# random Q (PSD <= I) 
for n in (1,2):
    G=rng.normal(size=(4**n,4**n))+1j*rng.normal(size=(4**n,4**n)); Q=G@G.conj().T; Q/=np.linalg.eigvalsh(Q).max()
    h=QuantumHedging(Q,n)
    t=time.time()
    try:
        r=[h.max_prob_outcome_a_primal(),h.max_prob_outcome_a_dual(),h.min_prob_outcome_a_primal(),h.min_prob_outcome_a_dual()]
        print(n,'rand complex',np.round(r,6),round(time.time()-t,2))
    except Exception as e: print("EXC",repr(e)[:200])
    Qr=np.real(Q); Qr=(Qr+Qr.T)/2
    h=QuantumHedging(Qr,n)
    r=[h.max_prob_outcome_a_primal(),h.max_prob_outcome_a_dual(),h.min_prob_outcome_a_primal(),h.min_prob_outcome_a_dual()]
    print(n,'rand real',np.round(r,6))
# cloning
ep,em=(e0+e1)/np.sqrt(2),(e0-e1)/np.sqrt(2)
states=[e0,e1,ep,em]; probs=[.25]*4
for n in (1,2):
    t=time.time()
    print(n,"clone",optimal_clone(states,probs,n,False),optimal_clone(states,probs,n,True),round(time.time()-t,2), 0.75**n)
