import numpy as np, warnings
warnings.filterwarnings("ignore")
from toqito.matrix_ops import *
from toqito.matrix_props import *
rng=np.random.default_rng(0)
def rc(*s,cx=True): return rng.normal(size=s)+1j*rng.normal(size=s)*cx
for n,d,cx in [(3,3,False),(3,3,True),(3,5,True),(4,2,True),(4,2,False),(2,2,True)]:
    V=[rc(d,cx=cx) for _ in range(n)]
    G=vectors_to_gram_matrix(V)
    try:
        W=vectors_from_gram_matrix(G)
        G2=vectors_to_gram_matrix(W)
        print(n,d,cx,"roundtrip",np.allclose(G,G2),"conj?",np.allclose(G.conj(),G2), [w.shape for w in W][:1])
    except Exception as e: print(n,d,cx,"EXC",repr(e)[:100])
# vec identity
A=rc(3,4);X=rc(4,2);B=rc(2,5)
print("vec",np.allclose(vec(A@X@B),np.kron(B.T,A)@vec(X)), np.allclose(unvec(vec(X),X.shape),X))
# commutant
for gens in ([rc(3,3)],[np.diag([1,1,2.])],[np.kron(rc(2,2),np.eye(2))],[np.eye(3)], [rc(2,2),rc(2,2)]):
    C=commutant(gens if len(gens)>1 else gens[0])
    ok=all(np.allclose(g@c,c@g) for g in gens for c in C)
    print("commutant dim",len(C),ok)
# majorizes, spark, kp_norm
print(majorizes([3,0,0],[1,1,1]),majorizes([1,1,1],[3,0,0]))
M=rc(3,5,cx=False); M[:,4]=M[:,0]+M[:,1]
print("spark",spark(M))
