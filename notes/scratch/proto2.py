import sys, numpy as np, warnings
warnings.filterwarnings("ignore")
sys.path.insert(0,'/tmp/scratch/deps')
import icontract, cvxpy
from toqito.channels import partial_trace, partial_transpose
rng=np.random.default_rng(0)
# B: .value path on variable kinds
for kind,kw in [("plain",{}),("complex",dict(complex=True)),("sym",dict(symmetric=True)),("herm",dict(hermitian=True)),("psd",dict(PSD=True))]:
    x=cvxpy.Variable((6,6),**kw)
    V=rng.normal(size=(6,6))+(1j*rng.normal(size=(6,6)) if kind in("complex","herm") else 0)
    if kind in ("sym","psd"): V=V@V.T
    if kind=="herm": V=V@V.conj().T
    x.value=V
    e=partial_trace(x,[0],[2,3]); f=partial_transpose(x,[1],[2,3])
    print(kind, np.allclose(e.value,partial_trace(V,[0],[2,3])), np.allclose(f.value,partial_transpose(V,[1],[2,3])), e.is_affine())
# A: recursion under icontract
calls=[]
def post(n,result): calls.append(n); return True
class V(Exception): pass
def fact(n): return 1 if n<=1 else n*fact(n-1)
fact=icontract.ensure(post,error=V)(fact)
fact(4); print("recursive postconditions evaluated for n =",calls)
