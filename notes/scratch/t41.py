import numpy as np, warnings, time, cvxpy as cp, itertools
warnings.filterwarnings("ignore")
from toqito.nonlocal_games.xor_game import XORGame
rng=np.random.default_rng(3)
def cert(prob,pred):
    m,n=prob.shape; D=prob*(-1.0)**pred
    G=cp.Variable((m+n,m+n),symmetric=True)
    p=cp.Problem(cp.Maximize(cp.sum(cp.multiply(D,G[:m,m:]))),[G>>0,cp.diag(G)==1]); p.solve(solver=cp.CLARABEL)
    w,v=np.linalg.eigh((G.value+G.value.T)/2); w=np.clip(w,0,None); V=v*np.sqrt(w)  # rows are vectors
    V=V/np.linalg.norm(V,axis=1,keepdims=True)
    L=float(np.sum(D*(V[:m]@V[m:].T)))   # achieved bias by explicit unit vectors
    # dual: min (sum u + sum v)/2 s.t. [[diag u, -D],[-D^T, diag v]]>=0
    u=cp.Variable(m); vv=cp.Variable(n)
    q=cp.Problem(cp.Minimize((cp.sum(u)+cp.sum(vv))/2),[cp.bmat([[cp.diag(u),-D],[-D.T,cp.diag(vv)]])>>0]); q.solve(solver=cp.CLARABEL)
    M=np.block([[np.diag(u.value),-D],[-D.T,np.diag(vv.value)]]); lam=min(0,np.linalg.eigvalsh(M).min())
    U=float((u.value.sum()+vv.value.sum())/2 - lam*(m+n)/2)  # shift to feasibility
    return L,U
worst=0
for t in range(25):
    m,n=rng.integers(1,5),rng.integers(1,5)
    prob=rng.random((m,n)); 
    if t%4==0 and m>1: prob[0,:]=0
    prob/=prob.sum(); pred=rng.integers(0,2,size=(m,n))
    L,U=cert(prob,pred)
    t0=time.time(); g=XORGame(prob,pred); q=g.quantum_value(); tq=time.time()-t0
    cl=g.classical_value()
    npa=g.to_nonlocal_game().commuting_measurement_value_upper_bound(1)
    lo,hi=0.5+L/2,0.5+U/2
    worst=max(worst,hi-lo,abs(q-lo),abs(npa-q))
    ok = lo-2e-4<=q<=hi+2e-4 and cl<=q+2e-4 and abs(npa-q)<2e-4 and (q-0.5)<=1.7823*(cl-0.5)+2e-4
    if not ok: print("BAD",(m,n),lo,q,hi,cl,npa)
print("worst dev",worst)
