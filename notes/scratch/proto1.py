import sys, time, numpy as np, dis
sys.path.insert(0,'/tmp/scratch/deps')
import icontract
import toqito, importlib, pkgutil
# import all toqito modules
for m in pkgutil.walk_packages(toqito.__path__, 'toqito.'):
    if '.tests' in m.name: continue
    importlib.import_module(m.name)
from ref import ref_permute
class Violation(Exception): pass
EVENTS=[]
def permute_is_relabelling(input_mat, perm, dim, row_only, inv_perm, result):
    X=input_mat
    if not isinstance(X,np.ndarray): EVENTS.append(('skip',type(X).__name__)); return True
    if X.ndim==1 or min(X.shape)==1:
        EVENTS.append(('vec',X.shape)); return True
    d=np.array(dim) if dim is not None else None
    if d is None: EVENTS.append(('nodim',)); return True
    if d.ndim==1: dr=dc=d.astype(int)
    else: dr,dc=d[0].astype(int).ravel(),d[1].astype(int).ravel()
    if row_only: dc=[X.shape[1]]+[1]*(len(perm)-1)
    R=ref_permute(X,list(perm),dr,dc,inv_perm,row_only)
    EVENTS.append(('mat',X.shape,tuple(perm)))
    return np.array_equal(R,result)
mod=sys.modules['toqito.perms.permute_systems']
orig=mod.permute_systems
wrapped=icontract.ensure(permute_is_relabelling,error=Violation)(orig)
n=0
for name,m in list(sys.modules.items()):
    if name.startswith('toqito') and m is not None:
        for k,v in list(vars(m).items()):
            if v is orig: setattr(m,k,wrapped); n+=1
print("rebound",n)
from toqito.channels import partial_trace
from toqito.perms import permute_systems
assert permute_systems is wrapped
X=np.arange(36.).reshape(6,6)
t=time.time()
for i in range(200): partial_trace(X,[0],[2,3])
print("time/200 calls",time.time()-t, len(EVENTS), EVENTS[:4])
# now break it: mutate by monkeypatching np.argsort? simulate violation via wrong oracle
def bad(input_mat, perm, dim, row_only, inv_perm, result): return False
w2=icontract.ensure(bad,error=Violation)(orig)
try: w2(X,[1,0],[2,3])
except Violation as e: print("violation raised:",str(e)[:200])
# sys.monitoring return attribution
msep=sys.modules['toqito.state_props.is_separable']
code=msep.is_separable.__code__
TOOL=sys.monitoring.PROFILER_ID
sys.monitoring.use_tool_id(TOOL,"vmon")
lines={}
for off,line in dis.findlinestarts(code): lines[off]=line
rets=[]
def on_return(c,off,val):
    # find line for offset
    best=None
    for o,l in sorted(lines.items()):
        if o<=off: best=l
    rets.append((best,val))
sys.monitoring.register_callback(TOOL,sys.monitoring.events.PY_RETURN,on_return)
sys.monitoring.set_local_events(TOOL,code,sys.monitoring.events.PY_RETURN)
from toqito.state_props import is_separable
from toqito.states import max_mixed, bell
print(is_separable(np.eye(9)/9), is_separable(bell(0)@bell(0).conj().T), rets)
