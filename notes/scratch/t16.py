import numpy as np, warnings, time, collections, sys
warnings.filterwarnings("ignore")
from toqito.state_props import is_separable
m=sys.modules["toqito.state_props.is_separable"]
code=m.is_separable.__code__
rng=np.random.default_rng(0)
def rsep(da,db,k,cx=True):
    rho=0
    w=rng.random(k); w/=w.sum()
    for i in range(k):
        a=rng.normal(size=da)+1j*rng.normal(size=da)*cx; a/=np.linalg.norm(a)
        b=rng.normal(size=db)+1j*rng.normal(size=db)*cx; b/=np.linalg.norm(b)
        v=np.kron(a,b); rho=rho+w[i]*np.outer(v,v.conj())
    return rho
last={}
def tr(frame,event,arg):
    if frame.f_code is code:
        def local(frame,event,arg):
            if event=='return': last['line']=frame.f_lineno
            return local
        return local
    return None
res=collections.Counter()
for da,db in [(3,3)]:
    for k in (1,2,3,4,5,6,8,9,12,20):
        for cx in (False,True):
            for rep in range(4):
                rho=rsep(da,db,k,cx)
                sys.settrace(tr)
                try: r=is_separable(rho,[da,db])
                except Exception as e: r=type(e).__name__
                sys.settrace(None)
                res[(k,cx,str(r),last.get('line'))]+=1
for k,v in sorted(res.items()): print(k,v)
