import numpy as np, itertools, time, warnings
warnings.filterwarnings("ignore")
import sys; pass
from toqito.nonlocal_games.extended_nonlocal_game import ExtendedNonlocalGame
rng=np.random.default_rng(1)
def rpsd(d,cx=True):
    G=rng.normal(size=(d,d))+(1j*rng.normal(size=(d,d)) if cx else 0)
    P=G@G.conj().T; return P/np.linalg.eigvalsh(P).max()  # <= I
def brute(prob,pred):
    d,_,A,B,X,Y=pred.shape
    best=-1
    for f in itertools.product(range(A),repeat=X):
        for g in itertools.product(range(B),repeat=Y):
            M=sum(prob[x,y]*pred[:,:,f[x],g[y],x,y] for x in range(X) for y in range(Y))
            best=max(best,np.linalg.eigvalsh(M).max())
    return best
for (d,A,B,X,Y) in [(2,2,2,2,2),(2,2,3,2,2),(3,2,2,2,3),(2,3,2,3,2)]:
    prob=rng.random((X,Y)); prob/=prob.sum()
    pred=np.zeros((d,d,A,B,X,Y),complex)
    for a,b,x,y in itertools.product(range(A),range(B),range(X),range(Y)):
        pred[:,:,a,b,x,y]=rpsd(d)*(rng.random()<0.6)
    g=ExtendedNonlocalGame(prob,pred)
    out={}
    for name,f in [('unent',g.unentangled_value),('brute',lambda: brute(prob,pred)),('qlb',lambda: g.quantum_value_lower_bound(iters=2)),('npa1',lambda: g.commuting_measurement_value_upper_bound(1)),('npa2',lambda: g.commuting_measurement_value_upper_bound(2)),('ns',g.nonsignaling_value)]:
        t=time.time()
        try: v=f()
        except Exception as e: v=repr(e)[:80]
        out[name]=(v if isinstance(v,str) else round(float(v),6),round(time.time()-t,2))
    print((d,A,B,X,Y),out)
