import numpy as np, warnings, time
warnings.filterwarnings("ignore")
from toqito.state_opt import state_distinguishability, state_exclusion
rng=np.random.default_rng(5)
def rc(*s): return rng.normal(size=s)+1j*rng.normal(size=s)
def rvec(d,cx): 
    v=rng.normal(size=d)+(1j*rng.normal(size=d) if cx else 0); return v/np.linalg.norm(v)
def rdm(d,r,cx):
    G=rng.normal(size=(d,r))+(1j*rng.normal(size=(d,r)) if cx else 0); P=G@G.conj().T; return P/np.trace(P).real
def val(m): 
    v=m.value if hasattr(m,'value') else m
    return np.array(v,dtype=complex)
worst=dict(povm=0,attain=0,gap=0)
fails=0
for t in range(60):
    n=rng.integers(2,6); d=rng.integers(2,5); cx=bool(t%2)
    if t%3==0: rhos=[rdm(d,rng.integers(1,d+1),cx) for _ in range(n)]; inp=rhos
    else:
        vs=[rvec(d,cx) for _ in range(n)]; rhos=[np.outer(v,v.conj()) for v in vs]; inp=[v.reshape(-1,1) for v in vs] if t%3==1 else vs
    p=rng.random(n); p/=p.sum()
    for pd in ("primal","dual"):
        for f,sense in ((state_distinguishability,+1),(state_exclusion,-1)):
            if f is state_exclusion and pd=="primal" and cx: continue
            try: v,M=f(inp,list(p),primal_dual=pd)
            except Exception as e: fails+=1; print("FAIL",f.__name__,pd,n,d,cx,type(e).__name__,str(e)[:50]); continue
            M=[val(m).conj() if pd=="dual" else val(m) for m in M]
            M=[(m+m.conj().T)/2 for m in M]
            povm=max(max(0,-np.linalg.eigvalsh(m).min()) for m in M)+np.abs(sum(M)-np.eye(d)).max()
            att=sum(p[i]*np.trace(rhos[i]@M[i]).real for i in range(n))
            Y=sum(p[i]*rhos[i]@M[i] for i in range(n)); Y=(Y+Y.conj().T)/2
            if sense>0:
                infeas=max(max(0,-np.linalg.eigvalsh(Y-p[i]*rhos[i]).min()) for i in range(n))
                bound=np.trace(Y).real+d*infeas; gap=bound-att
            else:
                infeas=max(max(0,-np.linalg.eigvalsh(p[i]*rhos[i]-Y).min()) for i in range(n))
                bound=np.trace(Y).real-d*infeas; gap=att-bound
            worst['povm']=max(worst['povm'],povm); worst['attain']=max(worst['attain'],abs(att-v)); worst['gap']=max(worst['gap'],gap)
            if gap>1e-5 or abs(att-v)>1e-5: print(t,f.__name__,pd,n,d,cx,"v",v,"att",att,"bound",bound,"povm",povm)
print(worst,"solver fails",fails)
