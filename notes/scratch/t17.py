import numpy as np, warnings, scipy.linalg as sl
warnings.filterwarnings("ignore")
from toqito.state_metrics import *
rng=np.random.default_rng(0)
def rdm(d,r,cx=True):
    G=rng.normal(size=(d,r))+1j*rng.normal(size=(d,r))*cx
    P=G@G.conj().T; return P/np.trace(P)
def psd_sqrt(A):
    w,v=np.linalg.eigh((A+A.conj().T)/2); w=np.clip(w,0,None); return (v*np.sqrt(w))@v.conj().T
def ref_fid(r,s):
    sr=psd_sqrt(r); return np.sum(np.sqrt(np.clip(np.linalg.eigvalsh(sr@s@sr),0,None)))
def ref_td(r,s): return 0.5*np.sum(np.abs(np.linalg.eigvalsh(r-s)))
for d in (2,3,4):
  for r1 in range(1,d+1):
    for cx in (False,True):
        rho=rdm(d,r1,cx); sig=rdm(d,rng.integers(1,d+1),cx)
        F=fidelity(rho,sig); T=trace_distance(rho,sig)
        out=dict(dF=F-ref_fid(rho,sig), dT=T-ref_td(rho,sig), dHS=hilbert_schmidt(rho,sig)-np.trace((rho-sig)@(rho-sig)).real,
                 dHH=helstrom_holevo(rho,sig)-(0.5+0.5*ref_td(rho,sig)), dB=bures_distance(rho,sig)-np.sqrt(max(0,2-2*ref_fid(rho,sig))),
                 dBA=bures_angle(rho,sig)-np.arccos(min(1,ref_fid(rho,sig))))
        E=np.trace(rho@sig).real+np.sqrt(2*max(0,(np.trace(rho@sig)**2-np.trace(rho@sig@rho@sig)).real))
        out['dSub']=sub_fidelity(rho,sig)-E
        print(d,r1,cx,{k:round(float(v),8) for k,v in out.items()})
