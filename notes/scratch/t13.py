import numpy as np, warnings, time
warnings.filterwarnings("ignore")
from toqito.state_opt import state_distinguishability, state_exclusion
rng=np.random.default_rng(0)
def rvec(d,cx): 
    v=rng.normal(size=d)+(1j*rng.normal(size=d) if cx else 0); return v/np.linalg.norm(v)
for t in range(12):
    n=rng.integers(2,5); d=rng.integers(2,4); cx=t%2==1
    vs=[rvec(d,cx) for _ in range(n)]
    p=rng.random(n); p/=p.sum(); p=list(p)
    row=[]
    t0=time.time()
    for strat in ("min_error","unambiguous"):
        for pd in ("primal","dual"):
            try:
                v,m=state_distinguishability(vs,p,strategy=strat,primal_dual=pd)
                row.append(round(v,6))
            except Exception as e: row.append(type(e).__name__+str(e)[:40])
    print("DIST",n,d,cx,row,round(time.time()-t0,2))
    row=[]
    for strat in ("min_error","unambiguous"):
        for pd in ("primal","dual"):
            try:
                v,m=state_exclusion(vs,p,strategy=strat,primal_dual=pd)
                row.append(round(v,6))
            except Exception as e: row.append(type(e).__name__+str(e)[:40])
    print("EXCL",n,d,cx,row)
