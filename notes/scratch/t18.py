import numpy as np, warnings
warnings.filterwarnings("ignore")
from toqito.state_props import *
from toqito.state_ops import schmidt_decomposition
rng=np.random.default_rng(0)
def runi(d,cx=True):
    G=rng.normal(size=(d,d))+1j*rng.normal(size=(d,d))*cx; q,r=np.linalg.qr(G); return q
def pure(da,db,s,cx=True):
    U=runi(da,cx);V=runi(db,cx)
    v=sum(s[i]*np.kron(U[:,i],V[:,i]) for i in range(len(s))); return v
def ent(p): p=np.array([x for x in p if x>1e-15]); return -np.sum(p*np.log2(p))
for da,db in [(2,2),(2,3),(3,2),(3,3),(2,4),(4,3)]:
    m=min(da,db)
    for r in range(1,m+1):
        for cx in (False,True):
            s=rng.random(r)+0.1; s/=np.linalg.norm(s); s=np.sort(s)[::-1]
            v=pure(da,db,s,cx); col=v.reshape(-1,1); rho=np.outer(v,v.conj())
            out={}
            def chk(name,f,exp):
                try:
                    val=f(); out[name]=bool(np.isclose(val,exp,atol=1e-7)) or (val,exp)
                except Exception as e: out[name]=type(e).__name__+":"+str(e)[:40]
            chk('neg_vec',lambda:negativity(col,[da,db]),(s.sum()**2-1)/2)
            chk('neg_dm',lambda:negativity(rho,[da,db]),(s.sum()**2-1)/2)
            chk('neg_int',lambda:negativity(rho,da),(s.sum()**2-1)/2)
            chk('logneg',lambda:log_negativity(rho,[da,db]),np.log2(s.sum()**2))
            chk('eof_vec',lambda:entanglement_of_formation(col,[da,db]),ent(s**2))
            chk('eof_dm',lambda:entanglement_of_formation(rho,[da,db]),ent(s**2))
            chk('srank_vec',lambda:schmidt_rank(col,[da,db]),r)
            chk('srank_1d',lambda:schmidt_rank(v,[da,db]),r)
            chk('srank_int',lambda:schmidt_rank(col,da),r)
            for k in range(1,m+1):
                chk(f'sk{k}',lambda:sk_vector_norm(col,k,[da,db]),np.sqrt(np.sum(s[:k]**2)))
            chk('isprod',lambda:is_product(col,[da,db])[0],r==1)
            chk('isprod_dm',lambda:is_product(rho,[da,db])[0],r==1)
            chk('vn',lambda:von_neumann_entropy(rho),0)
            chk('purity',lambda:purity(rho),1)
            chk('l1',lambda:l1_norm_coherence(rho),np.abs(rho).sum()-1)
            def sd():
                sv,a,b=schmidt_decomposition(col,[da,db])
                rec=sum(sv[i,0]*np.kron(a[:,i],b[:,i]) for i in range(len(sv)))
                return np.allclose(rec,v) and np.allclose(a.conj().T@a,np.eye(len(sv))) and np.allclose(b.conj().T@b,np.eye(len(sv))) and np.allclose(sv.ravel(),s)
            chk('sd',sd,True)
            if (da,db)==(2,2): chk('conc',lambda:concurrence(rho),2*s[0]*(s[1] if r>1 else 0))
            bad={k:v for k,v in out.items() if v is not True}
            print((da,db),r,cx,"BAD:",bad)
