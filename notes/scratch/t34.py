import numpy as np, warnings, itertools
warnings.filterwarnings("ignore")
from toqito.channels import *
from toqito.channel_ops import apply_channel, kraus_to_choi
from toqito.channel_props import *
rng=np.random.default_rng(0)
def rc(*s): return rng.normal(size=s)+1j*rng.normal(size=s)
def T(name,f):
    try: print(name, f())
    except Exception as e: print(name,"EXC",type(e).__name__,str(e)[:70])
for d in (2,3):
    X=rc(d,d)
    for p in (0,0.3,1):
        J=depolarizing(d,p)
        T(f"depol d{d} p{p}",lambda: (np.allclose(apply_channel(X,J),(1-p)*np.trace(X)*np.eye(d)/d+p*X), is_quantum_channel(J), is_unital(J)))
        J=dephasing(d,p)
        T(f"deph d{d} p{p}",lambda: (np.allclose(apply_channel(X,J),(1-p)*np.diag(np.diag(X))+p*X), is_quantum_channel(J), is_unital(J)))
    for k in (1,2):
        J=reduction(d,k); T(f"reduction d{d} k{k}",lambda:(np.allclose(apply_channel(X,J),k*np.trace(X)*np.eye(d)-X), is_completely_positive(J), is_herm_preserving(J)))
X=rc(2,2)
for g,pr in [(0,1),(0.3,1),(0.3,0.6),(1,0),(1,1)]:
    K=amplitude_damping(None,g,pr)
    T(f"ad g{g} p{pr}",lambda:(is_quantum_channel(K), np.allclose(amplitude_damping(X,g,pr),apply_channel(X,K)), len(K)))
for bad in [(-0.1,1),(1.1,1),(0.5,-0.1),(0.5,1.1)]:
    T(f"ad bad {bad}",lambda: amplitude_damping(None,*bad))
for g in (0,0.4,1):
    K=phase_damping(None,g); T(f"pd {g}",lambda:(is_quantum_channel(K),np.allclose(phase_damping(X,g),apply_channel(X,K)), np.allclose(phase_damping(X,g),np.array([[X[0,0],np.sqrt(1-g)*X[0,1]],[np.sqrt(1-g)*X[1,0],X[1,1]]]))))
    K=bitflip(None,g); T(f"bf {g}",lambda:(is_quantum_channel(K),np.allclose(bitflip(X,g),(1-g)*X+g*np.array([[0,1],[1,0]])@X@np.array([[0,1],[1,0]]))))
T("pd bad",lambda: phase_damping(None,1.2)); T("bf bad",lambda: bitflip(None,-0.2))
p=np.array([0.1,0.2,0.3,0.4])
T("pauli1",lambda: [type(x).__name__ for x in pauli_channel(p,True,X)])
def pc():
    Phi,out,K=pauli_channel(p,True,X)
    Phi=Phi.toarray() if hasattr(Phi,'toarray') else np.array(Phi)
    P=[np.eye(2),np.array([[0,1],[1,0]]),np.array([[0,-1j],[1j,0]]),np.diag([1,-1])]
    exp=sum(p[i]*P[i]@X@P[i].conj().T for i in range(4))
    return np.allclose(out,exp), np.allclose(apply_channel(X,Phi),exp), np.allclose(kraus_to_choi(K),Phi), is_quantum_channel(Phi)
T("pauli1 vals",pc)
p2=rng.random(16); p2/=p2.sum(); X4=rc(4,4)
def pc2():
    Phi,out,K=pauli_channel(p2,True,X4)
    Phi=Phi.toarray() if hasattr(Phi,'toarray') else np.array(Phi)
    P=[np.eye(2),np.array([[0,1],[1,0]]),np.array([[0,-1j],[1j,0]]),np.diag([1,-1])]
    exp=sum(p2[4*i+j]*np.kron(P[i],P[j])@X4@np.kron(P[i],P[j]).conj().T for i in range(4) for j in range(4))
    return np.allclose(out,exp), np.allclose(apply_channel(X4,Phi),exp), np.allclose(kraus_to_choi(K),Phi)
T("pauli2 vals",pc2)
T("pauli bad neg",lambda: pauli_channel(np.array([-0.1,0.5,0.3,0.3])))
T("pauli bad sum",lambda: pauli_channel(np.array([0.1,0.5,0.3,0.3])))
T("pauli bad len",lambda: pauli_channel(np.array([0.5,0.25,0.25])))
T("pauli list",lambda: type(pauli_channel([0.25]*4)).__name__)
T("pauli scalar",lambda: pauli_channel(1).shape)
J=choi(); X3=rc(3,3)
T("choi map",lambda:(J.shape,is_herm_preserving(J),is_completely_positive(J)))
