import sys; pass
import numpy as np, warnings
warnings.filterwarnings("ignore")
from toqito.channel_metrics import completely_bounded_trace_norm
import toqito.channel_metrics.completely_bounded_trace_norm as m
print(sys.modules['toqito.channel_metrics.completely_bounded_trace_norm'].__file__)
from toqito.channel_ops import kraus_to_choi
from toqito.channel_props import is_completely_positive
rng=np.random.default_rng(0)
def rc(*s): return rng.normal(size=s)+1j*rng.normal(size=s)
ks=[rc(2,2) for _ in range(2)]; J=kraus_to_choi(ks); s=sum(k.conj().T@k for k in ks)
print(is_completely_positive(J), completely_bounded_trace_norm(J), np.linalg.norm(s,2), np.linalg.norm(s,'nuc'))
