import numpy as np, itertools, scipy.sparse as sp
from toqito.perms import permute_systems, swap, permutation_operator, swap_operator
from ref import ref_permute
rng=np.random.default_rng(1)
# vectors
for trial in range(10):
    n=rng.integers(2,5); d=rng.integers(1,4,size=n)
    if np.prod(d)<2: continue
    perm=list(rng.permutation(n))
    v=rng.normal(size=np.prod(d))
    for inv in (False,True):
        R=ref_permute(v.reshape(-1,1),perm,d,[1]*n,inv).ravel()
        for form,name in ((v,'1d'),(v.reshape(-1,1),'col'),(v.reshape(1,-1),'row')):
            try:
                Y=permute_systems(form,perm,list(d),False,inv)
                print(name,d,perm,inv,type(Y),Y.shape,Y.dtype,np.allclose(np.ravel(Y),R))
            except Exception as e:
                print(name,"EXC",d,perm,inv,repr(e)[:150])
