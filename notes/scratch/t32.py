import numpy as np, warnings
warnings.filterwarnings("ignore")
from toqito.state_opt import state_distinguishability, state_exclusion
rng=np.random.default_rng(5)
def rvec(d): v=rng.normal(size=d)+1j*rng.normal(size=d); return v/np.linalg.norm(v)
for t in range(5):
    n=rng.integers(2,5); d=rng.integers(2,4)
    vs=[rvec(d) for _ in range(n)]; rhos=[np.outer(v,v.conj()) for v in vs]
    p=rng.random(n); p/=p.sum()
    for f in (state_distinguishability,state_exclusion):
        v,M=f(vs,list(p),primal_dual="dual")
        M=[np.array(m.value if hasattr(m,'value') else m,dtype=complex) for m in M]
        att=sum(p[i]*np.trace(rhos[i]@M[i]).real for i in range(n))
        attc=sum(p[i]*np.trace(rhos[i]@M[i].conj()).real for i in range(n))
        print(f.__name__,n,d,"value",round(v,6),"attained by M",round(att,6),"attained by conj(M)",round(attc,6))
