import numpy as np, warnings, itertools
warnings.filterwarnings("ignore")
import toqito.perms as P; print(P.__path__)
from toqito.perms import antisymmetric_projection
A=antisymmetric_projection(3,2); V=antisymmetric_projection(3,2,True)
print("antisym",np.trace(A), V.shape, np.allclose(V@V.conj().T,A))
from toqito.channel_metrics import channel_fidelity
from toqito.channel_ops import kraus_to_choi
import scipy.linalg as sl
rng=np.random.default_rng(0)
def rc(*s): return rng.normal(size=s)+1j*rng.normal(size=s)
U=np.linalg.qr(rc(2,2))[0]; H=rc(2,2);H=H+H.conj().T; V=U@sl.expm(1j*0.4*H/np.linalg.norm(H))
print("cf unitary",channel_fidelity(kraus_to_choi([U]),kraus_to_choi([V])), "expected ~0.9617")
from toqito.nonlocal_games.quantum_hedging import QuantumHedging
for n in (1,2):
    G=rc(4**n,4**n); Q=G@G.conj().T; Q/=np.linalg.eigvalsh(Q).max()
    h=QuantumHedging(Q,n)
    print("hedge",n,[round(float(np.real(x)),5) for x in (h.max_prob_outcome_a_primal(),h.max_prob_outcome_a_dual(),h.min_prob_outcome_a_primal(),h.min_prob_outcome_a_dual())])
from toqito.state_opt import state_exclusion, state_distinguishability
def rvec(d): v=rc(d); return v/np.linalg.norm(v)
for (n,d) in [(2,3),(3,3),(4,3),(3,2)]:
    vs=[rvec(d) for _ in range(n)]; p=rng.random(n); p/=p.sum(); p=list(p)
    row=[]
    for f,strat in ((state_exclusion,"min_error"),(state_distinguishability,"unambiguous")):
        for pd in ("primal","dual"):
            try: row.append(round(float(np.real(f(vs,p,strategy=strat,primal_dual=pd)[0])),6))
            except Exception as e: row.append(type(e).__name__)
    print(n,d,row)
