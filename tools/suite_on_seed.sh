#!/bin/sh
# tools/suite_on_seed.sh ID...  - run the repository's complete unedited suite inside each seeded worktree (sequentially), log to /tmp/seeded/ID/suite.log
for ID in "$@"; do
  WT=/tmp/wt$ROUND/$ID
  (cd "$WT" && PYTHONPATH="$WT" /venv/bin/python -m pytest -q -p no:cacheprovider --timeout=900 toqito > /tmp/seeded$ROUND/$ID/suite.log 2>&1)
  echo "$ID: $(tail -1 /tmp/seeded$ROUND/$ID/suite.log)" >> /tmp/seeded$ROUND/suites_done.txt
done
