#!/bin/sh
# tools/sweep.sh <tier> <seeds...>  - run every check on /repo for several seeds without touching evidence/; print one line per run
TIER="$1"; shift
OUT=$(mktemp -d /tmp/vmon-sweep-XXXXXX)
for SEED in "$@"; do
  for i in 01 02 03 04 05 06 07 08 09 10 11 12 13 14 15 16 17 18 19 20; do
    VMON_EVIDENCE_DIR="$OUT/ev" VMON_REPLAY_DIR="$OUT/replays" PYTHONHASHSEED=0 "$(dirname "$0")/../check" C$i --tier "$TIER" --seed "$SEED" > "$OUT/C$i.$SEED.txt" 2>&1
    RC=$?
    echo "C$i seed=$SEED exit=$RC $(grep '^\[' "$OUT/C$i.$SEED.txt" | cut -c1-140) $(grep -c '^VIOLATION' "$OUT/C$i.$SEED.txt") viol $(grep -c '^INCONCLUSIVE' "$OUT/C$i.$SEED.txt") inconcl"
  done
done
echo "outputs in $OUT"
