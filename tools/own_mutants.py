#!/usr/bin/env python3
"""Apply the 'Breaks' of DESIGN.md section 4 one at a time to a scratch worktree and run the quick check against it.

usage: tools/own_mutants.py [ID ...]     (scratch worktree: /tmp/wt/own; nothing under /repo or /verif/evidence is touched)
Each entry: (property, file, old text, new text).  A mutant counts as caught when the check exits 1.
"""
import os, subprocess, sys, json, time

WT = "/tmp/wt/own"
M = [
 ("C01", "toqito/perms/permute_systems.py", "permuted_mat_1 = input_mat.reshape(dim[vec_orien, ::-1].astype(int), order=\"F\")", "permuted_mat_1 = input_mat.reshape(dim[vec_orien, :].astype(int), order=\"F\")"),
 ("C01", "toqito/perms/permute_systems.py", "np.argsort(num_sys - np.array(perm[::-1]))", "(num_sys - np.array(perm[::-1]))"),
 ("C01", "toqito/perms/permute_systems.py", "col_perm = permute_systems(vec_arg, perm, dim[1][:], False, inv_perm)", "col_perm = permute_systems(vec_arg, perm, dim[0][:], False, inv_perm)"),
 ("C01", "toqito/perms/swap.py", "perm[sys] = perm[sys[::-1]]", "perm[sys] = perm[sys]"),
 ("C01", "toqito/perms/swap.py", "sys = np.array(sys) - 1", "sys = np.array(sys) % num_sys"),
 ("C02", "toqito/channels/partial_trace.py", "permuted_mat = ret_mat.transpose((1, 3, 0, 2))", "permuted_mat = ret_mat.transpose((3, 1, 0, 2))"),
 ("C02", "toqito/channels/partial_trace.py", "dim = np.array([dim[0], len(input_mat) / dim[0]])", "dim = np.array([len(input_mat) / dim[0], dim[0]])"),
 ("C02", "toqito/channels/partial_trace.py", "int(sub_sys_vec[0] + 1)", "int(sub_sys_vec[0])"),
 ("C03", "toqito/channels/partial_transpose.py", "y_tmp = np.transpose(x_tmp, [0, 3, 2, 1])", "y_tmp = np.transpose(x_tmp, [2, 1, 0, 3])"),
 ("C03", "toqito/channels/partial_transpose.py", "return permute_systems(z_tmp, perm, dim, False, True)", "return permute_systems(z_tmp, perm, dim, False, False)"),
 ("C03", "toqito/channels/realignment.py", "y_tmp = partial_transpose(x_tmp, [0], dim_x)", "y_tmp = partial_transpose(x_tmp, [1], dim_x)"),
 ("C04", "toqito/channel_ops/natural_representation.py", None, None),
 ("C04", "toqito/channel_ops/choi_to_kraus.py", "np.sqrt(abs(eigval)) * unvec(evec, shape=(d_out[0], d_in[0]))", "np.sqrt(abs(eigval)) * unvec(evec, shape=(d_in[0], d_out[0])).T"),
 ("C04", "toqito/channel_ops/choi_to_kraus.py", "np.sign(eigval) * k_mat for eigval, k_mat", "k_mat for eigval, k_mat"),
 ("C05", "toqito/channel_ops/dual_channel.py", "return swap(phi_op.conj(), dim=", "return swap(phi_op, dim="),
 ("C05", "toqito/channel_ops/dual_channel.py", "return [[a.conj().T for a in x] for x in phi_op]", "return [[a.conj().T for a in x[::-1]] for x in phi_op]"),
 ("C05", "toqito/channel_ops/complementary_channel.py", "kraus_ops[i][row, :] for i in range(num_kraus)", "kraus_ops[i][:, row] for i in range(num_kraus)"),
 ("C06", "toqito/channel_props/is_trace_preserving.py", "mat = partial_trace(phi, [sys - 1], dim)", "mat = partial_trace(phi, [sys - 2], dim)"),
 ("C06", "toqito/channel_props/is_extremal.py", "return matrix_rank(M, tol=tol) == r * r", "return matrix_rank(M, tol=tol) >= r"),
 ("C06", "toqito/channels/amplitude_damping.py", "k3 = np.sqrt(1 - prob) * np.sqrt(gamma) * np.array([[0, 0], [1, 0]])", "k3 = np.sqrt(1 - prob) * np.sqrt(gamma) * np.array([[0, 1], [0, 0]])"),
 ("C06", "toqito/channels/bitflip.py", "if not (0 <= prob <= 1):", "if not (0 <= prob < 1):"),
 ("C06", "toqito/channel_props/is_completely_positive.py", "return is_herm_preserving(phi, rtol, atol) and is_positive_semidefinite(phi, rtol, atol)", "return is_herm_preserving(phi, rtol, atol)"),
 ("C07", "toqito/nonlocal_games/nonlocal_game.py", "tgval = np.sum(np.amax(pred_alice, axis=0))", "tgval = np.sum(np.amax(pred_alice, axis=1))"),
 ("C07", "toqito/nonlocal_games/nonlocal_game.py", "for k in range(reps - 1, -1, -1):\n                        to_tensor[k] = pred_mat[:, :, i_ind[k], j_ind[k]]", "for k in range(reps - 1, -1, -1):\n                        to_tensor[reps - 1 - k] = pred_mat[:, :, i_ind[k], j_ind[k]]"),
 ("C08", "toqito/nonlocal_games/xor_game.py", "return np.real(problem.value) / 4 + 1 / 2\n", "return np.real(problem.value) / 2 + 1 / 2\n"),
 ("C08", "toqito/nonlocal_games/xor_game.py", "nlg_pred_mat[a, b, x, y] = xor_pred_mat[x, y] == a ^ b", "nlg_pred_mat[a, b, x, y] = xor_pred_mat[x, y] != a ^ b"),
 ("C09", "toqito/nonlocal_games/quantum_hedging.py", "constraints = [u_var >> self._q_a]", "constraints = [u_var << self._q_a]"),
 ("C10", "toqito/state_opt/state_distinguishability.py", "problem.add_constraint(picos.sum(measurements) == picos.I(dim))", "problem.add_constraint(picos.sum(measurements) << picos.I(dim))"),
 ("C11", "toqito/state_props/is_antidistinguishable.py", "return np.isclose(opt_val, 0)", "return opt_val < 0.05"),
 ("C12", "toqito/state_opt/ppt_distinguishability.py", "problem.set_objective(\"min\", picos.trace(y_var))\n    solution = problem.solve(solver=solver)\n\n    measurements", "problem.set_objective(\"min\", 1.02 * picos.trace(y_var))\n    solution = problem.solve(solver=solver)\n\n    measurements"),
 ("C13", "toqito/state_metrics/helstrom_holevo.py", "return 1 / 2 + 1 / 2 * (trace_norm(rho - sigma)) / 2", "return 1 / 2 + 1 / 2 * (trace_norm(rho - sigma))"),
 ("C13", "toqito/state_metrics/sub_fidelity.py", "np.trace(rho @ sigma @ rho @ sigma)", "np.trace(rho @ rho @ sigma @ sigma)"),
 ("C14", "toqito/state_props/log_negativity.py", "np.log2(", "np.log("),
 ("C14", "toqito/state_props/negativity.py", None, None),
 ("C15", "toqito/state_props/in_separable_ball.py", ", \"fro\") <= 1", ", \"fro\") >= 1"),
 ("C15", "toqito/state_props/is_ppt.py", "return is_positive_semidefinite(partial_transpose(mat, [sys - 1], dim), tol)", "return is_positive_semidefinite(partial_transpose(mat, [sys - 1], dim), tol, 1e-5)"),
 ("C16", "toqito/matrix_props/is_normal.py", None, None),
 ("C16", "toqito/matrix_ops/unvec.py", "mat = vector.reshape(*shape, order=\"F\")", "mat = vector.reshape(*shape)"),
 ("C17", "toqito/states/isotropic.py", "alpha * psi @ psi.conj().T / dim", "alpha * psi @ psi.conj().T / dim**2"),
 ("C17", "toqito/matrices/gen_pauli_x.py", "np.roll(np.identity(dim), -1, axis=1)", "np.roll(np.identity(dim), 1, axis=1)"),
 ("C18", "toqito/perms/symmetric_projection.py", "sym_proj /= p_fac", "sym_proj /= p_val"),
 ("C19", "toqito/rand/random_unitary.py", "gen = np.random.default_rng(seed=seed)", "gen = np.random.default_rng(seed=None if seed is None else seed % 7)"),
 ("C19", "toqito/rand/random_povm.py", "gen = np.random.default_rng(seed=seed)", "np.random.seed(seed); gen = np.random.default_rng(seed=seed)"),
 ("C20", "toqito/channel_metrics/completely_bounded_trace_norm.py", "return sdp.value / 2", "return sdp.value"),
 ("C20", "toqito/channel_metrics/completely_bounded_spectral_norm.py", "return completely_bounded_trace_norm(dual_channel(phi))", "return completely_bounded_trace_norm(phi)"),
]

def main():
    only = set(sys.argv[1:])
    rows = []
    for prop, f, old, new in M:
        if old is None or (only and prop not in only):
            continue
        path = os.path.join(WT, f)
        src = open(path).read()
        if src.count(old) != 1:
            rows.append((prop, f, old[:40], "PATTERN-NOT-FOUND"))
            print(rows[-1], flush=True)
            continue
        open(path, "w").write(src.replace(old, new))
        t = time.time()
        try:
            out = subprocess.run(["/verif/tools/try_mutant.sh", WT, prop], capture_output=True, text=True, timeout=1800)
            rc = out.returncode
            mechs = [l.strip() for l in out.stdout.splitlines() if l.startswith("    ") or l.strip()[:1].isdigit()]
        finally:
            open(path, "w").write(src)
        rows.append((prop, f, old[:50].replace("\n", " "), "CAUGHT" if rc == 1 else ("MISSED" if rc == 0 else f"exit={rc}"), round(time.time() - t), mechs[:3]))
        print(rows[-1], flush=True)
    json.dump(rows, open("/tmp/own_mutants.json", "w"), indent=1)

main()
