#!/bin/sh
# tools/verify_seed.sh <ID> [worktree]  - confirm a sub-agent's seeded change: patch == worktree diff, demo FAILs with it and PASSes without it.
# (never uses `git stash`: the stash is shared by all worktrees of a repository)
ID="$1"; WT="${2:-/tmp/wt/$ID}"; S="${3:-/tmp/seeded/$ID}"
git -C "$WT" diff > /tmp/seed_$ID.diff
if ! diff -q /tmp/seed_$ID.diff "$S/patch.diff" >/dev/null; then echo "NOTE: patch.diff differs from worktree diff (using worktree diff)"; cp /tmp/seed_$ID.diff "$S/patch.diff"; fi
git -C "$WT" diff --stat | tail -3
(cd "$S" && PYTHONPATH="$WT" timeout 900 /venv/bin/python demo.py > "$S/demo_with.txt" 2>&1); W=$?
git -C "$WT" apply -R /tmp/seed_$ID.diff || { echo "cannot reverse-apply"; exit 2; }
(cd "$S" && PYTHONPATH="$WT" timeout 900 /venv/bin/python demo.py > "$S/demo_without.txt" 2>&1); WO=$?
git -C "$WT" apply /tmp/seed_$ID.diff
echo "demo exit with change=$W (want 1), without=$WO (want 0)"
tail -2 "$S/demo_with.txt" | cut -c1-200
rm -f /tmp/seed_$ID.diff
