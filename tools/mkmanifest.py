#!/usr/bin/env python3
"""Regenerate /verif/MANIFEST.json from the table below and validate it against the schema."""
import json
import os
import sys

HERE = os.path.dirname(os.path.dirname(os.path.abspath(__file__)))
sys.path.insert(0, HERE)

CHECKS = {
    # id: (technique, level text, level note, design ref)
}


def load_table():
    import importlib

    out = {}
    for i in range(1, 21):
        pid = "C%02d" % i
        path = os.path.join(HERE, "vmon", "props", pid + ".py")
        if not os.path.exists(path):
            continue
        mod = importlib.import_module("vmon.props." + pid)
        if getattr(mod, "CLAIMED", True):
            out[pid] = mod
    return out


def main():
    mods = load_table()
    checks = []
    for pid, mod in sorted(mods.items()):
        checks.append({
            "property_id": pid,
            "quick_cmd": f"./check {pid} --tier quick",
            "thorough_cmd": f"./check {pid} --tier thorough",
            "evidence_file": f"evidence/{pid}.json",
            "replay_cmd_template": f"./check {pid} --replay {{path}}",
            "engine": "vmon",
            "level_claimed": {
                "category": "exploration",
                "text": getattr(mod, "LEVEL_TEXT", "") or (
                    "Runtime monitoring: the real functions are executed on generated hostile inputs while contract, "
                    "reference-model, certificate and history monitors observe every call; the property held on the "
                    "executions observed (counts and input classes in the evidence), it is not proved for all inputs."),
                "design_ref": f"DESIGN.md section 4, {pid}",
            },
            "level_note": "; ".join(getattr(mod, "ASSUMPTIONS", [])) or "see DESIGN.md",
            "technique": getattr(mod, "TECHNIQUE", "runtime monitoring: reference-model and contract monitors over generated workloads"),
        })
    not_app = []
    for i in range(1, 21):
        pid = "C%02d" % i
        if pid not in mods:
            not_app.append({"property_id": pid, "reason": "check not built yet in this session (planned; see DESIGN.md section 4)"})
    manifest = {
        "version": 1,
        "setup_cmd": "sh tools/setup.sh",
        "hooks": {
            "guard": "TOQITO_VERIF",
            "enable": "No source hooks: monitors are attached from outside the repository (icontract wrappers re-bound into "
                      "the loaded toqito modules, sys.monitoring return-site tracing) inside the check process, which sets "
                      "TOQITO_VERIF=1 for itself only. /repo is imported from its working tree (pure Python, no build).",
            "baseline_off_cmd": "cd /repo && /venv/bin/python -m pytest -ra -q -p no:cacheprovider --timeout=900 --continue-on-collection-errors",
            "source_commits": [],
            "add_only": True,
        },
        "engines": [{
            "name": "vmon",
            "path": "vmon/",
            "serves_properties": sorted(mods),
            "kind_free_text": "runtime monitoring framework: contract attachment (icontract + own re-entrant wrapper), reference models, "
                              "primal/dual certificate checkers, history/immutability digests, sys.monitoring return-site tracer, "
                              "sharded subprocess workers with watchdogs, known-findings classifier",
        }],
        "checks": checks,
        "not_applicable": not_app,
        "notes": "Exit codes: 0 held on what was observed, 1 violation (VIOLATION line + replay file), 2 inconclusive "
                 "(deciding monitor never reached / watchdog / harness error). VERIF_SEED and VERIF_TIER are honoured. "
                 "VERIF_REPO selects another tree (default /repo).",
    }
    path = os.path.join(HERE, "MANIFEST.json")
    with open(path, "w") as fh:
        json.dump(manifest, fh, indent=1)
        fh.write("\n")
    try:
        import jsonschema

        jsonschema.validate(manifest, json.load(open("/root/.vp/MANIFEST.schema.json")))
        print("MANIFEST.json valid;", len(checks), "checks,", len(not_app), "not_applicable")
    except ImportError:
        print("jsonschema not available here; wrote", path)


if __name__ == "__main__":
    main()
