#!/usr/bin/env python3
"""Regenerate /verif/MANIFEST.json from the table below and validate it against the schema."""
import json
import os
import sys

HERE = os.path.dirname(os.path.dirname(os.path.abspath(__file__)))
sys.path.insert(0, HERE)

TECH = {'C01': 'runtime contract monitors (icontract / re-entrant wrapper) on every call of permute_systems, swap, permutation_operator against a NumPy tensor-axis reference model; unique-id arrays; product-form, inverse, row-only metamorphic oracles; repository suite under contract (thorough)', 'C02': 'runtime contract monitor on every partial_trace call (einsum reference model), composition / product / linearity oracles, cvxpy-Variable value path, repository suite under contract (thorough)', 'C03': 'runtime contract monitors on partial_transpose and realignment (axis-exchange reference model, arguments snapshotted before the call), involution / complement / Frobenius oracles, cvxpy value path, suite under contract (thorough)', 'C04': 'reference-model monitors (explicit Kraus loop, Choi from action) over all representation forms and conversion chains; contracts on internal apply_channel / kraus_to_choi calls; mixed-dtype operator families', 'C05': "adjoint-identity and Stinespring-marginal monitors evaluated through the reference application (never the library's apply_channel); rejection monitors", 'C06': 'ground-truth-by-construction predicate monitors with margins across all accepted forms; closed-formula monitors for built-in channels incl. parameter-range rejections; contracts on internal calls', 'C07': 'brute-force reference for the classical value, one-sided ordering monitors on SDP values incl. explicit quantum strategies, relabelling/padding disguises with value invariance, history monitor over call orders with state digests', 'C08': "certificate monitor (unit vectors + repaired dual point, NumPy-verified) for the Tsirelson optimum, NPA level-1 equality, exact 2-2-2 quantum maximum by Jordan's lemma, affine outcome-relabelling relation", 'C09': 'brute-force unentangled value, ordering monitors, answer-relabelling disguises with invariance, strong-duality and explicit-feasible-point monitors for hedging, closed forms and repetition consistency for cloning', 'C10': 'primal/dual certificate monitor: returned POVM validity and attained value, dual-feasible operator repaired by measured infeasibility (NumPy only); closed forms, invariances, unambiguous-discrimination relations', 'C11': 'certificate monitor for minimum-error exclusion (attained value, repaired dual-feasible lower bound), closed forms, antidistinguishability anchors (trine, BB84, PBR) and certified-positive negatives', 'C12': "ordering monitors between explicit product measurements, the PPT value and the certified global optimum; cross-solver level-1 equality; before/after digests (element identities) of the caller's list", 'C13': 'documented formulas recomputed by Hermitian eigendecompositions, relation monitors on library values, rejection monitors, SDP value monitor for the fidelity of separability', 'C14': 'planted-Schmidt-coefficient closed forms, local-unitary invariance monitors, product-test ground truth with margins, S(k)-norm bracket against explicit Schmidt-rank-k vectors', 'C15': 'ground-truth-by-construction verdict monitors with margins; sys.monitoring attribution of every is_separable verdict to its return statement; crash classification by raising line', 'C16': 'predicate table: exact positives, margin negatives, property-preserving transformations; helper identities against NumPy', 'C17': 'defining-identity monitors for every constructor over parameter grids incl. end points; reference partial traces / transposes / permutations; Haar-unitary invariance sampling', 'C18': 'exhaustive enumeration of the finite (d, p), permutation, multiset and matching spaces against model permutation operators and itertools', 'C19': 'kind monitors (model checks), offline-checked history of interleaved seeded / unseeded calls with global-RNG digests, POVM / Born-rule monitors, P_opt bracket from the C10 certificate', 'C20': 'closed forms (unitary pairs, replacement channels), explicit-input lower bounds, independent SDP of the definition, return-site attribution of the cb trace norm'}

GENERIC = ("; on every library call: plain-argument digests before/after, read-only array arguments in one case out of four, Fortran-ordered / strided copies of the same values in another one out of four, and an offline-checked "
           "call history (sampled cases re-run in reverse order by fresh processes must reproduce every recorded value)")


EXTRA = {
    "C01": "operands beyond size thresholds (vectors of 1025..6000 entries, operators of side 65..160), tiny-entry operands, repeat calls with the same ndarray index objects; 9-13 subsystems; square operators between two factorisations; sparse flags",
    "C02": "narrow integer types, operands of magnitude 1e-16..1e8 against their natural magnitude, 9-13 subsystems, one cvxpy Variable under several factorisations",
    "C03": "rectangular operators on four to six subsystems, tiny-entry operands, single-number dim forms, rectangular cvxpy Variables, repeat calls, 9-13 subsystems",
    "C04": "Kraus lists of 33..129 operators, nearly equal left / right Kraus pairs, designed Choi spectra around the documented cut-off, operator magnitudes, repeated operators, kraus_to_choi(sys=1), non-square Choi matrices with dims omitted",
    "C05": "Choi matrices of 65..81 rows with unequal dimensions, Fortran-ordered / strided arguments, nested CP list forms, near-Hermitian operators, classical channels, repeated operators, magnitudes 1e-12..1e6",
    "C06": "structured non-Hermiticity-preserving maps (Choi matrix non-Hermitian on the diagonal only / in one entry), mixed int / float / NumPy-float constructor parameters, documented tolerance rule of is_trace_preserving / is_unital, direct-form parameter rejections, non-Hermitian operands, fresh-result history monitor",
    "C07": "answer alphabets 2 against 4 or 5 with planted certain-win strategies below every NPA level, planted unique optima for the pooled classical value, predicate-scaling relation, every order of the NPA levels on one object (tilted CHSH), fractional / mixed predicates",
    "C08": "player-symmetric games with indefinite cost matrix, classical value of two repetitions against the explicit product game, repeated predicate columns, different outcome labels per party, tol argument",
    "C09": "CGLMP-3 known value at an intermediate NPA level in every spelling of the level string, explicit keep-and-prepare cloning strategy, zero-prior insertion and listing-order invariance",
    "C10": "unitary-orbit ensembles with equal priors (Toeplitz, non-circulant Gram matrix), row / mixed vector forms, repeated states, exact-zero priors, prior omitted, overlapping pairs at arbitrary list positions",
    "C11": "density-matrix forms, mixed-pair overlap closed form, library PBR constructor against its definition, prior omitted",
    "C12": "pairs of mixed states in a common two-dimensional support, repeated states with the heavier copy later against the ensemble without the lighter copy, orthogonal product states in rotated local bases as a known-value anchor at every level, dimension argument forms",
    "C13": "nearly pure mixed states, graded nearly-equal pairs with a condition-aware Bures tolerance, degenerate commuting pairs, one array object as both arguments, mixed dtypes",
    "C14": "certified S(k) relaxation bound, product-test classifier that replays the library's splits (known finding keyed by mechanism)",
    "C15": "partial transposes with a designed smallest eigenvalue either side of the threshold, X-shaped weakly entangled two-qubit states, nearly product NPT states 20..5000 tolerances beyond the threshold, weakly entangled states, rank-four two-qutrit mixtures, ppt flag, omitted / single-number dimension forms; known findings keyed by call class",
    "C16": "orthonormal sets with fewer vectors than dimensions, helper contracts on internal calls, explicit-zero signatures, near-parallel columns for spark, documented allclose tolerance rule at scales 1e-4..1e4, non-adjacent violating pairs, designed spectra for the norms, unequal-length majorisation",
    "C17": "fresh-result history monitor on every constructor",
    "C18": "abandoned / interleaved enumerations, non-integer, negative and shuffled labels",
    "C19": "ensembles closed under complex conjugation for the pretty-good measurement, seed 0 and small seeds, mixed-dtype measured states, row-vector kets, conditioning-aware POVM tolerance",
    "C20": "complex / negative multiples of channels and CP maps, trace-preserving maps that do not preserve Hermiticity, measure-and-prepare pairs, transpose and affine unital maps, maps that do not preserve Hermiticity, complex homogeneity, unequal dimensions for the channel fidelity of separability",
}

CHECKS = {
    # id: (technique, level text, level note, design ref)
}


def load_table():
    import importlib

    out = {}
    for i in range(1, 21):
        pid = "C%02d" % i
        path = os.path.join(HERE, "vmon", "props", pid + ".py")
        if not os.path.exists(path):
            continue
        mod = importlib.import_module("vmon.props." + pid)
        if getattr(mod, "CLAIMED", True):
            out[pid] = mod
    return out


def main():
    mods = load_table()
    checks = []
    for pid, mod in sorted(mods.items()):
        checks.append({
            "property_id": pid,
            "quick_cmd": f"./check {pid} --tier quick",
            "thorough_cmd": f"./check {pid} --tier thorough",
            "evidence_file": f"evidence/{pid}.json",
            "replay_cmd_template": f"./check {pid} --replay {{path}}",
            "engine": "vmon",
            "level_claimed": {
                "category": "exploration",
                "text": getattr(mod, "LEVEL_TEXT", "") or (
                    "Exploration by runtime monitoring: the real functions are executed on generated hostile inputs (" + getattr(mod, "RULE", "")[:400] + ") while the monitors "
                    "named under 'technique' observe every call. The verdict is 'held on the executions observed' (evaluation counts, distinct non-trivial "
                    "input classes, per-monitor counts and largest deviations are in the evidence); it is not a proof for all inputs. A deciding monitor that "
                    "was never reached makes the run inconclusive (exit 2), never held."),
                "design_ref": f"DESIGN.md section 4, {pid}",
            },
            "level_note": "; ".join(getattr(mod, "ASSUMPTIONS", [])) or "see DESIGN.md",
            "technique": "runtime monitoring: " + TECH.get(pid, "reference-model and contract monitors over generated workloads") + "; widened by the seeded-change rounds: " + EXTRA.get(pid, "-") + GENERIC,
        })
    not_app = []
    for i in range(1, 21):
        pid = "C%02d" % i
        if pid not in mods:
            not_app.append({"property_id": pid, "reason": "check not built yet in this session (planned; see DESIGN.md section 4)"})
    manifest = {
        "version": 1,
        "setup_cmd": "sh tools/setup.sh",
        "hooks": {
            "guard": "TOQITO_VERIF",
            "enable": "No source hooks: monitors are attached from outside the repository (icontract wrappers re-bound into "
                      "the loaded toqito modules, sys.monitoring return-site tracing) inside the check process, which sets "
                      "TOQITO_VERIF=1 for itself only. /repo is imported from its working tree (pure Python, no build).",
            "baseline_off_cmd": "cd /repo && /venv/bin/python -m pytest -ra -q -p no:cacheprovider --timeout=900 --continue-on-collection-errors",
            "source_commits": [],
            "add_only": True,
        },
        "engines": [{
            "name": "vmon",
            "path": "vmon/",
            "serves_properties": sorted(mods),
            "kind_free_text": "runtime monitoring framework: contract attachment (icontract + own re-entrant wrapper), reference models, "
                              "primal/dual certificate checkers, history/immutability digests, sys.monitoring return-site tracer, "
                              "sharded subprocess workers with watchdogs, known-findings classifier",
        }],
        "checks": checks,
        "not_applicable": not_app,
        "notes": "Exit codes: 0 held on what was observed, 1 violation (VIOLATION line + replay file), 2 inconclusive "
                 "(deciding monitor never reached / watchdog / harness error). VERIF_SEED and VERIF_TIER are honoured. "
                 "VERIF_REPO selects another tree (default /repo).",
    }
    path = os.path.join(HERE, "MANIFEST.json")
    with open(path, "w") as fh:
        json.dump(manifest, fh, indent=1)
        fh.write("\n")
    try:
        import jsonschema

        jsonschema.validate(manifest, json.load(open("/root/.vp/MANIFEST.schema.json")))
        print("MANIFEST.json valid;", len(checks), "checks,", len(not_app), "not_applicable")
    except ImportError:
        print("jsonschema not available here; wrote", path)


if __name__ == "__main__":
    main()
