#!/usr/bin/env python3
"""Write the prompts given to the independent seeding sub-agents: tools/mkseedprompts.py ROUND  ->  /tmp/seeded<ROUND>/<ID>.prompt.txt

A prompt holds the text of one property, the relevant source files, one line per earlier seeded change of that property (so that a new
round picks another function / mechanism) and the working rules.  Nothing from /verif is shown to the agents."""
import glob
import json
import os
import sys

ROUND = sys.argv[1]
PREFER = {
    "4": ("This time prefer one of the following kinds of change: (e) a defect in a member of the family of functions covered by the property that has no "
          "earlier seeded change (see the list above), or in a code path reached only through a rarely used option / solver choice / calling form; (f) a "
          "validation defect: an input that must be rejected is accepted, or a valid boundary input is rejected or mishandled; (g) boundary values: smallest "
          "and largest sizes, local dimension 1, singleton or empty lists, parameter end points; (h) a wrong result that stays self-consistent, so that the "
          "library's own functions still agree with each other and only an independent reference computation reveals it; (i) a defect that shows only at "
          "particular numerical magnitudes (very small / very large entries, nearly degenerate spectra). Do NOT use in-place modification of the caller's "
          "arguments and do NOT add caches or module-level state (both were used in earlier rounds)."),
}
PREFER["5"] = ("This time prefer one of the following kinds of change: (j) a documented optional argument or alternative documented calling form that typical "
               "use does not exercise (dimension omitted / scalar / array, tolerance arguments, solver keyword arguments, row versus column vectors, lists "
               "versus arrays); (k) a defect in a shared helper (toqito/helper, toqito/matrix_ops, toqito/matrix_props, toqito/perms) that shows through the "
               "functions of this property but leaves that helper's own tests passing; (l) a wrong condition of a special-case branch (fast path, closed-form "
               "shortcut, early return) that triggers only for particular structures such as diagonal, rank-one, commuting, equal or identity inputs; (m) a "
               "slip in argument conversion: dtype promotion, 0-d arrays, shape handling, integer versus float parameters. Do NOT use in-place modification "
               "of the caller's arguments, caches / module-level state, or exact-zero priors (all used in earlier rounds).")
PREFER["6"] = ("This time prefer one of the following kinds of change: (n) a clause of the STATEMENT above that none of the earlier seeded changes targets - "
               "go through its sentences (each equality, inequality, invariance, special value, rejection) and pick one; (o) the structure of what is "
               "returned: a second return value (measurement operators, decomposition factors, certificates, Kraus lists) that is wrong while the first "
               "is right, or a wrong ordering / shape / normalisation of returned objects; (p) sizes beyond the smallest ones: an off-by-one or a wrong "
               "index that shows only for five or more parties, local dimension five or more, three or more repetitions / levels, or ranks above two; "
               "(q) numerically delicate but valid inputs: nearly rank-deficient or nearly degenerate operators, entries spanning many orders of magnitude, "
               "a trace equal to one only up to 1e-12; (r) solver-related paths: primal versus dual branch, option pass-through, an alternative solver "
               "argument. Do NOT use in-place modification of the caller's arguments, caches / module-level state, exact-zero priors, tolerance-argument "
               "swaps, row-vector handling or single-number dimension arguments (all used in earlier rounds).")
PREFER["7"] = ("This time prefer one of the following kinds of change: (s) an inconsistency BETWEEN two functions of the property - each still behaves "
               "sensibly alone (docstring examples still right) but their conventions no longer match (subsystem order, conjugation, normalisation, "
               "which argument is transposed), so that compositions, round trips or cross-checks between them break; (t) default behaviour: a changed "
               "default value or a changed inference of an omitted argument (default level, default dimension for non-square sizes, default solver, "
               "default prior); (u) an 'optimisation' that is wrong only for non-generic data: repeated entries, ties in a sort, exact zeros, negative "
               "numbers, duplicate states in an ensemble, identical operators in a list; (v) invalid input handling: an input the statement says must "
               "be rejected is silently accepted, or a different exception type is raised. Do NOT use in-place modification of the caller's arguments, "
               "caches / module-level state, exact-zero priors, tolerance-argument swaps, row-vector handling, single-number dimension arguments, "
               "seed-0 handling or a conjugation of returned measurement operators (all used in earlier rounds).")
PREFER["8"] = ("Seven earlier changes per property are listed above. This time: first list for yourself every public function, every optional argument "
               "and every branch (input form, size regime, special case) of the relevant source files, strike out what the earlier changes already "
               "touched, and seed your change in something that is left - preferably (w) a loop bound, index or reshape that uses the wrong one of two "
               "sizes and therefore shows only when those sizes differ in a position not exercised before (third subsystem, Bob versus Alice, outputs "
               "versus inputs, environment versus system); (x) a comparison at the edge of a tolerance or range (<= versus <, abs versus signed, a "
               "tolerance scaled by the wrong dimension) shown by an input a clear factor away from the edge; (y) the type, dtype or shape of what is "
               "returned (flat versus column, real versus complex, numpy scalar versus array) where a documented relation with another function breaks; "
               "(z) a helper imported from another package of the library (matrix_ops, states, perms, helper) used with swapped or missing arguments. "
               "Do NOT reuse any mechanism named in the list above.")
PREFER["9"] = ("Eight earlier changes per property are listed above. This time make the change hard to meet by accident: (aa) it should need a "
               "CONJUNCTION of at least two conditions on the input that are each unremarkable alone (for example complex entries AND unequal local "
               "dimensions AND a particular flag; a degenerate spectrum AND a non-uniform prior; the larger dimension first AND a rank-deficient "
               "operator); or (bb) it should show only in a size regime beyond the smallest cases (local dimension 4 or 5, four or more subsystems, five "
               "or more states, NPA level 2, three repetitions) while small cases stay exactly right; or (cc) it should concern a function, argument or "
               "clause of the statement that the list above shows to be the least covered. Keep the result silently wrong (no exception). Do NOT reuse "
               "any mechanism named in the list above.")
PREFER["10"] = ("Nine earlier changes per property are listed above. Read the STATEMENT sentence by sentence and the QUANTIFIED OVER line item by item; "
                "for each sentence / item note which earlier change (if any) targets it; then seed your change against the sentence or item that is "
                "covered least, in a function and branch no earlier change touched. The result must stay silently wrong (no exception, plausible "
                "values), must need something specific to show (say what in meta.json) and must not reuse a mechanism from the list above.")
PREFER["11"] = ("Ten earlier changes per property are listed above. This time prefer one of the following kinds of change, in a function and branch no "
                "earlier change touched: (dd) a bound, relaxation or search that becomes slightly LOOSER or slightly less complete but stays on the right "
                "side of every obvious ordering (a dropped or weakened constraint, a truncated enumeration, an iteration cap, an early exit) so that only an "
                "exactly known value on a NON-standard instance reveals it; (ee) integer / precision arithmetic: a product, factorial, power, root or "
                "float-to-int conversion that is right for the small sizes and wrong from some size on (rounding down, narrow integer type, comparison of a "
                "float with ==); (ff) Python-level semantics: zip() silently truncating lists of unequal length, truthiness of 0 / 0.0 / empty arrays used "
                "as 'not given', negative indices, `is` versus `==`, integer versus true division, a mutable default argument, iteration order of a set or "
                "dict; (gg) a data-dependent branch keyed on np.isclose / np.allclose / matrix_rank / a sort that flips for inputs with a large dynamic "
                "range, with ties, or with a tiny but genuine component. The result must stay silently wrong (no exception, plausible values), must need "
                "something specific to show (say what in meta.json) and must not reuse a mechanism from the list above.")
PREFER["12"] = ("Eleven earlier changes per property are listed above. This time prefer one of the following kinds of change, in a function and branch no "
                "earlier change touched: (hh) TWO cooperating edits in different functions (or different branches of one function) that each keep that "
                "function's own behaviour plausible and its tests passing, but whose combination breaks the statement (a convention changed at the "
                "producer and only partly at the consumer; a helper that now returns a view / another dtype / another orientation which one of its "
                "callers mishandles); (ii) a value that is wrong only for a NON-generic but perfectly valid instance whose exact answer is known from "
                "theory (a game, ensemble, channel or state family from the literature that the tests do not use), while random instances stay right; "
                "(jj) an argument-dependent choice between two algorithms (size threshold, sparsity, dtype, symmetry test) where the rarely taken "
                "algorithm is subtly wrong; (kk) accumulated floating-point or integer error that only matters for the larger admissible sizes. The "
                "result must stay silently wrong (no exception, plausible values), must need something specific to show (say what in meta.json) and "
                "must not reuse a mechanism from the list above.")
TEMPLATE = open(os.path.join(os.path.dirname(os.path.abspath(__file__)), "seedprompt.template.txt")).read()
os.makedirs(f"/tmp/seeded{ROUND}", exist_ok=True)
for line in open("/verif/properties.jsonl"):
    p = json.loads(line)
    pid = p["id"]
    earlier = []
    for meta in sorted(glob.glob(f"/verif/seeded/{pid}*/meta.json")):
        m = json.load(open(meta))
        earlier.append(f"  - {', '.join(m.get('files', []))} ({m.get('summary', '')[:220]})")
    txt = TEMPLATE.format(ID=pid, ROUND=ROUND, TITLE=p["title"], STATEMENT=p["statement"], QUANT=p["quantifier"]["text"],
                          FILES=", ".join(p["anchors"]["files"]), EARLIER="\n".join(earlier) or "  (none)", PREFER=PREFER[ROUND])
    with open(f"/tmp/seeded{ROUND}/{pid}.prompt.txt", "w") as fh:
        fh.write(txt)
print("prompts in", f"/tmp/seeded{ROUND}")
