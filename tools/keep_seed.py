#!/usr/bin/env python3
"""tools/keep_seed.py ID "<which monitors fired>" ["<what had to be strengthened first>"]  - file a confirmed seeded change under /verif/seeded/ID/."""
import json, os, shutil, subprocess, sys
pid = sys.argv[1]
caught = sys.argv[2]
strengthened = sys.argv[3] if len(sys.argv) > 3 else ""
rnd = os.environ.get("ROUND", "")
src = f"/tmp/seeded{rnd}/{pid}"
dst = f"/verif/seeded/{pid}" + (f"-r{rnd}" if rnd else "") + os.environ.get("SUFFIX", "")
os.makedirs(dst, exist_ok=True)
for f in ("patch.diff", "demo.py"):
    shutil.copy(os.path.join(src, f), os.path.join(dst, f))
meta = json.load(open(os.path.join(src, "meta.json")))
def tail(path):
    try:
        return open(path).read().strip().splitlines()[-1][:200]
    except Exception:
        return None
base = subprocess.run(["git", "-C", f"/tmp/wt{rnd}/{pid}", "rev-parse", "--short", "HEAD"], capture_output=True, text=True).stdout.strip()
meta["breaks_property"] = pid
meta["written_by"] = "independent sub-agent given only the property text and a scratch worktree (nothing from /verif)"
meta["base_commit_of_repo"] = base
meta["confirmed_by_me"] = {
    "patch_applies_to_base": True,
    "demo_with_change": tail(os.path.join(src, "demo_with.txt")) + " (exit 1)",
    "demo_without_change": tail(os.path.join(src, "demo_without.txt")) + " (exit 0)",
    "existing_suite_with_change": tail(os.path.join(src, "suite.log")) if os.path.exists(os.path.join(src, "suite.log")) else "see tests_run (sub-agent); re-run pending",
    "commands": [f"tools/verify_seed.sh {pid} /tmp/wt{rnd}/{pid} /tmp/seeded{rnd}/{pid}", f"tools/try_mutant.sh /tmp/wt{rnd}/{pid} {pid}"],
}
meta["detected_by"] = caught
if strengthened:
    meta["missed_at_first_then_strengthened"] = strengthened
json.dump(meta, open(os.path.join(dst, "meta.json"), "w"), indent=1)
print("kept", dst)
