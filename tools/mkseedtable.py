#!/usr/bin/env python3
"""Regenerate the seeded-change table (and the own-mutant summary) inside DESIGN.md from /verif/seeded/*/meta.json and /tmp/own_mutants.json."""
import glob, json, os, re
rows = []
for f in sorted(glob.glob("/verif/seeded/*/meta.json")):
    m = json.load(open(f))
    pid = m["breaks_property"]
    first = "missed -> strengthened" if m.get("missed_at_first_then_strengthened") else "caught"
    summ = (m.get("summary", "") + " Needs: " + m.get("needs", "")).replace("|", "/").replace("\n", " ")
    if len(summ) > 330:
        summ = summ[:327] + "..."
    rows.append(f"| `seeded/{os.path.basename(os.path.dirname(f))}` | {summ} | {first} | {m.get('detected_by','').replace('|','/')} |")
p = "/verif/DESIGN.md"
s = open(p).read()
s = re.sub(r"<!-- SEEDTABLE:BEGIN -->.*?<!-- SEEDTABLE:END -->", "<!-- SEEDTABLE:BEGIN -->\n" + "\n".join(rows) + "\n<!-- SEEDTABLE:END -->", s, flags=re.S)
if os.path.exists("/verif/notes/own_mutants.json"):
    r = json.load(open("/verif/notes/own_mutants.json"))
    caught = sum(1 for x in r if x[3] == "CAUGHT")
    missed = [f"{x[0]} {x[1]} ({x[2]})" for x in r if x[3] != "CAUGHT"]
    s = re.sub(r"<!-- OWNCOUNT -->.*?<!-- /OWNCOUNT -->", f"<!-- OWNCOUNT -->{len(r)}<!-- /OWNCOUNT -->", s)
    res = f"{caught} of {len(r)} caught by the quick tier" + ("; not caught: " + "; ".join(missed) if missed else "") + " (table in `notes/own_mutants.json`)"
    s = re.sub(r"<!-- OWNRESULT -->.*?<!-- /OWNRESULT -->", f"<!-- OWNRESULT -->{res}<!-- /OWNRESULT -->", s, flags=re.S)
open(p, "w").write(s)
print(len(rows), "seed rows")
