#!/usr/bin/env python3
import json, sys, glob, jsonschema
schema = json.load(open("/root/.vp/EVIDENCE.schema.json"))
bad = 0
for f in sorted(glob.glob("/verif/evidence/*.json")):
    try:
        jsonschema.validate(json.load(open(f)), schema)
        print("ok ", f)
    except Exception as e:
        bad += 1
        print("BAD", f, str(e)[:300])
sys.exit(1 if bad else 0)
