#!/usr/bin/env python3
"""Record my own full-suite confirmation (tools/suite_on_seed.sh) in /verif/seeded/<ID>/meta.json."""
import json, os, sys
base = sys.argv[1] if len(sys.argv) > 1 else "/tmp/seeded"
sub = sys.argv[2] if len(sys.argv) > 2 else ""
done = {}
for line in open(os.path.join(base, "suites_done.txt")):
    pid, res = line.strip().split(": ", 1)
    done[pid] = res
for pid, res in done.items():
    f = f"/verif/seeded/{pid}{sub}/meta.json"
    if not os.path.exists(f):
        continue
    m = json.load(open(f))
    m["confirmed_by_me"]["existing_suite_with_change"] = res + "  (complete unedited suite run by me inside the scratch worktree)"
    json.dump(m, open(f, "w"), indent=1)
    print(pid, res[:40])
