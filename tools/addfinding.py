#!/usr/bin/env python3
"""tools/addfinding.py PROP KEY kind(known|fixed) COMMIT|- "what"   (maintenance helper; never used by checks)"""
import json, sys
prop, key, kind, commit, what = sys.argv[1:6]
p = "/verif/known_findings.json"
d = json.load(open(p))
d["findings"] = [e for e in d["findings"] if not (e["property"] == prop and e["key"] == key)]
e = {"property": prop, "key": key, "kind": kind, "what": what}
if kind == "fixed":
    e["commit"] = commit
    e["record"] = f"fixed: property={prop} {commit} {what}"
else:
    e["record"] = f"known: property={prop} {what}"
d["findings"].append(e)
d["findings"].sort(key=lambda e: (e["property"], e["key"]))
json.dump(d, open(p, "w"), indent=1)
open(p, "a").write("\n")
