#!/bin/sh
# tools/try_mutant.sh <tree> <ID> [tier]  - run one check against another tree without touching evidence/ or replays/
TREE="$1"; ID="$2"; TIER="${3:-quick}"
OUT=$(mktemp -d /tmp/vmon-mut-XXXXXX)
VERIF_REPO="$TREE" VMON_EVIDENCE_DIR="$OUT/evidence" VMON_REPLAY_DIR="$OUT/replays" "$(dirname "$0")/../check" "$ID" --tier "$TIER" > "$OUT/out.txt" 2>&1
RC=$?
grep -v "^  (" "$OUT/out.txt" | grep "VIOLATION\|KNOWN\|HELD\|INCONCL\|^\[" | cut -c1-160 | head -8
grep "monitor=" "$OUT/out.txt" | sed 's/.*monitor=\([^ ]*\) mechanism=\([^ ]*\).*/    \1  \2/' | sort | uniq -c | head -8
echo "exit=$RC (output in $OUT)"
exit $RC
