#!/bin/sh
# Offline setup: icontract + deal (and their pure-python deps) into /verif/.deps, beside the repo's interpreter.
HERE="$(cd "$(dirname "$0")/.." && pwd)"
cd "$HERE" || exit 1
if [ ! -d .deps/icontract ]; then
  PIP_NO_INDEX=1 /venv/bin/python -m pip install -q --no-index --find-links /opt/veriftools/wheels --target .deps icontract deal || exit 1
fi
PYTHONPATH="$HERE" /venv/bin/python -c "import sys; sys.path.append('$HERE/.deps'); import icontract, deal, vmon.runner; print('vmon ready: icontract', icontract.__version__)"
